#!/usr/bin/env python3
"""Confirm a seeded change and run checks against it WITHOUT touching /repo: everything happens in a scratch worktree of /repo HEAD
(removed afterwards), the checks read it through EDGEGRAPH_REPO.

  tools/seedwt.py <src dir with patch.diff, demo.py[, notes.md]> <seed name e.g. C09-r6A> <property broken> [checks to run ...] [--tier T] [--keep-only-if-confirmed]
"""
import json
import pathlib
import shutil
import subprocess
import sys

V = pathlib.Path(__file__).resolve().parent.parent


def sh(cmd, cwd=None):
    p = subprocess.run(cmd, shell=True, cwd=cwd, capture_output=True, text=True)
    return p.returncode, (p.stdout + p.stderr)


def main():
    args = [a for a in sys.argv[1:] if not a.startswith("--")]
    tier = "quick"
    if "--tier" in sys.argv:
        tier = sys.argv[sys.argv.index("--tier") + 1]
        args = [a for a in args if a != tier]
    src, name, prop, checks = pathlib.Path(args[0]), args[1], args[2], args[3:] or [args[2]]
    WT = f"/tmp/wt/verify-{name}"
    sh(f"git -C /repo worktree remove --force {WT}")
    rc, out = sh(f"git -C /repo worktree add -q --detach {WT} HEAD")
    if rc:
        print(out)
        return 3
    meta = {"seed": name, "breaks_property": prop, "repo_head": sh("git -C /repo rev-parse --short HEAD")[1].strip()}
    results = {}
    try:
        rc0, _ = sh(f"/venv/bin/python {src}/demo.py", cwd=WT)
        rca, out = sh(f"git apply {src}/patch.diff", cwd=WT)
        if rca:
            print(f"{name}: PATCH DOES NOT APPLY:", out)
            return 4
        rc1, demo_out = sh(f"/venv/bin/python {src}/demo.py", cwd=WT)
        _, suite = sh("/venv/bin/python -m pytest -q -p no:cacheprovider --timeout=900 2>&1 | tail -1", cwd=WT)
        sh("find . -name __pycache__ -prune -exec rm -rf {} +", cwd=WT)
        meta["confirmed"] = {"demo_exit_without_patch": rc0, "demo_exit_with_patch": rc1, "suite_with_patch": suite.strip()}
        ok = rc0 == 0 and rc1 != 0 and " passed" in suite and "failed" not in suite
        meta["confirmed"]["ok"] = ok
        print(f"{name}: demo without patch: exit {rc0}; with patch: exit {rc1}; suite with patch: {suite.strip()}")
        for c in checks:
            rc, out = sh(f"EDGEGRAPH_REPO={WT} VERIF_EVIDENCE_DIR=/tmp/verif_seed_evidence/{name} VERIF_REPLAY_DIR=/tmp/verif_seed_replays/{name} /venv/bin/python -m sa.check {c} --tier {tier}", cwd=V)
            viol = [l for l in out.splitlines() if l.startswith("  rule=")]
            und = [l for l in out.splitlines() if l.startswith("UNDECIDED")]
            results[c] = {"exit": rc, "violations": len([l for l in out.splitlines() if l.startswith("VIOLATION")]), "first": [v.strip()[:300] for v in viol[:3]], "undecided": [u[:300] for u in und[:3]]}
            print(f"{name}: check {c} ({tier}): exit {rc}, {results[c]['violations']} violation(s)")
            for v in viol[:2]:
                print("   ", v.strip()[:400])
            for u in und[:2]:
                print("   ", u[:300])
    finally:
        sh(f"git -C /repo worktree remove --force {WT}")
    meta["checks_run"] = results
    meta["caught_by"] = [c for c, r in results.items() if r["exit"] == 1]
    meta["commands"] = [f"git -C /repo worktree add --detach <wt> HEAD; git -C <wt> apply seeded/{name}/patch.diff", *[f"EDGEGRAPH_REPO=<wt> /venv/bin/python -m sa.check {c} --tier {tier}" for c in checks], "git -C /repo worktree remove --force <wt>"]
    d = V / "seeded" / name
    d.mkdir(parents=True, exist_ok=True)
    for f in ("patch.diff", "demo.py", "notes.md"):
        if (src / f).exists():
            shutil.copy(src / f, d / f)
    notes = (src / "notes.md").read_text() if (src / "notes.md").exists() else ""
    meta["needs_to_manifest"] = notes[:1500]
    (d / "meta.json").write_text(json.dumps(meta, indent=1))
    print(f"{name}:", "kept" if ok else "NOT CONFIRMED (kept for reference, see meta.json)", d)
    return 0


if __name__ == "__main__":
    sys.exit(main())
