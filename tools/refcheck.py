#!/usr/bin/env python3
"""Run every check against behaviour-preserving refactorings: each must leave every check at exit 0.

  tools/refcheck.py <dir containing R*/patch.diff> [<name prefix>] [--keep]

Applies each patch to a scratch worktree of /repo HEAD (the checks read it through EDGEGRAPH_REPO; /repo itself is never touched), runs all
registered checks in parallel (evidence diverted), removes the worktree at once.
With --keep the patch and the result are stored under /verif/seeded/keep-<prefix>-<R>/ ."""
import concurrent.futures as cf
import json
import pathlib
import shutil
import subprocess
import sys

V = pathlib.Path(__file__).resolve().parent.parent


def sh(cmd, cwd=None):
    p = subprocess.run(cmd, shell=True, cwd=cwd, capture_output=True, text=True)
    return p.returncode, p.stdout + p.stderr


WT = [None]


def run_check(pid, tier="quick"):
    rc, out = sh(f"EDGEGRAPH_REPO={WT[0]} VERIF_EVIDENCE_DIR=/tmp/verif_ref_evidence VERIF_REPLAY_DIR=/tmp/verif_ref_replays /venv/bin/python -m sa.check {pid} --tier {tier}", cwd=V)
    lines = [l for l in out.splitlines() if l.startswith(("  rule=", "UNDECIDED", "ANALYSIS-ERROR", "Traceback"))]
    return pid, rc, lines[:4]


def main():
    args = [a for a in sys.argv[1:] if not a.startswith("--")]
    keep = "--keep" in sys.argv
    base = pathlib.Path(args[0])
    prefix = args[1] if len(args) > 1 else base.name
    pids = [c["property_id"] for c in json.load(open(V / "MANIFEST.json"))["checks"]]
    if "--only" in sys.argv:      # --only C01,C02: the checks of the touched area (a full run is all 20)
        sel = sys.argv[sys.argv.index("--only") + 1].split(",")
        pids = [p for p in pids if p in sel]
        args = [a for a in args if a != sys.argv[sys.argv.index("--only") + 1]]
        base = pathlib.Path(args[0])
        prefix = args[1] if len(args) > 1 else base.name
    bad = 0
    for d in sorted(p for p in base.iterdir() if (p / "patch.diff").exists()):
        WT[0] = f"/tmp/wt/ref-{prefix}-{d.name}"
        sh(f"git -C /repo worktree remove --force {WT[0]}")
        sh(f"git -C /repo worktree add -q --detach {WT[0]} HEAD")
        rc, out = sh(f"git apply {d}/patch.diff", cwd=WT[0])
        if rc:
            print(f"{prefix}-{d.name}: PATCH DOES NOT APPLY ({out.strip()[:100]})")
            sh(f"git -C /repo worktree remove --force {WT[0]}")
            continue
        try:
            with cf.ThreadPoolExecutor(7) as ex:
                results = list(ex.map(run_check, pids))
        finally:
            sh(f"git -C /repo worktree remove --force {WT[0]}")
        fails = [(p, rc, l) for p, rc, l in results if rc != 0]
        print(f"{prefix}-{d.name}: " + (f"all {len(pids)} checks silent ({','.join(pids)})" if not fails else "ALARM " + ", ".join(f"{p}(exit {rc})" for p, rc, l in fails)))
        for p, rc, l in fails:
            bad += 1
            for x in l[:2]:
                print("     ", x.strip()[:260])
        if keep:
            out_dir = V / "seeded" / f"keep-{prefix}-{d.name}"
            out_dir.mkdir(parents=True, exist_ok=True)
            shutil.copy(d / "patch.diff", out_dir / "patch.diff")
            if (d / "notes.md").exists():
                shutil.copy(d / "notes.md", out_dir / "notes.md")
            (out_dir / "meta.json").write_text(json.dumps({"kind": "behaviour-preserving refactoring (must stay silent)", "name": f"{prefix}-{d.name}",
                                                           "repo_head": sh("git -C /repo rev-parse --short HEAD")[1].strip(),
                                                           "checks": {p: rc for p, rc, l in results}, "alarms": [{"check": p, "exit": rc, "lines": l} for p, rc, l in fails]}, indent=1))
    dirty = sh("git -C /repo status --short")[1].strip()
    if dirty:
        print("WARNING /repo not clean:", dirty)
    return 1 if bad else 0


if __name__ == "__main__":
    sys.exit(main())
