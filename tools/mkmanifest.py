#!/usr/bin/env python3
"""Regenerates /verif/MANIFEST.json from the table below (run after adding a check)."""
import json
import os
import pathlib

V = pathlib.Path(__file__).resolve().parent.parent
NOTE_AE = ("Trusted base: the abstract evaluator's semantics of the Python subset (sa/ae.py, validated by its conformance controls), the identity-model "
           "preconditions (re-checked every run), the oracle transcribed from the property statement.  Static: repository code is parsed and evaluated "
           "under abstract semantics, never imported or executed; no solver.")

T = {
    "C01": ("proof", "Inductive step for invariant I1 over every abstract pre-state (link class x end list over {a,b,c,None} up to length 3 (4 thorough), other links opaque) and every association entry point incl. exceptional exits; covers histories of any length by induction.", "5/C01",
            "abstract interpretation (inductive invariant step over abstract heaps with opaque segments) + ownership rule"),
    "C03": ("proof", "Transformer equivalence: post-heap and return value of every mutator on every abstract pre-state equal the reference model transcribed from the statement (frame included: bystander links/vertices, order inside opaque-segment lists).", "5/C03",
            "abstract interpretation compared with a reference transformer (per-call equivalence => per-history equivalence)"),
    "C04": ("proof", "Complete decision table of neighbors() (540 abstract input classes) derived from the source and compared with the specified table; mirror-image (FORWARD/BACKWARD) and composition rows.", "5/C04",
            "decision-table extraction by abstract evaluation over finite input classes"),
    "C09": ("proof", "Complete decision table of find_links() (540 classes) vs the specified table, relational check against the derived neighbors() table, and find_links on the abstract post-state of unlink().", "5/C09",
            "decision-table extraction + relational (sibling) cross-check between two derived tables"),
}

T.update({
    "C02": ("proof", "Inductive step for invariant I2 and equality with the reference model from every abstract membership pre-state (object classes incl. nested and self-member universes, opaque list segments), all four calls from either side, constructors with repeated elements given as list/tuple/one-shot iterator; raise => unchanged.", "5/C02",
            "abstract interpretation (inductive invariant step + reference transformer)"),
    "C05": ("proof", "Query side: every neighbors() table row with caching off/cold/warm, semantic memo-key completeness over ordered pairs of settings; invalidation: ghost memo entry on every C01/C03 obligation with the flag on and off during the mutation (stale entry must be gone wherever the neighbour signature changed); registry scripts on objects with empty class-level state; traversals reach the graph only through neighbors().", "5/C05",
            "abstract interpretation with ghost state over the inductive mutator obligations + call-graph rule"),
    "C06": ("proof", "Schema-step proof (prologue + one loop iteration / recursive activation from abstract worklist states equals the text-book search step; if the code no longer has that shape the verdict falls back to the sweep alone and the evidence says `bounded`) and bounded-exhaustive abstract evaluation of all six traversal functions over every neighbour map of a small scope plus a fixed-seed family of larger maps, against the reachability closure and the reference search schemas; forwarding of settings to neighbors() checked at the call interface.", "5/C06",
            "small-scope abstract evaluation of whole functions against a reference schema (neighbors() stubbed at its interface)"),
    "C07": ("proof", "Same schema-step proof and sweep as C06 comparing the listed sequence with canonical FIFO-BFS / pre-order DFS / mark-on-pop stack DFS; DET rule (no unordered or random source in order-defining code).", "5/C07",
            "small-scope abstract evaluation against reference search schemas + determinism lint on the traversal modules"),
    "C19": ("proof", "Inductive step for I19 against the partial-bijection model from every consistent binding of 2 universes x 3 law sets, every assignment from either side incl. None, and universe construction; rule attributes read back and reject assignment.", "5/C19",
            "abstract interpretation (inductive invariant step + reference model)"),
})

T.update({
    "C08": ("proof", "Schema-step proof for the three searches (step = traversal step with emit replaced by the match test, from abstract states in which no marked vertex matches; falls back to the sweep when the shape differs) plus sibling cross-check: on every neighbour map of the scope (exhaustive small scope + fixed-seed family), each search's result equals the first matching vertex of the listing derived from its traversal; attribute values are equal-but-not-identical / unequal / absent, vertices plain or falsy-valued; settings passed to neighbors() must be the traversal's defaults.", "5/C08",
            "small-scope abstract evaluation, relational check between sibling functions of the same source"),
    "C16": ("proof", "basic_render evaluated on symbolic strings (vertex renderings are opaque atoms) over graphs with 0/1/2/3 forward neighbours, self-loops, parallel, undirected and incoming-only edges, with and without rfunc/sort; result must match the specified line template; loop uniformity extends the template to any neighbour count.", "5/C16",
            "abstract interpretation with a symbolic-string domain"),
    "C20": ("proof", "Bound obligations 0 <= k <= len(population) and k >= 1 under ensurelink at random.sample for every count >= 1 on both connectivity paths (bound prover over the AST with reaching definitions); result structure by abstract evaluation with random at its extremes for the counts in scope; determinism lint.", "5/C20",
            "bound analysis (monotone transfer rules over reaching definitions) + bounded abstract evaluation with stubbed randomness"),
})

T.update({
    "C10": ("other", "Necessary clauses only (round-trip isomorphism itself is not decidable statically and is NOT claimed): SPLICE-ORDER - the deferred save/memoize/write operations of _NonrecursivePickler reach the file in the recursive pickler's order on every object tree/DAG of the scope (dill.Pickler replaced by a stand-in); NONREC - constant abstract call depth on chains and save() never reaches realsave; REGISTRY - objects with empty class-level state work with caching on.", "5/C10 and 7",
            "abstract evaluation of the queue discipline against a stand-in recursive pickler + call-graph rule; behaviour of dill/pickle is trusted",
            "Assumes dill/pickle round-trip edgegraph objects for every protocol (third-party, run-time behaviour). What is decided is edgegraph's own contribution: operation order, bounded call depth, no __init__-only registries."),
    "C11": ("exploration", "Bounded-exhaustive transformer equivalence of load_adj_dict / load_adj_matrix with a reference builder on every adjacency input of the scope (self/repeated/empty entries, values never used as key, several truthy cell kinds, three link types, vertices with prior links and universes); every malformed matrix shape must raise ValueError with the heap unchanged.", "5/C11",
            "small-scope abstract evaluation against a reference builder"),
    "C12": ("proof", "Heap-identity escape/capture decision: every accessor and query named in the statement (caching off / cold / warm, incl. empty results) returns no mutable container reachable from the graph's state; every constructor/builder keeps none of the caller's containers (incl. nested and empty ones).", "5/C12",
            "escape / capture analysis by abstract evaluation with heap identity"),
    "C13": ("fault_enumeration", "Every read-only entry point x caching off/on x {no callbacks, well-behaved, each callback raising at its k-th invocation for every k that occurs, pyvis add_edge raising}: projected heap unchanged and the repeated call gives the fault-free answer.", "5/C13",
            "fault enumeration over callback invocation points by abstract evaluation + TEMP pointer rule"),
    "C14": ("proof", "render_to_plantuml_src evaluated on symbolic strings over scenario universes (directed/undirected/self-loop/parallel/mixed links, subclasses incl. multiple inheritance, link leaving the universe, custom option tables and title format): each member declared once with the nearest configured class's options, exactly one correctly oriented relation line per internal link; _resolve_options table.", "5/C14",
            "abstract interpretation with a symbolic-string domain, multiset comparison of recognised lines"),
    "C15": ("proof", "make_pyvis_net evaluated with pyvis.Network replaced by a recorder: for every class of link kind/position (internal both orientations, self-loops, leaving the universe, None end, outside vertex with or without a stale index attribute) and pairs of links the add_node / directed / add_edge events equal the specified ones.", "5/C15",
            "decision table at the call interface to the external library (recording stub)"),
    "C17": ("proof", "Inductive step over the per-class key->instance maps: pre-states reached through the public API x every operation (class call with 9 argument forms incl. hash-colliding -1/-2 and keyword permutations, add_mapping, drop, check, get_all, clear) for classes sharing a metaclass, a subclass, an own-metaclass class and a falsy-instance class, three key functions; post-state observed for every (class, key).", "5/C17",
            "abstract interpretation of the metaclass protocol (inductive step against a map model; hash abstracted to CPython's value model)"),
    "C18": ("proof", "Inductive step over the class->instance table: every subset of live singleton classes (incl. subclass, falsy-instance class) x construction with arguments / targeted clear (present or absent) / global clear; identity, class, __init__ log and the re-observed table compared with the model.", "5/C18",
            "abstract interpretation of the metaclass protocol (inductive step against a table model)"),
})

HIST = {"C01", "C02", "C03", "C04", "C05", "C06", "C07", "C08", "C09", "C10", "C13", "C14", "C15", "C16"}
HIST_TEXT = (" Composition (DESIGN.md 3.3): bounded histories through the public API on the whole stack (build; flag schedule incl. toggling around the mutation and a copy "
             "through the pickle protocol into fresh class-level state; observe; every public mutator; observe; thorough: two mutations) for four vertex families, each "
             "observation compared with a reference model replaying the same calls - this part is an exploration of a stated scope, not a proof.")
HIST_TECH = " + bounded abstract evaluation of whole-stack histories against a reference model"
SCALE = {"C01", "C02", "C03", "C04", "C05", "C06", "C07", "C08", "C09", "C13", "C14", "C15", "C16"}
SCALE_TEXT = (" Scale families (DESIGN.md 3.4): the same histories on graphs whose collections (links of a vertex, parallel links, members, universes of an object, ends of a link, "
              "depth of a chain) have the sizes the tree itself names in comparisons, slices, range()/islice() arguments and constants - at and just above each - plus a default size "
              "beyond the small scopes; also an exploration of a stated scope.")
GEN = {"C06", "C07", "C13"}
GEN_TEXT = (" Generator protocol (DESIGN.md 3.5): generator forms suspended / interleaved / abandoned / interrupted by a raising callback, the graph and later traversals compared "
            "with the reference in each situation.")
EXTRA_TEXT = {
    "C10": " SPLICE-ORDER: the stand-in pickler emits a byte stream (real tuples and frozensets saved by transcriptions of pickle's save_tuple / save_frozenset, also on reference cycles - defects D20, D21, repaired; payloads of 64 KiB written straight to the file); the oracle is what an unpickler makes of the stream (kinds, order, sharing).",
    "C03": " Histories also hold explicit.unlink beside a half-detached link: the call raises and leaves the graph as it was, or completes - nothing in between.",
    "C04": " The table is also asked right after a different query on the same vertex with Vertex.NEIGHBOR_CACHING on.",
    "C09": " RELATION-LIFETIME: throw-away filters (closures, and callable objects of a class defining __eq__ without __hash__) whose address is handed on to the next filter.",
    "C11": " BUILD-SCALE: a key listing n neighbours, n keys (every third row empty, its key named by nobody), an n x n matrix, at the sizes the tree names and a default size. Builds with caching on and a warm memo on every vertex; rows naming a non-vertex (only complete links of listed pairs exist afterwards, a later build reads back normally).",
    "C12": " Also with the memo warm and the flag then switched off; what a result shares with internal state is read before the next call is made.",
    "C13": " FILTER-LIFETIME: a dropped filter's address handed on to the next, well-behaved one (closures, unhashable callable objects).",
    "C15": " Variants: network_kwargs directed=True, user attributes named like class-level names of the link classes, pyvis' own assertions compiled away (python -O).",
    "C14": " Scenario: a title formatted from an attribute whose value is callable.",
    "C17": " Many classes: a live mapping survives n other semi-singleton classes being used, n from the size harvest (a bare lru_cache counts as 128).",
    "C18": " Scenario: a class of the same name (also a subclass named like its base) created after the first construction.",
    "C19": " I19-REFUSAL: objects of user subclasses whose own setters raise while locked - I19 is read through the getters after every such assignment, raised or not.",
    "C20": " randgraph is also evaluated at the counts the tree itself names (size constants harvested from its source). REPRODUCIBLE: seed, build, seed again, build again in one interpreter state with the random module modelled as one stream (randint, sample, choice, getrandbits draw from it).",
}

REASONS_PENDING = "check under construction in this build phase (see DESIGN.md section 5 for the planned static rule)"


def main():
    ids = [json.loads(l)["id"] for l in (V / "properties.jsonl").read_text().splitlines() if l.strip()]
    checks = []
    na = []
    for pid in ids:
        if pid in T and (V / "rules" / f"{pid.lower()}.py").exists():
            level, text, ref, tech = T[pid][:4]
            if pid in HIST:
                text, tech = text + HIST_TEXT, tech + HIST_TECH
            if pid in SCALE:
                text += SCALE_TEXT
            if pid in GEN:
                text += GEN_TEXT
            text += EXTRA_TEXT.get(pid, "")
            if pid in ("C01", "C02", "C03", "C11", "C19"):
                text += (" Interpreter modes (DESIGN.md 3.6): for a tree that calls warnings.warn() the mutator obligations are evaluated again with warnings turned into errors; a call "
                         "that such a warning ends half-way must leave what the statement requires after a raising call.")
            if pid in ("C01", "C03", "C11", "C12"):
                text += " For a tree with assert statements or __debug__ the obligations are evaluated once more as under python -O."
            note = T[pid][4] if len(T[pid]) > 4 else NOTE_AE
            checks.append({
                "property_id": pid,
                "quick_cmd": f"/venv/bin/python -m sa.check {pid} --tier quick",
                "thorough_cmd": f"/venv/bin/python -m sa.check {pid} --tier thorough",
                "evidence_file": f"/verif/evidence/{pid}.json",
                "engine": "sa",
                "level_claimed": {"category": level, "text": text, "design_ref": f"DESIGN.md section {ref}"},
                "level_note": note,
                "technique": "static analysis: " + tech,
            })
        else:
            na.append({"property_id": pid, "reason": NA.get(pid, REASONS_PENDING)})
    m = {
        "version": 1,
        "setup_cmd": "true",
        "hooks": {
            "guard": "EDGEGRAPH_VERIF",
            "enable": "none needed: the checks read /repo's sources statically; no instrumentation is compiled in",
            "baseline_off_cmd": "cd /repo && /venv/bin/python -m pytest -ra -q -p no:cacheprovider --timeout=900 --continue-on-collection-errors",
            "source_commits": [],
            "add_only": True,
        },
        "engines": [{"name": "sa", "path": "/verif/sa", "serves_properties": [c["property_id"] for c in checks],
                     "kind_free_text": "stdlib-only static analyser: program model, CFG/effect analyses, abstract evaluator over the AST"}],
        "checks": checks,
        "not_applicable": na,
        "notes": "All checks run `python -m sa.check <id>` with cwd=/verif under /venv/bin/python (stdlib only). Exit 0 held / 1 VIOLATION / 2 analysis error (no verdict).",
    }
    (V / "MANIFEST.json").write_text(json.dumps(m, indent=1))
    print(f"{len(checks)} checks, {len(na)} not applicable")


NA = {}

if __name__ == "__main__":
    main()
