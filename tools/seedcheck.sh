#!/bin/bash
# usage: tools/seedcheck.sh <seed dir with patch.diff+demo.py> <property ids...>
# 1. confirms the seed in a scratch worktree of /repo HEAD (suite passes, demo fails with / passes without the patch)
# 2. applies it to /repo, runs the listed checks (quick), reverts /repo
set -u
SEED=$1; shift
WT=/tmp/wt/verify
git -C /repo worktree remove --force $WT 2>/dev/null
git -C /repo worktree add -q --detach $WT HEAD || exit 3
cd $WT
echo "== demo without patch:"; /venv/bin/python $SEED/demo.py >/dev/null 2>&1; echo "   exit $?"
if ! git apply $SEED/patch.diff 2>/tmp/apply.err; then echo "PATCH DOES NOT APPLY"; cat /tmp/apply.err; git -C /repo worktree remove --force $WT; exit 4; fi
echo "== demo with patch:"; /venv/bin/python $SEED/demo.py >/dev/null 2>&1; echo "   exit $?"
echo "== suite with patch:"; /venv/bin/python -m pytest -q -p no:cacheprovider --timeout=900 2>&1 | tail -1
cd /verif
git -C /repo worktree remove --force $WT
git -C /repo apply $SEED/patch.diff || exit 5
for p in "$@"; do
  /venv/bin/python -m sa.check $p > /tmp/seed_$p.out 2>&1; code=$?
  echo "== check $p exit $code: $(grep -c '^VIOLATION' /tmp/seed_$p.out) violation(s)"; grep -A1 '^VIOLATION' /tmp/seed_$p.out | grep 'rule=' | head -3 | cut -c1-260; grep '^UNDECIDED' /tmp/seed_$p.out | head -3 | cut -c1-260
done
git -C /repo checkout -- .
git -C /repo status --short | head -3
