#!/usr/bin/env python3
"""Process the finished seeds of one round: tools/runround.py r9 [Cxx ...] [--jobs N] [--redo]

For every /tmp/seed/<round>Cxx/{A,B} holding patch.diff + demo.py + notes.md that has no /verif/seeded/Cxx-<round>{A,B}/meta.json yet
(or with --redo), run tools/seedwt.py (scratch worktree, never /repo) with the check of the property; results one line each."""
import concurrent.futures as cf
import json
import pathlib
import subprocess
import sys

V = pathlib.Path(__file__).resolve().parent.parent


def one(job):
    src, name, prop = job
    p = subprocess.run(f"/venv/bin/python tools/seedwt.py {src} {name} {prop} {prop}", shell=True, cwd=V, capture_output=True, text=True)
    return name, p.stdout + p.stderr


def main():
    args = [a for a in sys.argv[1:] if not a.startswith("--")]
    rnd, only = args[0], set(args[1:])
    jobs_n = int(sys.argv[sys.argv.index("--jobs") + 1]) if "--jobs" in sys.argv else 4
    if "--jobs" in sys.argv:
        only.discard(str(jobs_n))
    jobs = []
    for d in sorted(pathlib.Path("/tmp/seed").glob(f"{rnd}C??")):
        prop = d.name[len(rnd):]
        if only and prop not in only:
            continue
        for x in ("A", "B"):
            s = d / x
            if not all((s / f).exists() for f in ("patch.diff", "demo.py", "notes.md")):
                continue
            name = f"{prop}-{rnd}{x}"
            if (V / "seeded" / name / "meta.json").exists() and "--redo" not in sys.argv:
                continue
            jobs.append((s, name, prop))
    with cf.ThreadPoolExecutor(jobs_n) as ex:
        for name, out in ex.map(one, jobs):
            print(out.rstrip())
            m = V / "seeded" / name / "meta.json"
            if m.exists():
                j = json.loads(m.read_text())
                print(f"==> {name}: confirmed={j['confirmed']['ok']} caught_by={j['caught_by']} exits={ {c: r['exit'] for c, r in j['checks_run'].items()} }")
    return 0


if __name__ == "__main__":
    sys.exit(main())
