#!/usr/bin/env python3
"""Development-time cross-check of the frozen control outcomes against CPython (never part of a check)."""
import sys
sys.path.insert(0, "/verif")
sys.setrecursionlimit(300)
from sa.controls import PROGRAMS
bad = 0
for name, text, expected in PROGRAMS:
    g = {}
    try:
        exec(compile(text, name, "exec"), g)
        got = repr(g.get("RESULT"))
    except BaseException as e:
        got = "raise " + type(e).__name__
    if got != expected:
        bad += 1
        print("FROZEN VALUE WRONG", name, "CPython:", got, "frozen:", expected)
print("cpython agrees with", len(PROGRAMS) - bad, "of", len(PROGRAMS))
