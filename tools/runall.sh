#!/bin/bash
# Runs every registered check on the current /repo tree and regenerates /verif/evidence (quick tier by default).
cd /verif
TIER=${1:-quick}
for p in $(python3 -c "import json; print(' '.join(c['property_id'] for c in json.load(open('MANIFEST.json'))['checks']))"); do
  /venv/bin/python -m sa.check $p --tier $TIER > /tmp/runall_$p.out 2>&1; code=$?
  echo "$p exit=$code $(head -1 /tmp/runall_$p.out | cut -c1-150)"
done
