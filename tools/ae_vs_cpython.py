#!/usr/bin/env python3
"""Development-time differential validation of the abstract evaluator on the repository itself (NOT part of any check):
random straight-line histories over the public API are (a) executed by CPython against the real library and (b) evaluated by
AE from the sources; the recorded observations must be identical.  A difference is a bug in AE's semantics or built-in models.

  /venv/bin/python tools/ae_vs_cpython.py [n scenarios] [seed]"""
import random
import sys

sys.path.insert(0, "/verif")
sys.path.insert(0, "/repo")

PRELUDE = '''
from edgegraph.structure import Vertex, DirectedEdge, UnDirectedEdge, Universe, TwoEndedLink
from edgegraph.structure.universe import UniverseLaws
from edgegraph.traversal import helpers, breadthfirst, depthfirst
from edgegraph.builder import explicit, adjlist, adjmatrix
from edgegraph.output import plaintext
class Odd(TwoEndedLink):
    pass
OBS = []
def lab(x):
    if x is None:
        return None
    if isinstance(x, (list, tuple)):
        return [lab(i) for i in x]
    if isinstance(x, (set, frozenset)):
        return sorted(lab(i) for i in x)
    if isinstance(x, (int, str, bool)):
        return x
    return getattr(x, "label", "?")
def state():
    out = []
    for v in V:
        out.append((v.label, [lab(l) for l in v.links], [lab(u) for u in v.universes]))
    for e in E:
        out.append((e.label, [lab(x) for x in e.vertices]))
    for u in U:
        out.append((u.label, [lab(x) for x in u.vertices], lab(u.laws.applies_to) if u.laws is not None else "nolaws"))
    return out
V = [Vertex(attributes={"label": "v%d" % i, "rank": i % 2}) for i in range(4)]
E = []
U = [Universe(attributes={"label": "u0"}), Universe(attributes={"label": "u1"})]
'''


def gen(rnd, n_ops):
    L = []
    ne = 0

    def v():
        return f"V[{rnd.randrange(4)}]"

    def vn():
        return rnd.choice([v(), v(), v(), "None"])

    def e():
        return f"E[{rnd.randrange(ne)}]" if ne else None

    for _ in range(n_ops):
        k = rnd.randrange(22)
        stmt = None
        if k <= 2 or ne == 0:
            cls = rnd.choice(["DirectedEdge", "UnDirectedEdge", "Odd"])
            stmt = f"E.append({cls}({vn()}, {vn()}, attributes={{'label': 'e{ne}'}})); r = None"
            ne += 1
        elif k == 3:
            stmt = f"{e()}.v1 = {vn()}; r = None"
        elif k == 4:
            stmt = f"{e()}.v2 = {vn()}; r = None"
        elif k == 5:
            stmt = f"r = explicit.unlink({v()}, {v()}, destroy={rnd.choice(['True', 'False'])})"
        elif k == 6:
            stmt = f"r = {v()}.remove_from_link({e()})"
        elif k == 7:
            stmt = f"r = {e()}.unlink_from({vn()})"
        elif k == 8:
            stmt = f"r = {e()}.add_vertex({vn()})"
        elif k == 9:
            stmt = f"r = {v()}.add_to_link({e()})"
        elif k == 10:
            stmt = f"r = U[{rnd.randrange(2)}].add_vertex({v()})"
        elif k == 11:
            stmt = f"r = U[{rnd.randrange(2)}].remove_vertex({v()})"
        elif k == 12:
            stmt = f"r = {v()}.remove_from_universe(U[{rnd.randrange(2)}])"
        elif k == 13:
            stmt = f"Vertex.NEIGHBOR_CACHING = {rnd.choice(['True', 'False'])}; r = None"
        elif k == 14:
            d = rnd.choice(["helpers.DIR_SENS_FORWARD", "helpers.DIR_SENS_BACKWARD", "helpers.DIR_SENS_ANY"])
            u = rnd.choice(["helpers.LNK_UNKNOWN_NONNEIGHBOR", "helpers.LNK_UNKNOWN_NEIGHBOR", "helpers.LNK_UNKNOWN_ERROR"])
            f = rnd.choice(["None", "(lambda l, x: x is not None and x.rank == 0)"])
            stmt = f"r = helpers.neighbors({v()}, {d}, {u}, {f})"
        elif k == 15:
            stmt = f"r = helpers.find_links({v()}, {v()}, {rnd.choice(['True', 'False'])}, helpers.LNK_UNKNOWN_NEIGHBOR)"
        elif k == 16:
            t = rnd.choice(["breadthfirst.bft", "depthfirst.dft_recursive", "depthfirst.dft_iterative"])
            uni = rnd.choice(["None", "U[0]", "U[1]"])
            stmt = f"r = {t}({uni}, {v()}, unknown_handling=helpers.LNK_UNKNOWN_NEIGHBOR, ff_result={rnd.choice(['None', '(lambda x: x.rank == 1)'])})"
        elif k == 17:
            t = rnd.choice(["breadthfirst.bfs", "depthfirst.dfs_recursive", "depthfirst.dfs_iterative"])
            stmt = f"r = {t}({rnd.choice(['None', 'U[0]'])}, {v()}, 'rank', {rnd.randrange(2)})"
        elif k == 18:
            stmt = f"r = explicit.link_from_to({v()}, {rnd.choice(['DirectedEdge', 'UnDirectedEdge'])}, {v()}, dontdup=True); r.label = getattr(r, 'label', 'dd{ne}'); E.append(r) if r not in E else None"
            ne += 1
        elif k == 19:
            stmt = f"U[{rnd.randrange(2)}].laws = {rnd.choice(['U[0].laws', 'U[1].laws', 'None', 'UniverseLaws()'])}; r = None"
        elif k == 20:
            stmt = f"r = plaintext.basic_render(U[{rnd.randrange(2)}], rfunc=lab, sort={rnd.choice(['None', '(lambda x: x.rank)'])})"
        else:
            stmt = f"r = [lab(x) for x in {v()}.links]"
        L.append("try:\n    " + stmt + "\n    OBS.append(('ok', lab(r) if not isinstance(r, str) else r))\nexcept Exception as ex:\n    OBS.append(('raise', type(ex).__name__))\nOBS.append(state())")
    return PRELUDE + "\n".join(L) + "\nRESULT = OBS\n"


def run_cpython(text):
    from edgegraph.structure import Vertex
    Vertex.NEIGHBOR_CACHING = False
    Vertex._CACHE_STATS.clear()
    g = {}
    exec(compile(text, "<scenario>", "exec"), g)
    Vertex.NEIGHBOR_CACHING = False
    return g["RESULT"]


def norm(x):
    if isinstance(x, (list, tuple)):
        return [norm(i) for i in x]
    return x


def run_ae(text, world):
    from sa.controls import to_py
    world.reset_run(())
    world.set_order = "insertion"
    m = world.load_text("scenario", text)
    world.mods.pop("scenario", None)
    return to_py(m.globals["RESULT"])


def main():
    n = int(sys.argv[1]) if len(sys.argv) > 1 else 200
    seed = int(sys.argv[2]) if len(sys.argv) > 2 else 1
    from sa.ae import World, Unknown, Raised
    w = World()
    for mname in ("edgegraph.structure", "edgegraph.traversal.helpers", "edgegraph.traversal.breadthfirst", "edgegraph.traversal.depthfirst", "edgegraph.builder.explicit", "edgegraph.builder.adjlist",
                  "edgegraph.builder.adjmatrix", "edgegraph.output.plaintext"):
        w.load(mname)
    w.snapshot()
    rnd = random.Random(seed)
    bad = und = 0
    for i in range(n):
        text = gen(rnd, rnd.randrange(4, 14))
        try:
            a = norm(run_cpython(text))
        except Exception as e:  # noqa: BLE001
            print("scenario", i, "CPython harness error", type(e).__name__, e)
            continue
        try:
            b = norm(run_ae(text, w))
        except Unknown as u:
            und += 1
            print("scenario", i, "AE undecided:", u)
            continue
        except Raised as r:
            bad += 1
            print("scenario", i, "AE raised at top level:", r)
            continue
        if a != b:
            bad += 1
            k = next((j for j, (x, y) in enumerate(zip(a, b)) if x != y), None)
            print("scenario", i, "DIFFERS at observation", k)
            print("   cpython:", a[k] if k is not None else len(a))
            print("   ae     :", b[k] if k is not None else len(b))
            open(f"/tmp/ae_diff_{i}.py", "w").write(text)
    print(f"{n} scenarios: {bad} differ, {und} undecided")
    return 1 if bad else 0


if __name__ == "__main__":
    sys.exit(main())
