"""Verdicts, evidence files, replay reports and the known-findings list."""
from __future__ import annotations
import hashlib
import json
import os
import pathlib
import re
import time

VERIF = pathlib.Path(__file__).resolve().parent.parent
KNOWN = VERIF / "known_findings.txt"


class Finding:
    def __init__(self, rule, construct, cls, what, detail="", replay=""):
        self.rule, self.construct, self.cls, self.what, self.detail, self.replay = rule, construct, cls, what, detail, replay

    @property
    def key(self):
        return f"{self.rule}|{self.construct}|{self.cls}"


class Result:
    def __init__(self, pid, tier, seed, level="proof"):
        self.pid, self.tier, self.seed, self.level = pid, tier, seed, level
        self.t0 = time.time()
        self.obligations = 0
        self.discharged = 0
        self.evaluations = 0
        self.distinct: set = set()
        self.samples: list = []
        self.findings: list[Finding] = []
        self.undecided: list[str] = []
        self.notes: list[str] = []
        self.analysed: dict = {}
        self.rules: dict = {}
        self.controls: list = []
        self.assumptions: list[str] = []
        self.trusted_base: list[str] = []
        self.rule_text = ""
        self.explanation = ""
        self.exhaustive = True
        self.bounded_only = False
        self.extra: dict = {}
        self.mode = None        # "warnings-as-errors" during the second pass of sa.check

    # ---- bookkeeping
    def ob(self, ok: bool, sig=None, sample=None):
        """One obligation (abstract input x entry point) explored; ok = discharged."""
        self.obligations += 1
        self.evaluations += 1
        if ok:
            self.discharged += 1
        if sig is not None:
            self.distinct.add(sig)
        if sample is not None and len(self.samples) < 12:
            self.samples.append(sample)

    def rule(self, name, instances, detail=None):
        r = self.rules.setdefault(name, {"instances": 0, "sites": []})
        r["instances"] += instances
        if detail:
            r["sites"].extend(detail if isinstance(detail, list) else [detail])

    def violation(self, rule, construct, cls, what, detail="", replay=""):
        # one finding per key
        if self.mode:
            cls = f"{cls},{self.mode}"
            what = (f"[interpreter running with -W error: warnings.warn() raises] {what}" if self.mode == "warnings-as-errors"
                    else f"[interpreter running with -O: assert statements do nothing, __debug__ is False] {what}")
        f = Finding(rule, construct, cls, what, detail, replay)
        for g in self.findings:
            if g.key == f.key:
                g.detail += "\n" + detail if detail and len(g.detail) < 6000 else ""
                return g
        self.findings.append(f)
        return f

    def undecide(self, why):
        if why not in self.undecided:
            self.undecided.append(why)

    def note(self, s):
        if s not in self.notes:
            self.notes.append(s)

    def control(self, name, ok, detail=""):
        self.controls.append({"name": name, "ok": bool(ok), "detail": detail})
        if not ok:
            self.undecide(f"control {name} did not behave: {detail}")

    # ---- finishing
    def finish(self) -> int:
        known, fixed = load_known()
        unlisted = []
        lines = []
        for f in self.findings:
            if (self.pid, f.key) in known:
                lines.append(f"KNOWN-FINDING: property={self.pid} key={f.key} {f.what}")
            else:
                unlisted.append(f)
        pointers = [n for n in self.notes if "pointer" in n]
        for f in unlisted:
            if pointers:
                f.detail += "\n\nStructural pointers (file:line, rule, path) reported by this run:\n" + "\n".join(pointers[:12])
            path = write_replay(self.pid, f)
            lines.append(f"VIOLATION property={self.pid} replay={path}")
            lines.append(f"  rule={f.rule} construct={f.construct} input-class={f.cls}: {f.what}")
        for u in self.undecided:
            lines.append(f"UNDECIDED property={self.pid}: {u}")
        code = 1 if unlisted else (2 if self.undecided else 0)
        self.write_evidence(code, len(unlisted))
        print(f"[{self.pid}] tier={self.tier} obligations={self.obligations} discharged={self.discharged} "
              f"distinct={len(self.distinct)} findings={len(self.findings)} (unlisted {len(unlisted)}) undecided={len(self.undecided)} "
              f"wall={time.time() - self.t0:.2f}s")
        for name, r in self.rules.items():
            print(f"  rule {name}: {r['instances']} instance(s)")
        for n in self.notes[:40]:
            print(f"  note: {n}")
        for l in lines:
            print(l)
        if code == 2:
            print(f"ANALYSIS-ERROR property={self.pid}: no verdict (see UNDECIDED lines)")
        return code

    def write_evidence(self, code, nviol):
        cov = {
            "evaluations": max(self.evaluations, 0),
            "distinct_nontrivial": len(self.distinct),
            "rule": self.rule_text,
            "samples": self.samples or ["(none)"],
            "obligations": self.obligations,
            "discharged": self.discharged,
            "checker_cmd": f"/venv/bin/python -m sa.check {self.pid} --tier {self.tier}",
            "trusted_base": self.trusted_base,
            "explanation": self.explanation,
            "exhaustive": bool(self.exhaustive),
            "rules": self.rules,
            "controls": self.controls,
            "analysed": self.analysed,
            "notes": self.notes[:60],
            "undecided": self.undecided[:40],
            "findings": [{"key": f.key, "what": f.what} for f in self.findings],
            "verdict_kind": "undecided" if code == 2 else ("violation" if code == 1 else ("bounded" if self.bounded_only else "proved")),
        }
        cov.update(self.extra)
        ev = {
            "property_id": self.pid,
            "tier": self.tier,
            "seed": self.seed,
            "level": self.level,
            "coverage": cov,
            "assumptions": self.assumptions,
            "wall_s": round(time.time() - self.t0, 3),
            "violations": nviol,
        }
        d = pathlib.Path(os.environ.get("VERIF_EVIDENCE_DIR") or (VERIF / "evidence"))   # seed/self-test runs divert their evidence
        d.mkdir(parents=True, exist_ok=True)
        tmp = d / f".{self.pid}.json.tmp"
        tmp.write_text(json.dumps(ev, indent=1, default=str))
        os.replace(tmp, d / f"{self.pid}.json")


def load_known():
    known, fixed = set(), []
    if KNOWN.exists():
        for line in KNOWN.read_text().splitlines():
            line = line.strip()
            if not line or line.startswith("#"):
                continue
            m = re.match(r"finding:\s+property=(\S+)\s+key=(\S+)\s*(.*)", line)
            if m:
                known.add((m.group(1), m.group(2)))
                continue
            m = re.match(r"fixed:\s+property=(\S+)\s+(\S+)\s*(.*)", line)
            if m:
                fixed.append((m.group(1), m.group(2), m.group(3)))
    return known, fixed


def write_replay(pid, f: Finding) -> str:
    d = pathlib.Path(os.environ.get("VERIF_REPLAY_DIR") or (VERIF / "replays"))
    d.mkdir(parents=True, exist_ok=True)
    h = hashlib.sha256(f.key.encode()).hexdigest()[:10]
    p = d / f"{pid}-{h}.md"
    body = [f"# {pid} violation", "", f"* rule: `{f.rule}`", f"* construct: `{f.construct}`", f"* abstract-input class: `{f.cls}`",
            f"* what fails: {f.what}", "", "## Detail", "", "```", f.detail.strip(), "```", ""]
    if f.replay:
        body += ["## Concrete replay (run by hand against the real library; the check itself never runs it)", "", "```python", f.replay.strip(), "```", ""]
    p.write_text("\n".join(body))
    return str(p)
