"""Shared harness support: world set-up, abstract pre-state builders, outcome capture."""
from __future__ import annotations

from .ae import (World, Interp, Obj, Seq, Seg, DictV, SetV, Opaque, Callback, Raised, Unknown, ClassV, Tok, Builtin, GenV,
                 IterV, ExtV, SymStr, SAtom, mkstr)
from .src import Source, SourceError

SYM_SRC = '''
from edgegraph.structure import Vertex, Link, TwoEndedLink, DirectedEdge, UnDirectedEdge, Universe
class SymDir(DirectedEdge): pass
class SymUnd(UnDirectedEdge): pass
class SymTwo(TwoEndedLink): pass
class SymLink(Link): pass
class RoadLink(DirectedEdge):
    """a user edge class whose constructor names its two ends differently (positional compatibility only)"""
    def __init__(self, origin=None, dest=None, **kw):
        super().__init__(origin, dest, **kw)
class FixedEndsEdge(DirectedEdge):
    """a user edge class whose ends are fixed at construction: assigning v1 / v2 afterwards is refused"""
    @property
    def v1(self):
        return DirectedEdge.v1.fget(self)
    @v1.setter
    def v1(self, new):
        raise AttributeError("the ends of a FixedEndsEdge cannot be re-assigned")
    @property
    def v2(self):
        return DirectedEdge.v2.fget(self)
    @v2.setter
    def v2(self, new):
        raise AttributeError("the ends of a FixedEndsEdge cannot be re-assigned")
class SymBothDU(DirectedEdge, UnDirectedEdge):
    """a link class deriving from both edge classes (directed first in the MRO)"""
class SymBothUD(UnDirectedEdge, DirectedEdge):
    """... undirected first"""
class SymVert(Vertex): pass
class SymUni(Universe): pass
class GrumpyVert(Vertex):
    """a user vertex class whose repr() / str() / format() raise (e.g. they read an attribute that is assigned later); == and hash are the default"""
    def __repr__(self):
        raise RuntimeError("repr() of an object that is not ready to be shown")
    __str__ = __repr__
    def __format__(self, spec):
        raise RuntimeError("format() of an object that is not ready to be shown")
class GrumpyTwo(TwoEndedLink):
    """a link of a user two-ended type (neither directed nor undirected) whose repr() / str() / format() raise"""
    def __repr__(self):
        raise RuntimeError("repr() of an object that is not ready to be shown")
    __str__ = __repr__
    def __format__(self, spec):
        raise RuntimeError("format() of an object that is not ready to be shown")
class LabelUni(Universe):
    """a user universe class with a `__contains__` of its own that answers by label (two different member candidates may carry one label):
    what `x in universe` says is the user's business, what `universe.vertices` lists is the library's"""
    def __contains__(self, x):
        return any(getattr(m, "label", None) == getattr(x, "label", "?") for m in self.vertices)
class ClusterVert(Vertex):
    """a user vertex class that can be iterated (a cluster yielding its member vertices) - still one vertex"""
    members = ()
    def __iter__(self):
        return iter(self.members)
    def __len__(self):
        return len(self.members)
class RevLinksVert(Vertex):
    """a user vertex class that overrides the public `links` accessor: it presents its links in the opposite order"""
    @property
    def links(self):
        return tuple(reversed(super().links))
class ViewUni(Universe):
    """a user universe class that overrides the public `vertices` accessor: a filtered view (the members listed in `hidden` are
    not part of what this universe presents)"""
    hidden = ()
    @property
    def vertices(self):
        return [v for v in super().vertices if not any(v is x for x in self.hidden)]
class NestVert(Vertex):
    """the searched attribute `tag` is a property whose getter itself runs a search over the graph before answering (a user callback
    that calls back into the library); the value lives in `_tagv`, a vertex without it has no `tag`"""
    probe = None
    @property
    def tag(self):
        fn = type(self).probe
        if fn is not None:
            fn(None, self, "no-vertex-has-this-attribute", 0)
        if "_tagv" not in vars(self):
            raise AttributeError("tag")
        return vars(self)["_tagv"]
class KickUni(Universe):
    """a user universe class overriding add_vertex: admitting a vertex makes it leave the rival universe (a callback into the library
    while the library is still working on that vertex)"""
    rival = None
    def add_vertex(self, vert):
        super().add_vertex(vert)
        if self.rival is not None and self.rival in vert.universes:
            vert.remove_from_universe(self.rival)
class SymFalsyVert(Vertex):
    def __bool__(self):
        return False
class FalsyUni(Universe):
    """a user universe class whose truth value is False although it has members (e.g. a `__len__` counting something else): whether a
    universe was given is `is not None`, never its truth value"""
    def __len__(self):
        return 0
class EqVert(Vertex):
    """a user vertex class with value equality: two distinct vertices may compare (and hash) equal"""
    def __init__(self, key=None, **kw):
        super().__init__(**kw)
        self.key = key
    def __eq__(self, other):
        return isinstance(other, EqVert) and self.key == other.key
    def __hash__(self):
        return hash(self.key)
def make_reject(target):
    """closures created from one lambda: same code object, different captured value"""
    return lambda e, v: v is not target
def make_default_param_filter(answer):
    """a one-argument filter (the form find_links takes) written with a defaulted second parameter - the closure-by-default idiom"""
    return lambda e, _answer=answer: _answer
class RejectUnhashable:
    """a filter object rejecting one vertex, of a class that defines __eq__ without __hash__ (instances cannot be dictionary keys)"""
    def __init__(self, target):
        self.target = target
    def __call__(self, e, v):
        return v is not self.target
    def __eq__(self, other):
        return isinstance(other, RejectUnhashable) and other.target is self.target
class UnhashableCallable:
    """a callable user object that defines __eq__ without __hash__ (so it cannot be a dictionary key)"""
    def __init__(self, answer):
        self.answer = answer
        self.calls = []
    def __call__(self, *args):
        self.calls.append(args)
        return self.answer
    def __eq__(self, other):
        return isinstance(other, UnhashableCallable) and other.answer == self.answer
class ClassTagVert(Vertex):
    """the searched attribute lives on the class (a class-level default), not in the instance dictionary"""
    tag = None
class StrVert(Vertex):
    """a vertex class that defines __str__ but not __repr__"""
    def __str__(self):
        return "custom-str"
class FalsyCallable:
    """A callable user object whose truth value is False (e.g. an empty allow-list with __len__)."""
    def __init__(self, answer):
        self.answer = answer
        self.calls = []
    def __call__(self, *args):
        self.calls.append(args)
        return self.answer
    def __len__(self):
        return 0
'''

STRUCT = "edgegraph.structure"


class Outcome:
    """Result of one abstract evaluation."""

    def __init__(self, kind, value=None, exc=None):
        self.kind, self.value, self.exc = kind, value, exc  # kind: 'return' | 'raise'

    @property
    def excname(self):
        return self.exc.cls.name if self.exc is not None else None

    def __repr__(self):
        return f"return {self.value!r}" if self.kind == "return" else f"raise {self.excname}"


class H:
    """A world with the repository loaded plus the symbolic leaf classes."""

    def __init__(self, source: Source | None = None, extra_modules=(), ext_overrides=None):
        self.w = World(source)
        if ext_overrides:
            self.w.ext_overrides.update(ext_overrides)
        self.I = self.w.interp
        self.w.load(STRUCT)
        for m in extra_modules:
            self.w.load(m)
        self.sym = self.w.load_text("verif_sym", SYM_SRC).globals
        self.S = self.w.mods[STRUCT].globals
        for n in ("Vertex", "Link", "TwoEndedLink", "DirectedEdge", "UnDirectedEdge", "Universe", "BaseObject"):
            if not isinstance(self.S.get(n), ClassV):
                raise SourceError(f"anchor edgegraph.structure.{n} is not a class")
        self.w.snapshot()
        self._n = 0
        self.actual = discover_fields(self)     # role -> actual field name in the tree under analysis
        self.w.restore()

    def cls(self, name):
        if name in self.sym and isinstance(self.sym[name], ClassV):
            return self.sym[name]
        return self.S[name]

    def reset(self):
        """Fresh class-level state for a new pre-state (recorded fork choices are kept)."""
        if self.w.exploring:
            self.w.reset_state()
        else:
            self.w.reset_run(())
        self._n = 0

    # ---- individuals (constructed by the code's own __init__, then given abstract lists)
    def new(self, clsname, name, *args, **kw):
        c = self.cls(clsname) if isinstance(clsname, str) else clsname
        o = self.I.call(c, list(args), kw)
        o.name = name
        return o

    def field(self, o, fname, value=None, *, must_exist=True):
        if must_exist and fname not in o.fields:
            raise SourceError(f"anchor field {o.cls.name}.{fname} is not established by the constructor")
        if value is not None:
            o.fields[fname] = value
        return o.fields.get(fname)

    def _setup_new(self, clsname, name):
        """default construction of an individual of a pre-state (its lists are set by the harness afterwards): scaffolding, not a call
        under test - the `python -W error` mode does not apply to it (a tree that warns about a default-constructed open end would
        otherwise end the analysis before any obligation is evaluated)"""
        from . import ae as _ae
        saved, _ae.WARNINGS_AS_ERRORS = _ae.WARNINGS_AS_ERRORS, False
        try:
            return self.new(clsname, name)
        finally:
            _ae.WARNINGS_AS_ERRORS = saved

    def vertex(self, name, clsname="Vertex", links=None, universes=None):
        v = self._setup_new(clsname, name)
        self.field(v, "_links", Seq(list(links) if links is not None else [], "list"))
        self.field(v, "_universes", Seq(list(universes) if universes is not None else [], "list"))
        self.field(v, "_Vertex__qa_nb_cache")
        return v

    def link(self, name, clsname, ends):
        c = self.cls(clsname)
        l = self._setup_new(clsname, name)
        self.field(l, "_vertices", Seq(list(ends), "list"))
        return l

    def universe(self, name, members=(), clsname="Universe"):
        u = self._setup_new(clsname, name)
        self.field(u, "_vertices", Seq(list(members), "list"))
        self.field(u, "_links")
        return u

    # ---- checkpoints: a constructed pool of individuals + the class-level state after constructing it
    def checkpoint(self, key, objs):
        from .ae import _deepcopy_state
        if not hasattr(self, "_cp"):
            self._cp = {}
        self._cp[key] = (self.w.take_snapshot(), [(o, {k: _deepcopy_state(v) for k, v in o.fields.items()}) for o in objs.values()], dict(objs))

    def rollback(self, key):
        """-> the pool of individuals in their freshly-constructed state, or None if not checkpointed."""
        from .ae import _deepcopy_state
        cp = getattr(self, "_cp", {}).get(key)
        if cp is None:
            return None
        snap, objs, pool = cp
        self.w.reclaim_gens()       # back to a pool of freshly constructed individuals: a new run, as in reset()
        self.w.restore(snap)
        w = self.w
        w.steps = 0
        w.depth = 0
        w.events = []
        w.alloc = []
        if not w.exploring:
            w.choices, w.choice_pos, w.choice_log = [], 0, []
        for o, f in objs:
            o.fields.clear()
            for k, v in f.items():
                o.fields[k] = _deepcopy_state(v)
        return pool

    def settle(self):
        """Pre-state is built: allocation naming restarts, events are cleared."""
        self.w.alloc = []
        self.w.events = []
        self.w.steps = 0

    # ---- evaluation
    def call(self, f, *args, **kw) -> Outcome:
        try:
            v = self.I.call(f, list(args), kw)
            if isinstance(v, GenV):
                v = Seq(self.I.iterate(v), "list")
            return Outcome("return", v)
        except Raised as r:
            return Outcome("raise", exc=r.exc)

    def setattr(self, o, name, v) -> Outcome:
        try:
            self.I.setattr(o, name, v)
            return Outcome("return", None)
        except Raised as r:
            return Outcome("raise", exc=r.exc)

    def getattr(self, o, name) -> Outcome:
        try:
            return Outcome("return", self.I.getattr(o, name))
        except Raised as r:
            return Outcome("raise", exc=r.exc)

    def fn(self, dotted):
        return self.w.get(dotted)

    # ---- object lifetime: an object no root reaches is collected, and a later object may get its id()
    def reaches(self, roots, target):
        """Is `target` reachable from the loaded modules (globals, classes, their attributes) or from `roots`?  References are
        followed through every abstract value; id() and hash() results do not keep an object alive."""
        import ast as _ast
        from . import ae as _ae
        stack = list(roots) + [m.globals for m in self.w.mods.values() if isinstance(m, _ae.ModuleV)]
        seen, hold = set(), []
        while stack:
            x = stack.pop()
            if x is target:
                return True
            if x is None or isinstance(x, (str, int, float, bool, bytes, _ast.AST, _ae.Digest, _ae.Tok, _ae.Opaque, _ae.World, _ae.Interp)) or type(x).__name__ == "SymId":
                continue
            if id(x) in seen:
                continue
            seen.add(id(x))
            hold.append(x)
            if isinstance(x, dict):
                stack.extend(x.keys())
                stack.extend(x.values())
            elif isinstance(x, (list, tuple, set, frozenset)):
                stack.extend(x)
            elif type(x).__module__.startswith("sa."):
                d = getattr(x, "__dict__", None)
                if d:
                    stack.extend(v for k, v in d.items() if k != "_verif_idslot")
                for sl in getattr(type(x), "__slots__", ()):
                    stack.append(getattr(x, sl, None))
        return False

    def _reach_all(self, roots):
        """every abstract object (individuals, containers, functions) reachable from the loaded modules or `roots`, by id"""
        import ast as _ast
        from . import ae as _ae
        stack = list(roots) + [m.globals for m in self.w.mods.values() if isinstance(m, _ae.ModuleV)]
        seen, out = set(), {}
        weaks = []
        while stack:
            x = stack.pop()
            if x is None or isinstance(x, (str, int, float, bool, bytes, _ast.AST, _ae.Digest, _ae.Tok, _ae.Opaque, _ae.World, _ae.Interp)) or type(x).__name__ == "SymId":
                continue
            if id(x) in seen:
                continue
            seen.add(id(x))
            if isinstance(x, (_ae.Obj, _ae.Seq, _ae.DictV, _ae.SetV, _ae.Func)) and not isinstance(x, _ae.LiveDictV):
                out[id(x)] = x
            weak = getattr(x, "weak", None)
            if weak is not None and isinstance(x, (_ae.DictV, _ae.SetV)):
                # a weak container does not keep its weak side alive
                if isinstance(x, _ae.DictV):
                    stack.extend((p_[1] if weak == "keys" else p_[0]) for p_ in x.pairs)
                weaks.append(x)
                continue
            if isinstance(x, dict):
                stack.extend(x.keys())
                stack.extend(x.values())
            elif isinstance(x, (list, tuple, set, frozenset)):
                stack.extend(x)
            elif type(x).__module__.startswith("sa."):
                d = getattr(x, "__dict__", None)
                if d:
                    stack.extend(v for k, v in d.items() if k not in ("_verif_idslot", "_verif_livedict"))
                for sl in getattr(type(x), "__slots__", ()):
                    stack.append(getattr(x, sl, None))
        self._gc_weak = weaks
        return out

    def gc_step(self, roots):
        """An adversarial but legal allocator, to be called between two public calls: objects that were reachable before the last
        call and are not any more have been collected; an object allocated by a *later* call may live at the address of one that
        was already dead when that call started (same kind of object).  Code that stores id(x) and lets x die is then compared
        against the id of a newcomer - which is what CPython does sooner or later."""
        from . import ae as _ae
        live = self._reach_all(roots)
        # weak containers lose the entries whose referent nothing else reaches
        swept = False
        for wc in getattr(self, "_gc_weak", []):
            if isinstance(wc, _ae.DictV):
                keep = [p_ for p_ in wc.pairs if not isinstance(p_[0 if wc.weak == "keys" else 1], (_ae.Obj, _ae.Seq, _ae.DictV, _ae.SetV, _ae.Func)) or id(p_[0 if wc.weak == "keys" else 1]) in live]
                if len(keep) != len(wc.pairs):
                    wc.pairs, swept = keep, True
            else:
                keep = [x for x in wc.items if not isinstance(x, (_ae.Obj, _ae.Seq, _ae.DictV, _ae.SetV, _ae.Func)) or id(x) in live]
                if len(keep) != len(wc.items):
                    wc.items, swept = keep, True
        if swept:
            live = self._reach_all(roots)
        prev = getattr(self, "_gc_live", None)
        pool = getattr(self, "_gc_pool", None)
        if pool is None:
            pool = self._gc_pool = []
        if prev is not None:
            pool.extend(getattr(self, "_gc_pending", None) or [])      # died during the call before the last one: dead when the last call started
            fresh = [o for i, o in live.items() if i not in prev and getattr(o, "_verif_idslot", None) is None]
            for o in fresh:
                for k_, d in enumerate(pool):
                    if type(d) is type(o) and (not isinstance(o, _ae.Seq) or o.kind == d.kind):
                        o._verif_idslot = d
                        pool.pop(k_)
                        break
            self._gc_pending = [o for i, o in prev.items() if i not in live]      # died during the last call: free for the next one
        self._gc_live = live

    def gc_reset(self):
        self._gc_live, self._gc_pool, self._gc_pending = None, [], []

    def reuse_id(self, new, old, roots):
        """`new` is allocated after `old` was dropped: if nothing reaches `old` any more, `new` may live at its address.
        -> True when the id was handed on."""
        if self.reaches(roots, old):
            return False
        new._verif_idslot = old
        return True

    def const(self, dotted):
        v = self.w.get(dotted)
        return v


CANON = {"links": "_links", "ends": "_vertices", "members": "_vertices", "universes": "_universes", "memo": "_Vertex__qa_nb_cache", "laws": "_laws", "applies_to": "_applies_to"}


def discover_fields(h):
    """Find the private state fields by ROLE (which list of a vertex receives a new edge, which list of an edge holds its ends,
    ...) so that a tree that merely renames them is analysed like the original.  Roles that cannot be identified keep their
    canonical name (an anchor check later ends the run with exit 2 if that field does not exist)."""
    from . import ae
    ae.FIELD_ALIASES.clear()
    I, S = h.I, h.S
    actual = dict(CANON)
    h.aux = {}
    try:
        a, b = I.call(S["Vertex"], [], {}), I.call(S["Vertex"], [], {})
        e = I.call(S["DirectedEdge"], [a, b], {})
        u = I.call(S["Universe"], [], {"vertices": Seq([a], "list")})

        def seq_with(o, x):
            return [k for k, v in o.fields.items() if isinstance(v, Seq) and any(i is x for i in v.items)]
        for role, cands in (("links", seq_with(a, e)), ("ends", seq_with(e, a)), ("members", seq_with(u, a)), ("universes", seq_with(a, u))):
            if len(cands) == 1:
                actual[role] = cands[0]
        laws = [(k, v) for k, v in u.fields.items() if isinstance(v, Obj) and v.cls.name.endswith("Laws")]
        if len(laws) == 1:
            actual["laws"] = laws[0][0]
            back = [k for k, v in laws[0][1].fields.items() if v is u]
            if len(back) == 1:
                actual["applies_to"] = back[0]
        # auxiliary state: further mutable containers an object keeps next to the role fields (a private index, a second cache ...).
        # Pre-states that assign the role fields directly would leave it inconsistent, so the engines then build their pre-states
        # through the public API only (rules/struct.py) and say `bounded`.
        roles = set(actual.values())
        h.aux = {}
        for cname, o in (("Vertex", a), ("Link", e), ("Universe", u)):
            extra = sorted(k for k, v in o.fields.items() if isinstance(v, (Seq, DictV, SetV)) and k not in roles and k.startswith("_"))
            if extra:
                h.aux[cname] = extra
        try:
            helpers = h.w.load("edgegraph.traversal.helpers")
            S["Vertex"].dict["NEIGHBOR_CACHING"] = True
            before = {k for k, v in a.fields.items() if isinstance(v, DictV) and v.pairs}
            I.call(helpers.globals["neighbors"], [a], {})
            memo = [k for k, v in a.fields.items() if isinstance(v, DictV) and v.pairs and k not in before]
            if len(memo) == 1:
                actual["memo"] = memo[0]
            for cname in list(h.aux):
                h.aux[cname] = [k for k in h.aux[cname] if k != actual["memo"]]
                if not h.aux[cname]:
                    del h.aux[cname]
        except (Raised, Unknown, KeyError, SourceError):
            pass
    except (Raised, Unknown, KeyError):
        return actual
    if actual != CANON:
        vert_alias = {CANON[r]: actual[r] for r in ("links", "universes", "memo") if actual[r] != CANON[r]}
        uni_alias = dict(vert_alias)
        for r in ("members", "laws"):
            if actual[r] != CANON[r]:
                uni_alias[CANON[r]] = actual[r]
        link_alias = {CANON[r]: actual[r] for r in ("ends", "universes") if actual[r] != CANON[r]}
        laws_alias = {CANON[r]: actual[r] for r in ("applies_to", "universes") if actual[r] != CANON[r]}
        lawcls = next((v.cls for k, v in u.fields.items() if isinstance(v, Obj) and v.cls.name.endswith("Laws")), None)
        ae.FIELD_ALIASES.extend([(S["Universe"], uni_alias), (S["Link"], link_alias)] + ([(lawcls, laws_alias)] if lawcls is not None else []) + [(S["Vertex"], vert_alias), (S["BaseObject"], {"_universes": actual["universes"]} if actual["universes"] != "_universes" else {})])
    return actual


def show(v):
    """Printable form of an abstract value (names of individuals, segments)."""
    if isinstance(v, Seq):
        inner = ", ".join(show(x) for x in v.items)
        return {"list": "[%s]", "tuple": "(%s)", "deque": "deque[%s]"}[v.kind] % inner
    if isinstance(v, SetV):
        return "{" + ", ".join(sorted(show(x) for x in v.items)) + "}"
    if isinstance(v, DictV):
        return "{" + ", ".join(f"{show(k)}: {show(x)}" for k, x in v.pairs) + "}"
    if isinstance(v, Obj):
        return v.name or f"<{v.cls.name}>"
    if isinstance(v, Seg):
        return f"<{v.name}>"
    return repr(v)


def names(seq):
    """List of atom names of an abstract sequence (identity comparison by name)."""
    out = []
    for x in seq.items if isinstance(seq, (Seq, SetV)) else seq:
        out.append(x.name if isinstance(x, (Obj, Seg)) else (None if x is None else repr(x)))
    return out
