"""Both-ways self-test of the checkers against the *current* tree, entirely in memory (overlay; /repo is never written).

* must-fire : every seeded property-breaking change under /verif/seeded/<Cxx-*>/patch.diff is applied to the current sources in an
              overlay; the check(s) recorded as catching it must report a violation;
* must-stay-silent : every behaviour-preserving refactoring under /verif/seeded/keep-*/patch.diff must leave every check of the
              touched area at exit 0.

A patch whose hunks no longer match the current tree is skipped (the tree has moved on), never counted as a failure.
  /venv/bin/python -m sa.selftest [--jobs N] [--only Cxx]"""
from __future__ import annotations
import json
import os
import pathlib
import re
import sys

V = pathlib.Path(__file__).resolve().parent.parent


def parse_patch(text):
    """-> {relpath: [hunks]}, hunk = (old_lines, new_lines) as lists of strings without newline."""
    files, cur, hunk = {}, None, None
    for line in text.splitlines():
        if line.startswith("diff --git"):
            cur = None
        elif line.startswith("+++ "):
            p = line[4:].strip()
            cur = p[2:] if p.startswith("b/") else p
            files[cur] = []
        elif line.startswith("--- "):
            continue
        elif line.startswith("@@") and cur is not None:
            m = re.match(r"@@ -(\d+)", line)
            hunk = ([], [], int(m.group(1)) if m else 0)
            files[cur].append(hunk)
        elif hunk is not None and cur is not None:
            if line.startswith("+"):
                hunk[1].append(line[1:])
            elif line.startswith("-"):
                hunk[0].append(line[1:])
            elif line.startswith(" ") or line == "":
                hunk[0].append(line[1:] if line else "")
                hunk[1].append(line[1:] if line else "")
            elif line.startswith("\\"):
                continue
    return files


def apply_patch(src, text):
    """-> overlay dict or None if some hunk does not match the current sources exactly once."""
    overlay = {}
    for rel, hunks in parse_patch(text).items():
        if rel == "/dev/null":
            return None
        try:
            cur = src.text(rel)
        except Exception:  # noqa: BLE001
            return None
        lines = cur.split("\n")
        shift = 0
        for old, new, start in hunks:
            n = len(old)
            hits = [i for i in range(len(lines) - n + 1) if lines[i:i + n] == old]
            if not hits:
                return None
            # several identical contexts (duplicated branches): the one nearest to the position the hunk header names
            i = min(hits, key=lambda h: abs(h - (start - 1 + shift)))
            lines[i:i + n] = new
            shift += len(new) - n
        overlay[rel] = "\n".join(lines)
    return overlay


def _run(job):
    name, pid, overlay, expect = job
    sys.path.insert(0, str(V))
    os.environ["VERIF_EVIDENCE_DIR"] = "/tmp/verif_selftest_evidence"
    os.environ["VERIF_REPLAY_DIR"] = "/tmp/verif_selftest_replays"
    from sa.check import run_property
    from sa.src import Source
    from sa.report import load_known
    try:
        res = run_property(pid, "quick", 0, source=Source(overlay=overlay), with_controls=False)
        known, _ = load_known()
        unlisted = [f for f in res.findings if (pid, f.key) not in known]
        outcome = "violation" if unlisted else ("undecided" if res.undecided else "silent")
        detail = (unlisted[0].key if unlisted else (res.undecided[0][:120] if res.undecided else ""))
    except Exception as e:  # noqa: BLE001
        outcome, detail = "error", f"{type(e).__name__}: {e}"[:160]
    return name, pid, expect, outcome, detail


def collect(src, only=None):
    jobs, skipped = [], []
    manifest = json.load(open(V / "MANIFEST.json"))
    all_pids = [c["property_id"] for c in manifest["checks"]]
    for d in sorted((V / "seeded").iterdir()):
        pf, mf = d / "patch.diff", d / "meta.json"
        if not pf.exists() or not mf.exists():
            continue
        meta = json.load(open(mf))
        overlay = apply_patch(src, pf.read_text())
        if overlay is None:
            skipped.append(d.name)
            continue
        if d.name.startswith("keep-"):
            area = area_checks(overlay, all_pids)
            for pid in area:
                if only is None or pid == only:
                    jobs.append((d.name, pid, overlay, "silent"))
        else:
            for pid in meta.get("caught_by", []):
                if only is None or pid == only:
                    jobs.append((d.name, pid, overlay, "violation"))
    return jobs, skipped


AREA = {
    "edgegraph/structure/vertex.py": ["C01", "C02", "C03", "C05", "C12", "C13"], "edgegraph/structure/link.py": ["C01", "C03", "C05", "C12"],
    "edgegraph/structure/twoendedlink.py": ["C01", "C03", "C04", "C05", "C09"], "edgegraph/structure/base.py": ["C02", "C12"], "edgegraph/structure/universe.py": ["C02", "C19", "C12"],
    "edgegraph/structure/singleton.py": ["C17", "C18"], "edgegraph/traversal/helpers.py": ["C04", "C09", "C05", "C13", "C12"], "edgegraph/traversal/breadthfirst.py": ["C06", "C07", "C08", "C13"],
    "edgegraph/traversal/depthfirst.py": ["C06", "C07", "C08", "C13"], "edgegraph/builder/explicit.py": ["C03", "C01", "C09", "C11"], "edgegraph/builder/adjlist.py": ["C11", "C20", "C12"],
    "edgegraph/builder/adjmatrix.py": ["C11", "C12"], "edgegraph/builder/randgraph.py": ["C20"], "edgegraph/output/plaintext.py": ["C16", "C13"], "edgegraph/output/plantuml.py": ["C14", "C13"],
    "edgegraph/output/pyvis.py": ["C15", "C13"], "edgegraph/output/nrpickler.py": ["C10"],
}


def area_checks(overlay, all_pids):
    out = []
    for rel in overlay:
        for p in AREA.get(rel, all_pids):
            if p not in out:
                out.append(p)
    return out


def run(src=None, jobs_n=None, only=None):
    from sa.src import Source
    src = src or Source()
    jobs, skipped = collect(src, only)
    import multiprocessing as mp
    n = jobs_n or min(16, os.cpu_count() or 1)
    with mp.get_context("fork").Pool(n) as pool:
        results = pool.map(_run, jobs, chunksize=1)
    ok = [r for r in results if r[2] == r[3]]
    bad = [r for r in results if r[2] != r[3]]
    return {"jobs": len(jobs), "as_expected": len(ok), "unexpected": [{"seed": r[0], "check": r[1], "expected": r[2], "got": r[3], "detail": r[4]} for r in bad],
            "skipped_patches_not_applicable_to_current_tree": skipped,
            "must_fire": len([r for r in results if r[2] == "violation"]), "must_stay_silent": len([r for r in results if r[2] == "silent"])}


def main():
    only = None
    jobs_n = None
    a = sys.argv[1:]
    if "--only" in a:
        only = a[a.index("--only") + 1]
    if "--jobs" in a:
        jobs_n = int(a[a.index("--jobs") + 1])
    r = run(jobs_n=jobs_n, only=only)
    print(json.dumps({k: v for k, v in r.items() if k != "unexpected"}, indent=1))
    for u in r["unexpected"]:
        print("UNEXPECTED", u)
    (V / "selftest_result.json").write_text(json.dumps(r, indent=1))
    return 0 if not r["unexpected"] else 3


if __name__ == "__main__":
    sys.exit(main())
