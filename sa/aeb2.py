"""Second half of the built-in models: functions, container/str methods, external modules."""
from __future__ import annotations
import ast

from .ae import (
    Unknown, Raised, ClassV, Func, Prop, ClassMethod, StaticMethod, Bound, Builtin, Callback, Obj, Seg, Seq, SetV, DictV,
    ProxyV, IterV, GenV, ModuleV, ExtV, Opaque, Digest, Tok, SAtom, SymStr, mkstr, Poison, MISSING,
)


def install(B, LenV):
    def method(f):
        setattr(B, f.__name__, f)
        return f

    # ================================================================== functions
    @method
    def f_len(self, I, x):
        f = I.uover(x, "__len__")
        if f is not None:
            return I.call(f, [x], {})
        if isinstance(x, ClassV) and "_enum_members_" in x.dict:
            return len(x.dict["_enum_members_"])
        if isinstance(x, Seq):
            if x.has_seg():
                return LenV(sum(1 for i in x.items if type(i) is not Seg))
            return len(x.items)
        if isinstance(x, SetV):
            return LenV(len(x.items)) if x.opaque else len(x.items)
        if isinstance(x, DictV):
            return LenV(len(x.pairs)) if x.opaque else len(x.pairs)
        if isinstance(x, ProxyV):
            return self.f_len(I, x.d)
        if isinstance(x, (str, bytes, bytearray)):
            return len(x)
        if isinstance(x, SymStr):
            return LenV(sum(len(p) for p in x.parts if isinstance(p, str)))
        if isinstance(x, Obj):
            d, _ = x.cls.lookup("__len__")
            if d is not None:
                return I.call(d, [x], {})
        if isinstance(x, Poison):
            raise Unknown(x.why)
        if isinstance(x, (Opaque, ExtV)):
            raise Unknown("len of opaque value")
        raise Raised(self.mkexc("TypeError", f"object of type {self.typename(x)!r} has no len()"))

    B._ABC_DUNDERS = {"Iterable": ("__iter__",), "Iterator": ("__iter__", "__next__"), "Sized": ("__len__",), "Container": ("__contains__",), "Callable": ("__call__",),
                    "Collection": ("__len__", "__iter__", "__contains__"), "Reversible": ("__reversed__", "__iter__"), "Hashable": ("__hash__",)}

    @method
    def abc_instance(self, I, o, name):
        """isinstance(o, <abstract base class `name` of collections.abc / typing>): the one-method classes by their dunder methods, the
        container classes by registration of the built-in containers; a user class counts only when it really derives from it"""
        kinds = {
            "list": {"Iterable", "Sized", "Container", "Collection", "Reversible", "Sequence", "MutableSequence"},
            "deque": {"Iterable", "Sized", "Container", "Collection", "Reversible", "Sequence", "MutableSequence"},
            "tuple": {"Iterable", "Sized", "Container", "Collection", "Reversible", "Sequence", "Hashable"},
            "str": {"Iterable", "Sized", "Container", "Collection", "Reversible", "Sequence", "Hashable"},
            "bytes": {"Iterable", "Sized", "Container", "Collection", "Reversible", "Sequence", "Hashable", "ByteString"},
            "bytearray": {"Iterable", "Sized", "Container", "Collection", "Reversible", "Sequence", "MutableSequence", "ByteString"},
            "dict": {"Iterable", "Sized", "Container", "Collection", "Reversible", "Mapping", "MutableMapping"},
            "mappingproxy": {"Iterable", "Sized", "Container", "Collection", "Reversible", "Mapping", "Hashable"},
            "set": {"Iterable", "Sized", "Container", "Collection", "Set", "MutableSet"},
            "frozenset": {"Iterable", "Sized", "Container", "Collection", "Set", "Hashable"},
            "iterator": {"Iterable", "Iterator", "Hashable"}, "generator": {"Iterable", "Iterator", "Generator", "Hashable"},
            "scalar": {"Hashable"}, "callable": {"Callable", "Hashable"},
        }
        known = set().union(*kinds.values())
        if name not in known:
            raise Unknown(f"isinstance() against the abstract base class {name} is not modelled")
        if getattr(o, "ucls", None) is None:
            if isinstance(o, Seq):
                return name in kinds[o.kind]
            if isinstance(o, (str, SymStr)):
                return name in kinds["str"]
            if isinstance(o, bytes):
                return name in kinds["bytes"]
            if isinstance(o, bytearray):
                return name in kinds["bytearray"]
            if isinstance(o, DictV):
                return name in kinds["dict"]
            if isinstance(o, ProxyV):
                return name in kinds["mappingproxy"]
            if isinstance(o, SetV):
                return name in kinds["frozenset" if o.frozen else "set"]
            if isinstance(o, GenV):
                return name in kinds["generator"]
            if isinstance(o, IterV):
                return name in kinds["iterator"]
            if o is None or isinstance(o, (int, float, bool)):
                return name in kinds["scalar"]
            if isinstance(o, (Func, Bound, Builtin, Callback, ClassV)):
                return name in kinds["callable"]
        if isinstance(o, Obj) or getattr(o, "ucls", None) is not None:
            cls = o.cls if isinstance(o, Obj) else o.ucls
            if any(getattr(k_, "abc", None) == name for k_ in cls.mro):
                return True
            dunders = self._ABC_DUNDERS.get(name)
            if dunders is None:
                if getattr(o, "ucls", None) is not None:
                    base = next((k_.name for k_ in cls.mro if k_.builtin and k_.name in kinds), None)
                    return base is not None and name in kinds[base]
                return False        # Sequence, Mapping, Set ...: by inheritance or registration only
            if name == "Hashable":
                # a class that defines __eq__ without __hash__ has __hash__ = None (as check_hashable has it)
                for k_ in cls.mro:
                    if k_.builtin:
                        break
                    if "__hash__" in k_.dict:
                        return k_.dict["__hash__"] is not None
                    if "__eq__" in k_.dict:
                        return False
                return True
            return all(cls.lookup(d_)[0] is not None for d_ in dunders)
        raise Unknown(f"isinstance({type(o).__name__} value, {name})")

    @method
    def f_isinstance(self, I, o, c):
        cs = c.items if isinstance(c, Seq) else [c]
        t = self.typeof(o)
        for k in cs:
            if isinstance(k, ClassV) and getattr(k, "abc", None) and k.abc not in ("Any", "Callable") and not t.issub(k):
                if self.abc_instance(I, o, k.abc):
                    return True
                continue
            if isinstance(k, ExtV):  # e.g. re.Pattern
                if isinstance(o, ExtV) and o.attrs.get("__class__") is k:
                    return True
                continue
            if not isinstance(k, ClassV):
                raise Raised(self.mkexc("TypeError", "isinstance() arg 2 must be a type"))
            if t.issub(k):
                return True
            if type(o).__name__ == "EnumInt" and k is self.types["int"]:
                return True
            if k.name == "Callable" and isinstance(o, (Func, Bound, Builtin, Callback, ClassV)):
                return True
        return False

    @method
    def f_issubclass(self, I, c, d):
        if not isinstance(c, ClassV):
            raise Raised(self.mkexc("TypeError", "issubclass() arg 1 must be a class"))
        ds = d.items if isinstance(d, Seq) else [d]
        for k in ds:
            if not isinstance(k, ClassV):
                raise Raised(self.mkexc("TypeError", "issubclass() arg 2 must be a class"))
            if c.issub(k):
                return True
        return False

    @method
    def f_callable(self, I, x):
        if isinstance(x, (Func, Bound, Builtin, Callback, ClassV)):
            return True
        if isinstance(x, Obj):
            return x.cls.lookup("__call__")[0] is not None
        return False

    @method
    def f_getattr(self, I, o, n, default=MISSING):
        if not isinstance(n, str):
            raise Unknown("getattr with symbolic name")
        return I.getattr(o, n, default)

    @method
    def f_setattr(self, I, o, n, v):
        if not isinstance(n, str):
            raise Unknown("setattr with symbolic name")
        I.setattr(o, n, v)

    @method
    def f_delattr(self, I, o, n):
        if not isinstance(n, str):
            raise Unknown("delattr with symbolic name")
        I.delattr(o, n)

    @method
    def f_hasattr(self, I, o, n):
        if not isinstance(n, str):
            raise Unknown("hasattr with symbolic name")
        try:
            I.getattr(o, n)
            return True
        except Raised as r:
            if r.exc.cls.issub(self.EXC["AttributeError"]):
                return False
            raise

    @method
    def f_id(self, I, x):
        return SymId(x)

    @method
    def f_hex(self, I, x):
        if isinstance(x, int):
            return hex(x)
        if isinstance(x, SymId):
            return mkstr([SAtom("HexId", x.obj)])
        return mkstr([SAtom("Hex", x)])

    @method
    def f_hash(self, I, x):
        self.check_hashable(x)
        if isinstance(x, Obj):
            d, owner = x.cls.lookup("__hash__")
            if d is not None and not owner.builtin:
                return I.call(d, [x], {})
        if isinstance(x, ClassV) and x.meta is not None:
            d, owner = x.meta.lookup("__hash__")
            if d is not None and not owner.builtin:
                return I.call(d, [x], {})
        return Digest(x)

    @method
    def f_repr(self, I, x):
        return mkstr([self.to_repr(I, x)])

    @method
    def f_ascii(self, I, x):
        return mkstr([self.to_repr(I, x)])

    @method
    def f_print(self, I, *a, **k):
        return None

    @method
    def f_vars(self, I, o=MISSING):
        if isinstance(o, Obj):
            from .ae import live_dict
            return live_dict(o)
        if isinstance(o, ClassV):
            return ProxyV(DictV([(k, v) for k, v in o.dict.items()]))
        raise Unknown("vars()")

    @method
    def f_dir(self, I, o=MISSING):
        names = set()
        if isinstance(o, Obj):
            dd, owner = o.cls.lookup("__dir__")
            if dd is not None and not owner.builtin:
                return Seq(sorted(I.iterate(I.call(dd, [o], {}))), "list")
            names.update(o.fields)
            for c in o.cls.mro:
                if not c.builtin:
                    names.update(k for k in c.dict)
        elif isinstance(o, ClassV):
            for c in o.mro:
                names.update(c.dict)
        else:
            raise Unknown("dir()")
        return Seq(sorted(n for n in names if isinstance(n, str)), "list")

    @method
    def f_iter(self, I, x, sentinel=MISSING):
        if sentinel is not MISSING:
            raise Unknown("iter(callable, sentinel)")
        if isinstance(x, (IterV,)):
            return x
        if isinstance(x, GenV):
            return x
        return IterV(I.iterate(x))

    @method
    def f_next(self, I, it, default=MISSING):
        if isinstance(it, GenV):
            if (it.trace is not None and it.pos < len(it.trace)) or I.gen_step(it):
                it.pos += 1
                return it.trace[it.pos - 1]
            if it.exc is not None:
                exc, it.exc = it.exc, None
                raise exc
        elif isinstance(it, IterV):
            if it.pos < len(it.items):
                it.pos += 1
                return it.items[it.pos - 1]
        elif isinstance(it, CountV):
            return it.take(1)[0]
        else:
            raise Raised(self.mkexc("TypeError", f"{self.typename(it)!r} object is not an iterator"))
        if default is not MISSING:
            return default
        raise Raised(self.mkexc("StopIteration", ""))

    @method
    def f_enumerate(self, I, x, start=0):
        return IterV([Seq([i + start, v], "tuple") for i, v in enumerate(I.iterate(x))])

    @method
    def f_zip(self, I, *xs, strict=False):
        if any(isinstance(x, CountV) for x in xs):
            finite = [I.iterate(x) for x in xs if not isinstance(x, CountV)]
            if not finite:
                raise Unknown("zip of infinite iterators only")
            n_ = min(len(l) for l in finite)
            fi = iter(finite)
            ls = [x.take(n_) if isinstance(x, CountV) else next(fi)[:n_] for x in xs]
            return IterV([Seq(list(t), "tuple") for t in zip(*ls)])
        ls = [I.iterate(x) for x in xs]
        if strict and len({len(l) for l in ls}) > 1:
            raise Raised(self.mkexc("ValueError", "zip() arguments have different lengths"))
        return IterV([Seq(list(t), "tuple") for t in zip(*ls)])

    @method
    def f_reversed(self, I, x):
        if isinstance(x, Seq) and x.has_seg():
            return Seq(list(reversed(x.items)), "list")  # reversed opaque segment stays opaque
        return IterV(list(reversed(I.iterate(x))))

    @method
    def f_sorted(self, I, x, key=None, reverse=False):
        items = I.iterate(x) if not isinstance(x, Seq) else list(x.items)
        if any(type(i) is Seg for i in items):
            raise Unknown("sorting an opaque segment")
        return Seq(self.sort_items(I, items, key, reverse), "list")

    @method
    def sort_items(self, I, items, key, reverse):
        if key is None:
            keys = list(items)
        else:
            keys = [I.call(key, [i], {}) for i in items]
        if len(items) <= 1:
            return list(items)
        if all(isinstance(k, (int, float)) and not isinstance(k, bool) for k in keys) or all(isinstance(k, str) for k in keys):
            order = sorted(range(len(items)), key=lambda i: keys[i], reverse=bool(I.truth(reverse)))
            if I.truth(reverse):
                # stable reverse: python keeps original order of equal keys
                order = sorted(range(len(items)), key=lambda i: keys[i])
                groups = []
                for i in order:
                    if groups and keys[groups[-1][0]] == keys[i]:
                        groups[-1].append(i)
                    else:
                        groups.append([i])
                order = [i for g in reversed(groups) for i in g]
            return [items[i] for i in order]
        if all(isinstance(k, Seq) and not k.has_seg() for k in keys):
            import functools

            def cmp(i, j):
                if I.eq(keys[i], keys[j]):
                    return 0
                return -1 if self.order(I, ast.Lt(), keys[i], keys[j]) else 1

            order = sorted(range(len(items)), key=functools.cmp_to_key(cmp))
            if I.truth(reverse):
                order.reverse()
            return [items[i] for i in order]
        if any(isinstance(k, Obj) for k in keys):
            d = None
            for k in keys:
                if isinstance(k, Obj):
                    d, _ = k.cls.lookup("__lt__")
                    if d is None:
                        raise Raised(self.mkexc("TypeError", f"'<' not supported between instances of {k.cls.name!r}"))
        if I.w.unordered_sort_ok and all(isinstance(k, (str, SymStr)) for k in keys):
            return list(items)
        raise Unknown("sort order of abstract keys")

    @method
    def f_min(self, I, *a, key=None, default=MISSING):
        return self._minmax(I, a, key, default, False)

    @method
    def f_max(self, I, *a, key=None, default=MISSING):
        return self._minmax(I, a, key, default, True)

    @method
    def _minmax(self, I, a, key, default, ismax):
        items = list(a) if len(a) > 1 else I.iterate(a[0])
        if not items:
            if default is not MISSING:
                return default
            raise Raised(self.mkexc("ValueError", "min()/max() arg is an empty sequence"))
        keys = [I.call(key, [i], {}) for i in items] if key is not None else items
        if all(isinstance(k, (int, float)) for k in keys):
            best = 0
            for i in range(1, len(items)):
                if (keys[i] > keys[best]) if ismax else (keys[i] < keys[best]):
                    best = i
            return items[best]
        if any(isinstance(k, (Opaque, LenV)) for k in keys) and all(isinstance(k, (int, float, Opaque, LenV)) for k in keys):
            return Opaque(("max" if ismax else "min") + repr(tuple(keys)))
        raise Unknown("min/max of abstract values")

    @method
    def f_sum(self, I, x, start=0):
        acc = start
        for i in I.iterate(x):
            acc = self.binop(I, ast.Add(), acc, i)
        return acc

    @method
    def f_abs(self, I, x):
        if isinstance(x, (int, float)):
            return abs(x)
        raise Unknown("abs")

    @method
    def f_round(self, I, x, n=None):
        if isinstance(x, (int, float)):
            return round(x, n) if n is not None else round(x)
        if isinstance(x, Opaque):
            return Opaque(f"round({x.tag})")
        raise Unknown("round")

    @method
    def f_divmod(self, I, a, b):
        if isinstance(a, int) and isinstance(b, int) and b:
            return Seq(list(divmod(a, b)), "tuple")
        raise Unknown("divmod")

    @method
    def f_any(self, I, x):
        for i in (I.live_iter(x) if type(x).__name__ == "GenV" else I.iterate(x)):      # stops at the first hit: the rest of a generator is never run
            if I.truth(i):
                return True
        return False

    @method
    def f_all(self, I, x):
        for i in (I.live_iter(x) if type(x).__name__ == "GenV" else I.iterate(x)):
            if not I.truth(i):
                return False
        return True

    @method
    def f_map(self, I, f, *xs):
        ls = [I.iterate(x) for x in xs]
        return IterV([I.call(f, list(t), {}) for t in zip(*ls)])

    @method
    def f_filter(self, I, f, x):
        return IterV([i for i in I.iterate(x) if I.truth(i if f is None else I.call(f, [i], {}))])

    @method
    def f_chr(self, I, x):
        if isinstance(x, int):
            return chr(x)
        raise Unknown("chr")

    @method
    def f_ord(self, I, x):
        if isinstance(x, str) and len(x) == 1:
            return ord(x)
        raise Unknown("ord")

    @method
    def f_super(self, I, cls=MISSING, obj=MISSING):
        from .ae import SuperV

        if cls is MISSING:
            raise Unknown("zero-argument super() through an alias")
        return SuperV(cls, obj)

    @method
    def f_open(self, I, *a, **k):
        return ExtV("file")

    @method
    def f_format(self, I, v, spec=""):
        if spec == "":
            return mkstr([self.to_str(I, v)])
        return mkstr([SAtom("Format", v, spec)])

    @method
    def f_globals(self, I):
        raise Unknown("globals()")

    @method
    def f_locals(self, I):
        raise Unknown("locals()")

    @method
    def f_exec(self, I, *a, **k):
        raise Unknown("exec")

    @method
    def f_eval(self, I, *a, **k):
        raise Unknown("eval")

    @method
    def f___import__(self, I, *a, **k):
        raise Unknown("__import__")

    # ================================================================== methods on values
    @method
    def value_attr(self, I, o, name):
        if isinstance(o, Seq):
            if name in _SEQ_METHODS.get(o.kind, ()):  # bound method
                return Builtin(f"{o.kind}.{name}", lambda I_, *a, _o=o, _n=name, **k: self.seq_method(I_, _o, _n, a, k))
            if name == "__class__":
                return self.types[o.kind]
            raise I.attr_error(o, name)
        if isinstance(o, DictV):
            if name in _DICT_METHODS:
                return Builtin(f"dict.{name}", lambda I_, *a, _o=o, _n=name, **k: self.dict_method(I_, _o, _n, a, k))
            raise I.attr_error(o, name)
        if isinstance(o, ProxyV):
            if name in ("get", "items", "keys", "values", "copy", "__contains__", "__getitem__", "__len__", "__iter__"):
                return Builtin(f"mappingproxy.{name}", lambda I_, *a, _o=o.d, _n=name, **k: self.dict_method(I_, _o if isinstance(_o, DictV) else _o.d, _n, a, k))
            raise I.attr_error(o, name)
        if isinstance(o, SetV):
            if name in _SET_METHODS:
                if o.frozen and name in ("add", "remove", "discard", "pop", "clear", "update", "difference_update", "intersection_update", "symmetric_difference_update"):
                    raise I.attr_error(o, name)
                return Builtin(f"set.{name}", lambda I_, *a, _o=o, _n=name, **k: self.set_method(I_, _o, _n, a, k))
            raise I.attr_error(o, name)
        if isinstance(o, (str, SymStr)):
            if hasattr(str, name) and not name.startswith("__") or name in ("__len__", "__contains__", "__add__", "__eq__"):
                return Builtin(f"str.{name}", lambda I_, *a, _o=o, _n=name, **k: self.str_method(I_, _o, _n, a, k))
            raise I.attr_error(o, name)
        if isinstance(o, bytes):
            if name == "decode":
                return Builtin("bytes.decode", lambda I_, *a, **k: o.decode(*a, **k))
            raise Unknown("bytes method " + name)
        if isinstance(o, (int, float)):
            if name == "real":
                return o
            if name == "imag":
                return 0
            if name == "bit_length" and isinstance(o, int):
                return Builtin("int.bit_length", lambda I_: o.bit_length())
            if name == "is_integer":
                return Builtin("float.is_integer", lambda I_: float(o).is_integer())
            raise I.attr_error(o, name)
        if isinstance(o, ExtV):
            if name in o.attrs:
                return o.attrs[name]
            if name in o.methods:
                m = o.methods[name]
                return Builtin(f"{o.name}.{name}", lambda I_, *a, _m=m, _o=o, **k: _m(I_, _o, *a, **k))
            if o.methods.get("__strict__"):
                raise I.attr_error(o, name)
            return ExtV(f"{o.name}.{name}", attrs={"__self__": o, "__name__": name}, log=o.log)
        if isinstance(o, Opaque):
            if name == "int":
                return Opaque(o.tag + ".int")
            if name in ("real",):
                return o
            return Opaque(o.tag + "." + name)
        if isinstance(o, bytearray):
            def _buf(v):
                if isinstance(v, (bytes, bytearray)):
                    return v
                if isinstance(v, Seq) and not v.has_seg() and all(isinstance(i, int) and not isinstance(i, bool) for i in v.items):
                    return bytes(v.items)
                raise Unknown("bytearray method given a value that is not modelled as a buffer")
            if name == "extend":
                return Builtin("bytearray.extend", lambda I_, v, _o=o: _o.extend(_buf(v)))
            if name == "clear":
                return Builtin("bytearray.clear", lambda I_, _o=o: _o.clear())
            if name == "copy":
                return Builtin("bytearray.copy", lambda I_, _o=o: bytearray(_o))
            if name == "append":
                return Builtin("bytearray.append", lambda I_, v, _o=o: _o.append(v) if isinstance(v, int) and not isinstance(v, bool) else (_ for _ in ()).throw(Unknown("bytearray.append of a non-int")))
            raise Unknown("bytearray method " + name)
        if isinstance(o, (IterV, GenV)):
            if name == "__next__":
                return Builtin("next", lambda I_, _o=o: self.f_next(I_, _o))
            if name == "__iter__":
                return Builtin("iter", lambda I_, _o=o: _o)
            if name in ("close",):
                return Builtin("close", lambda I_, _o=o: I_.gen_close(_o) if isinstance(_o, GenV) else None)
            raise Unknown("generator method " + name)
        if isinstance(o, Callback):
            if name == "__name__":
                return o.name
            raise I.attr_error(o, name)
        if isinstance(o, Builtin):
            if name == "__name__":
                return o.name
            raise I.attr_error(o, name)
        if isinstance(o, Tok):
            raise I.attr_error(o, name)
        if isinstance(o, (ClassMethod, StaticMethod)):
            if name == "__func__":
                return o.f
        if isinstance(o, Digest):
            raise Unknown("attribute of a digest")
        if isinstance(o, SymId):
            raise I.attr_error(o, name)
        raise Unknown(f"attribute {name} of {o!r}")

    @method
    def seq_method(self, I, s, name, a, kw):
        items = s.items
        mut = s.kind in ("list", "deque")

        def find(x, start=0):
            for i in range(start, len(items)):
                it = items[i]
                if type(it) is Seg:
                    if isinstance(x, Obj) and x.cls is self.ANON:
                        raise Unknown("search for a generic element in an opaque segment")
                    continue
                if it is x or I.eq(it, x):
                    return i
            return -1

        if name == "append" and mut:
            items.append(a[0])
            return None
        if name == "appendleft" and s.kind == "deque":
            items.insert(0, a[0])
            return None
        if name == "extend" and mut:
            src = a[0]
            items.extend(src.items if isinstance(src, Seq) else I.iterate(src))
            return None
        if name == "extendleft" and s.kind == "deque":
            for x in I.iterate(a[0]):
                items.insert(0, x)
            return None
        if name == "popleft" and s.kind == "deque":
            if not items:
                raise Raised(self.mkexc("IndexError", "pop from an empty deque"))
            if type(items[0]) is Seg:
                raise Unknown("pop of an element of an opaque segment")
            return items.pop(0)
        if name == "pop" and mut:
            if not items:
                raise Raised(self.mkexc("IndexError", "pop from empty list"))
            k = a[0] if a else -1
            if s.kind == "deque" and a:
                raise Raised(self.mkexc("TypeError", "deque.pop() takes no arguments"))
            i = self._index(s, k)
            return items.pop(i)
        if name == "insert" and mut:
            k = a[0]
            if not isinstance(k, int):
                raise Unknown("insert at opaque index")
            if k == 0:
                items.insert(0, a[1])
            elif k >= len(items) and not s.has_seg() or k >= len(items) and k > 10**6:
                items.append(a[1])
            elif s.has_seg():
                if k < 0:
                    tail = items[k:]
                    if any(type(x) is Seg for x in tail) or -k > len(items):
                        raise Unknown("insert position crosses an opaque segment")
                    items.insert(len(items) + k, a[1])
                else:
                    if any(type(x) is Seg for x in items[:k]):
                        raise Unknown("insert position crosses an opaque segment")
                    items.insert(k, a[1])
            else:
                items.insert(k, a[1])
            return None
        if name == "remove" and mut:
            i = find(a[0])
            if i < 0:
                raise Raised(self.mkexc("ValueError", "list.remove(x): x not in list"))
            del items[i]
            return None
        if name == "clear" and mut:
            del items[:]
            return None
        if name == "copy" and mut:
            return Seq(list(items), s.kind)
        if name == "index":
            i = find(a[0])
            if i < 0:
                raise Raised(self.mkexc("ValueError", "x not in sequence"))
            if any(type(x) is Seg for x in items[:i]):
                return Opaque("index-behind-segment")
            return i
        if name == "count":
            n = 0
            for it in items:
                if type(it) is Seg:
                    if isinstance(a[0], Obj) and a[0].cls is self.ANON:
                        raise Unknown("count of generic element")
                    continue
                if it is a[0] or I.eq(it, a[0]):
                    n += 1
            return n
        if name == "reverse" and mut:
            items.reverse()
            return None
        if name == "sort" and s.kind == "list":
            if s.has_seg():
                raise Unknown("sorting an opaque segment")
            items[:] = self.sort_items(I, list(items), kw.get("key"), kw.get("reverse", False))
            return None
        if name == "rotate" and s.kind == "deque":
            if s.has_seg():
                raise Unknown("rotate opaque deque")
            n = a[0] if a else 1
            if items:
                n %= len(items)
                items[:] = items[-n:] + items[:-n]
            return None
        if name in ("__len__",):
            return self.f_len(I, s)
        if name == "__contains__":
            return I.contains(s, a[0])
        if name == "__getitem__":
            return self.getitem(I, s, a[0])
        if name == "__iter__":
            return IterV(I.iterate(s))
        raise Raised(self.mkexc("AttributeError", f"{s.kind!r} object has no attribute {name!r}"))

    @method
    def dict_method(self, I, d, name, a, kw):
        if name == "get":
            i = self.dict_find(I, d, a[0])
            return d.pairs[i][1] if i >= 0 else (a[1] if len(a) > 1 else kw.get("default"))
        if name == "setdefault":
            i = self.dict_find(I, d, a[0])
            if i >= 0:
                return d.pairs[i][1]
            v = a[1] if len(a) > 1 else None
            d.pairs.append([a[0], v])
            return v
        if name == "pop":
            i = self.dict_find(I, d, a[0])
            if i >= 0:
                return d.pairs.pop(i)[1]
            if len(a) > 1:
                return a[1]
            raise Raised(self.mkexc("KeyError", a[0]))
        if name == "popitem":
            if not d.pairs:
                raise Raised(self.mkexc("KeyError", "popitem(): dictionary is empty"))
            k, v = d.pairs.pop()
            return Seq([k, v], "tuple")
        if name == "update":
            if a:
                for k, v in self.dict_pairs(I, a[0]):
                    self.dict_set(I, d, k, v)
            for k, v in kw.items():
                self.dict_set(I, d, k, v)
            return None
        if name == "items":
            return Seq([Seq([k, v], "tuple") for k, v in d.pairs], "list")
        if name == "keys":
            return Seq([k for k, _ in d.pairs], "list")
        if name == "values":
            return Seq([v for _, v in d.pairs], "list")
        if name == "copy":
            return DictV(d.pairs)
        if name == "clear":
            del d.pairs[:]
            return None
        if name == "fromkeys":
            out = DictV()
            for k in I.iterate(a[0]):
                self.dict_set(I, out, k, a[1] if len(a) > 1 else None)
            return out
        if name == "__contains__":
            return self.dict_find(I, d, a[0]) >= 0
        if name == "__getitem__":
            return self.getitem(I, d, a[0])
        if name == "__setitem__":
            return self.dict_set(I, d, a[0], a[1])
        if name == "__delitem__":
            return self.delitem(I, d, a[0])
        if name == "__len__":
            return len(d.pairs)
        if name == "__iter__":
            return IterV([k for k, _ in d.pairs])
        raise Unknown("dict method " + name)

    @method
    def set_method(self, I, s, name, a, kw):
        def has(x, items=None):
            return any(y is x or I.heq(y, x) for y in (s.items if items is None else items))

        if name == "add":
            self.check_hashable(a[0])
            if not has(a[0]):
                s.items.append(a[0])
            return None
        if name in ("remove", "discard"):
            for i, y in enumerate(s.items):
                if y is a[0] or I.heq(y, a[0]):
                    del s.items[i]
                    return None
            if name == "remove":
                raise Raised(self.mkexc("KeyError", a[0]))
            return None
        if name == "pop":
            if not s.items:
                raise Raised(self.mkexc("KeyError", "pop from an empty set"))
            if len(s.items) == 1:
                return s.items.pop()
            c = I.w.choose(len(s.items), "set-pop")
            return s.items.pop(c)
        if name == "clear":
            del s.items[:]
            return None
        if name == "copy":
            return SetV(s.items, s.frozen)
        if name == "update":
            for src in a:
                for x in I.iterate(src):
                    self.check_hashable(x)
                    if not has(x):
                        s.items.append(x)
            return None
        if name == "union":
            out = list(s.items)
            for src in a:
                for x in I.iterate(src):
                    if not has(x, out):
                        out.append(x)
            return SetV(out, s.frozen)
        if name in ("intersection", "difference", "symmetric_difference", "issubset", "issuperset", "isdisjoint", "difference_update", "intersection_update"):
            other = SetV(I.iterate(a[0])) if not isinstance(a[0], SetV) else a[0]
            if name == "intersection":
                return SetV([x for x in s.items if has(x, other.items)], s.frozen)
            if name == "difference":
                return SetV([x for x in s.items if not has(x, other.items)], s.frozen)
            if name == "difference_update":
                s.items[:] = [x for x in s.items if not has(x, other.items)]
                return None
            if name == "intersection_update":
                s.items[:] = [x for x in s.items if has(x, other.items)]
                return None
            if name == "symmetric_difference":
                return SetV([x for x in s.items if not has(x, other.items)] + [x for x in other.items if not has(x)], s.frozen)
            if name == "issubset":
                return all(has(x, other.items) for x in s.items)
            if name == "issuperset":
                return all(has(x) for x in other.items)
            if name == "isdisjoint":
                return not any(has(x, other.items) for x in s.items)
        if name == "__contains__":
            return has(a[0])
        if name == "__len__":
            return len(s.items)
        if name == "__iter__":
            return IterV(I.iterate(s))
        raise Unknown("set method " + name)

    @method
    def str_method(self, I, s, name, a, kw):
        if name == "join":
            src = a[0]
            items = src.items if isinstance(src, Seq) and not src.has_seg() else I.iterate(src)
            parts = []
            for i, it in enumerate(items):
                if not isinstance(it, (str, SymStr)):
                    raise Raised(self.mkexc("TypeError", f"sequence item {i}: expected str instance, {self.typename(it)} found"))
                if i:
                    parts.append(s)
                parts.append(it)
            return mkstr(parts)
        if name == "format_map":
            if len(a) != 1:
                raise Raised(self.mkexc("TypeError", "format_map() takes exactly one argument"))
            m_ = a[0]
            if isinstance(m_, ProxyV):
                m_ = m_.d
            if not isinstance(m_, DictV):
                raise Unknown("format_map with a non-dict mapping")
            return self.str_method(I, s, "format", [], {k_: v_ for k_, v_ in m_.pairs if isinstance(k_, str)})
        if name == "format":
            if isinstance(s, str) and "{" not in s:
                return s
            if isinstance(s, str):
                # the replacement fields must be supplied: a missing keyword is a KeyError, a missing position an IndexError
                import string
                try:
                    fields = [f for _, f, _, _ in string.Formatter().parse(s) if f is not None]
                except ValueError as e:
                    raise Raised(self.mkexc("ValueError", str(e)))
                auto = 0
                for f in fields:
                    head = f.split(".")[0].split("[")[0]
                    if head == "":
                        if auto >= len(a):
                            raise Raised(self.mkexc("IndexError", "Replacement index out of range for positional args tuple"))
                        auto += 1
                    elif head.isdigit():
                        if int(head) >= len(a):
                            raise Raised(self.mkexc("IndexError", "Replacement index out of range for positional args tuple"))
                    elif head not in kw:
                        raise Raised(self.mkexc("KeyError", head))
            return mkstr([SAtom("StrFormat", s, Seq(list(a), "tuple"), DictV(list(kw.items())))])
        if name == "__add__":
            return mkstr([s, a[0]])
        if name == "__len__":
            return self.f_len(I, s)
        if isinstance(s, str) and all(isinstance(x, (str, int, type(None))) or (isinstance(x, Seq) and all(isinstance(y, str) for y in x.items)) for x in a):
            args = [tuple(x.items) if isinstance(x, Seq) else x for x in a]
            if name in ("split", "rsplit", "splitlines", "partition", "rpartition"):
                r = getattr(s, name)(*args)
                return Seq(list(r), "list" if isinstance(r, list) else "tuple")
            if name in ("encode",):
                return s.encode(*args)
            try:
                return getattr(s, name)(*args, **{k: v for k, v in kw.items() if isinstance(v, (str, int))})
            except (ValueError, IndexError) as e:
                raise Raised(self.mkexc(type(e).__name__, str(e)))
            except TypeError as e:
                raise Raised(self.mkexc("TypeError", str(e)))
        if isinstance(s, SymStr):
            parts = s.parts
            if name in ("rstrip", "strip", "lstrip", "removesuffix", "removeprefix"):
                out = list(parts)
                chars = a[0] if a else None
                if name in ("rstrip", "strip"):
                    if isinstance(out[-1], str):
                        t = out[-1].rstrip(chars)
                        if t == "" and len(out) > 1:
                            raise Unknown("rstrip reaches an opaque string piece")
                        out[-1] = t
                    else:
                        raise Unknown("rstrip on an opaque string piece")
                if name in ("lstrip", "strip"):
                    if isinstance(out[0], str):
                        t = out[0].lstrip(chars)
                        if t == "" and len(out) > 1:
                            raise Unknown("lstrip reaches an opaque string piece")
                        out[0] = t
                    else:
                        raise Unknown("lstrip on an opaque string piece")
                if name == "removesuffix":
                    suf = a[0]
                    if isinstance(suf, str) and isinstance(out[-1], str) and len(out[-1]) >= len(suf):
                        out[-1] = out[-1].removesuffix(suf)
                    else:
                        raise Unknown("removesuffix on an opaque string piece")
                if name == "removeprefix":
                    pre = a[0]
                    if isinstance(pre, str) and isinstance(out[0], str) and len(out[0]) >= len(pre):
                        out[0] = out[0].removeprefix(pre)
                    else:
                        raise Unknown("removeprefix on an opaque string piece")
                return mkstr(out)
            if name == "endswith" and isinstance(a[0], str) and isinstance(parts[-1], str) and len(parts[-1]) >= len(a[0]):
                return parts[-1].endswith(a[0])
            if name == "startswith" and isinstance(a[0], str) and isinstance(parts[0], str) and len(parts[0]) >= len(a[0]):
                return parts[0].startswith(a[0])
        raise Unknown(f"str method {name} on symbolic string")

    # ================================================================== external modules
    @method
    def ext_module(self, name):
        if name not in self.ext_mods:
            m = ModuleV(name, ext=True)
            self.ext_mods[name] = m
        return self.ext_mods[name]

    @method
    def ext_attr(self, mod, name):
        full = mod.name + "." + name
        ov = self.w.ext_overrides
        if full in ov:
            return ov[full]
        if full in _EXT_CONST:
            return _EXT_CONST[full]
        if full == "inspect.Parameter":
            return _param_class(self)
        if full == "inspect._empty":
            return _PARAM_EMPTY
        h = _EXT_FUNCS.get(full)
        if h is not None:
            b_ = Builtin(full, lambda I, *a, _h=h, **k: _h(self, I, *a, **k))
            sub = {k_[len(full) + 1:]: v_ for k_, v_ in _EXT_FUNCS.items() if k_.startswith(full + ".")}
            if sub:
                b_.attrs = {n_: Builtin(full + "." + n_, lambda I, *a, _h=v_, **k: _h(self, I, *a, **k)) for n_, v_ in sub.items()}
            return b_
        if full in _EXT_TYPES:
            return self.types[_EXT_TYPES[full]]
        if full in _EXT_SUBMODULES or mod.name in ("os", "collections", "importlib", "xml", "concurrent") and name in ("path", "abc", "util", "etree", "futures"):
            return self.ext_module(full)
        if mod.name in ("typing", "collections.abc", "typing_extensions"):
            key = "abc:" + name
            if key not in self.ext_mods:
                c = ClassV(name, [self.OBJECT], None, builtin=True)
                c.abc = name        # isinstance / issubclass against it are structural (f_isinstance)
                self.ext_mods[key] = c
            return self.ext_mods[key]
        if full in self.ext_mods:
            return self.ext_mods[full]
        # anything else of an external module: an external object, calls are logged
        key = "extobj:" + full
        if key not in self.ext_mods:
            self.ext_mods[key] = ExtV(full, log=self.w.events)
        return self.ext_mods[key]

    @method
    def ext_call(self, I, f, args, kw):
        if "__call__" in f.methods:
            return f.methods["__call__"](I, f, *args, **kw)
        self.w.events.append(("extcall", f.name, list(args), dict(kw)))
        f.log.append(("call", f.name, list(args), dict(kw)))
        if f.name.endswith("Error") or f.name.endswith("Exception"):
            raise Unknown(f"external exception class {f.name}")
        r = ExtV(f.name + "()", log=f.log)
        r.opaque_result = True       # nothing is known about it: using it as a condition is UNDECIDED
        return r

    @method
    def extern_class(self, ext):
        key = "externclass:" + ext.name
        if key not in self.ext_mods:
            c = ClassV(ext.name.split(".")[-1], [self.OBJECT], None, builtin=True, qual=ext.name)
            c.extern = True
            c.dict["__init__"] = Builtin(ext.name + ".__init__", lambda I, o, *a, _n=ext.name, **k: self.w.events.append(("extcall", _n + ".__init__", [o] + list(a), dict(k))), cls=c)
            self.ext_mods[key] = c
        return self.ext_mods[key]

    @method
    def extern_member(self, o, name):
        cname = next(c.qual for c in (o.cls.mro if isinstance(o, Obj) else o.mro) if getattr(c, "extern", False))
        return ExtV(f"{cname}.{name}", attrs={"__self__": o, "__name__": name}, log=self.w.events)

    B.SymId = SymId


class SymId:
    """id(x): injective on live objects."""

    def __init__(self, obj):
        self.obj = obj

    def __repr__(self):
        return f"id({self.obj!r})"


_SEQ_METHODS = {
    "list": {"append", "extend", "pop", "insert", "remove", "clear", "copy", "index", "count", "reverse", "sort", "__len__", "__contains__", "__getitem__", "__iter__"},
    "tuple": {"index", "count", "__len__", "__contains__", "__getitem__", "__iter__"},
    "deque": {"append", "appendleft", "extend", "extendleft", "pop", "popleft", "insert", "remove", "clear", "copy", "index", "count", "reverse", "rotate", "__len__", "__contains__", "__getitem__", "__iter__"},
}
_DICT_METHODS = {"get", "setdefault", "pop", "popitem", "update", "items", "keys", "values", "copy", "clear", "fromkeys", "__contains__", "__getitem__", "__setitem__", "__delitem__", "__len__", "__iter__"}
_SET_METHODS = {"add", "remove", "discard", "pop", "clear", "copy", "update", "union", "intersection", "difference", "symmetric_difference", "issubset", "issuperset", "isdisjoint", "difference_update", "intersection_update", "__contains__", "__len__", "__iter__"}

_EXT_CONST = {"typing.TYPE_CHECKING": False, "pickle.DEFAULT_PROTOCOL": 4, "pickle.HIGHEST_PROTOCOL": 5, "pickle.PROTO": b"\x80", "pickle.STOP": b".", "pickle.MARK": b"(", "pickle.TUPLE": b"t", "pickle.POP": b"0", "pickle.POP_MARK": b"1",
              "pickle.TUPLE1": b"\x85", "pickle.TUPLE2": b"\x86", "pickle.TUPLE3": b"\x87", "pickle.EMPTY_TUPLE": b")", "pickle.FROZENSET": b"\x91",
              "math.inf": float("inf"), "math.pi": 3.141592653589793, "sys.maxsize": 2**63 - 1}
_EXT_TYPES = {"collections.deque": "deque", "types.MappingProxyType": "mappingproxy", "builtins.object": "object"}
_EXT_SUBMODULES = {"os.path", "collections.abc", "pyvis.network", "datetime.datetime"}

_uuid_n = [0]


def _uuid4(B, I):
    _uuid_n[0] += 1
    o = ExtV("uuid")
    o.attrs["int"] = Opaque(f"uuid{_uuid_n[0]}", truthy=True, unique=True)
    o.attrs["hex"] = mkstr([SAtom("UuidHex", o)])
    return o


def _json_dumps(B, I, obj, **kw):
    # canonical form of a mapping: deterministic function of its (sorted) content
    sort = kw.get("sort_keys", False)
    py = _json_concrete(obj)
    if py is not _NOT_CONCRETE and set(kw) <= {"sort_keys"}:
        import json as _json
        try:
            return _json.dumps(py, sort_keys=bool(sort))       # fully concrete input: the text itself
        except TypeError as e:
            raise Raised(B.mkexc("TypeError", str(e)))
    return mkstr([SAtom("Json", _canon(B, I, obj, sort))])


_NOT_CONCRETE = object()


def _json_concrete(v):
    """plain Python value of a fully concrete JSON-serialisable abstract value, else _NOT_CONCRETE"""
    if isinstance(v, (str, int, float, bool, type(None))):
        return v
    if isinstance(v, DictV) and not getattr(v, "opaque", False):
        out = {}
        for k, x in v.pairs:
            if not isinstance(k, (str, int, float, bool, type(None))):
                return _NOT_CONCRETE
            y = _json_concrete(x)
            if y is _NOT_CONCRETE:
                return _NOT_CONCRETE
            out[k] = y
        return out
    if isinstance(v, Seq) and not v.has_seg():
        ys = [_json_concrete(x) for x in v.items]
        return _NOT_CONCRETE if any(y is _NOT_CONCRETE for y in ys) else ys
    return _NOT_CONCRETE


def _canon(B, I, v, sort):
    if isinstance(v, DictV):
        pairs = [(k, _canon(B, I, x, sort)) for k, x in v.pairs]
        for k, _ in pairs:
            if not isinstance(k, (str, int, float, bool, type(None))):
                raise Raised(B.mkexc("TypeError", "keys must be str, int, float, bool or None"))
        if sort:
            try:
                pairs.sort(key=lambda p: p[0])
            except TypeError:
                raise Raised(B.mkexc("TypeError", "'<' not supported between keys"))
        return ("dict",) + tuple(pairs)
    if isinstance(v, Seq):
        if v.has_seg():
            raise Unknown("json of opaque sequence")
        return ("list",) + tuple(_canon(B, I, x, sort) for x in v.items)
    if isinstance(v, (str, int, float, bool, type(None))):
        return v
    if isinstance(v, Tok):
        return ("tok", v.eqclass)
    if isinstance(v, Obj):
        raise Raised(B.mkexc("TypeError", f"Object of type {v.cls.name} is not JSON serializable"))
    raise Unknown("json of " + repr(v))


def _deepcopy_ext(B, I, x, memo=None):
    raise Unknown("copy.deepcopy")


def _copy_copy(B, I, x):
    if isinstance(x, Seq):
        return Seq(list(x.items), x.kind)
    if isinstance(x, DictV):
        return DictV(x.pairs)
    if isinstance(x, SetV):
        return SetV(x.items, x.frozen)
    raise Unknown("copy.copy of " + repr(x))


def _rand(tag):
    def f(B, I, *a, **k):
        B.w.events.append(("random", tag, list(a)))
        return Opaque(f"random.{tag}")
    return f


def _wraps(B, I, wrapped, *a, **k):
    return Builtin("functools.wraps", lambda I_, f: f)


class CountV:
    """itertools.count(start, step): an infinite iterator; only consumers that bound it are modelled (zip, compress, islice, next)"""

    def __init__(self, start=0, step=1):
        self.cur, self.step = start, step

    def take(self, n):
        out = [self.cur + i * self.step for i in range(n)]
        self.cur += n * self.step
        return out

    def __repr__(self):
        return f"count({self.cur})"


def _count(B, I, start=0, step=1):
    if not isinstance(start, (int, float)) or not isinstance(step, (int, float)):
        raise Unknown("itertools.count with symbolic arguments")
    return CountV(start, step)


def _compress(B, I, data, selectors):
    sel = I.iterate(selectors)
    d = data.take(len(sel)) if isinstance(data, CountV) else I.iterate(data)
    return IterV([x for x, s_ in zip(d, sel) if I.truth(s_)])


def _product(B, I, *xs, repeat=1):
    import itertools as _it
    pools = [I.iterate(x) for x in xs] * repeat
    return IterV([Seq(list(t), "tuple") for t in _it.product(*pools)])


def _repeat(B, I, x, times=None):
    if times is None:
        raise Unknown("itertools.repeat without a count")
    return IterV([x] * times)


def _starmap(B, I, f, it):
    return IterV([I.call(f, list(I.iterate(t)), {}) for t in I.iterate(it)])


def _zip_longest(B, I, *xs, fillvalue=None):
    import itertools as _it
    return IterV([Seq(list(t), "tuple") for t in _it.zip_longest(*[I.iterate(x) for x in xs], fillvalue=fillvalue)])


def _chain_from_iterable(B, I, xs):
    out = []
    for x in I.iterate(xs):
        out.extend(I.iterate(x))
    return IterV(out)


# ---- dataclasses
class _Missing:
    def __repr__(self):
        return "MISSING"


_DC_MISSING = _Missing()


def _dc_field(B, I, *, default=_DC_MISSING, default_factory=_DC_MISSING, init=True, repr=True, hash=None, compare=True, metadata=None, kw_only=False):
    f = ExtV("dataclasses.Field")
    f.methods["__strict__"] = True
    f.attrs.update(default=default, default_factory=default_factory, init=init, compare=compare)
    return f


def _dataclass(B, I, cls=None, **opts):
    """dataclasses.dataclass: __init__ from the annotated class attributes in order (inherited dataclass fields first), defaults and
    default factories, __post_init__; __eq__ over the compared fields unless eq=False; a generated __repr__ is an opaque atom."""
    import ast as _ast

    def wrap(c):
        if not isinstance(c, ClassV) or c.node is None:
            raise Unknown("dataclass on something that is not a class statement")
        fields = []
        for base in reversed(c.mro[1:]):
            for fn, fd in base.dict.get("__dataclass_fields__", []):
                fields = [(n, d) for n, d in fields if n != fn] + [(fn, fd)]
        for st in c.node.body:
            if isinstance(st, _ast.AnnAssign) and isinstance(st.target, _ast.Name):
                ann = _ast.unparse(st.annotation)
                if "ClassVar" in ann:
                    continue
                name = st.target.id
                dflt = c.dict.get(name, _DC_MISSING) if st.value is not None else _DC_MISSING
                fields = [(n, d) for n, d in fields if n != name] + [(name, dflt)]
                if isinstance(dflt, ExtV) and dflt.name == "dataclasses.Field":
                    if dflt.attrs["default"] is not _DC_MISSING:
                        c.dict[name] = dflt.attrs["default"]
                    else:
                        c.dict.pop(name, None)
        c.dict["__dataclass_fields__"] = fields

        def init(I_, self_, *args, **kw):
            names = [n for n, d in fields if not (isinstance(d, ExtV) and d.name == "dataclasses.Field" and not d.attrs["init"])]
            if len(args) > len(names):
                raise Raised(B.mkexc("TypeError", f"__init__() takes {len(names) + 1} positional arguments but {len(args) + 1} were given"))
            given = dict(zip(names, args))
            for k_, v_ in kw.items():
                if k_ not in names:
                    raise Raised(B.mkexc("TypeError", f"__init__() got an unexpected keyword argument {k_!r}"))
                if k_ in given:
                    raise Raised(B.mkexc("TypeError", f"__init__() got multiple values for argument {k_!r}"))
                given[k_] = v_
            for n, d in fields:
                if n in given:
                    v_ = given[n]
                elif isinstance(d, ExtV) and d.name == "dataclasses.Field":
                    if d.attrs["default_factory"] is not _DC_MISSING:
                        v_ = I_.call(d.attrs["default_factory"], [], {})
                    elif d.attrs["default"] is not _DC_MISSING:
                        v_ = d.attrs["default"]
                    else:
                        raise Raised(B.mkexc("TypeError", f"__init__() missing 1 required positional argument: {n!r}"))
                elif d is not _DC_MISSING:
                    v_ = d
                else:
                    raise Raised(B.mkexc("TypeError", f"__init__() missing 1 required positional argument: {n!r}"))
                if opts.get("frozen"):
                    self_.fields[n] = v_
                else:
                    I_.setattr(self_, n, v_)
            post, owner = c.lookup("__post_init__")
            if post is not None:
                I_.call(post, [self_], {})
            return None
        if opts.get("init", True) and "__init__" not in c.dict:
            c.dict["__init__"] = Builtin(c.name + ".__init__", init, cls=c)
        if opts.get("eq", True) and "__eq__" not in c.dict:
            cmp_names = [n for n, d in fields if not (isinstance(d, ExtV) and d.name == "dataclasses.Field" and not d.attrs["compare"])]

            def eq(I_, a, b):
                if not (isinstance(b, Obj) and b.cls is a.cls):
                    return B.NOTIMPL
                return all(I_.eq(I_.getattr(a, n), I_.getattr(b, n)) for n in cmp_names)
            c.dict["__eq__"] = Builtin(c.name + ".__eq__", eq, cls=c)
            if "__hash__" not in c.dict:
                if opts.get("frozen") or opts.get("unsafe_hash"):
                    c.dict["__hash__"] = Builtin(c.name + ".__hash__", lambda I_, a: B.f_hash(I_, Seq([I_.getattr(a, n) for n in cmp_names], "tuple")), cls=c)
                else:
                    c.dict["__hash__"] = None
        if opts.get("repr", True) and "__repr__" not in c.dict:
            c.dict["__repr__"] = Builtin(c.name + ".__repr__", lambda I_, a: mkstr([SAtom("DataclassRepr", a)]), cls=c)
        if opts.get("frozen"):
            def frozen_set(I_, a, n, v):
                raise Raised(B.mkexc("AttributeError", f"cannot assign to field {n!r}"))
            c.dict["__setattr__"] = Builtin(c.name + ".__setattr__", frozen_set, cls=c)
        if opts.get("order"):
            raise Unknown("dataclass(order=True)")
        return c
    if cls is not None:
        return wrap(cls)
    return Builtin("dataclass(...)", lambda I_, c: wrap(c))


def _itertools_chain(B, I, *xs):
    out = []
    for x in xs:
        out.extend(I.iterate(x))
    return IterV(out)


def _re_compile(B, I, pat, flags=0):
    """re.compile on a concrete pattern: match/search/fullmatch on concrete subjects are computed with the stdlib's re
    (a pure library function, like the str methods); symbolic patterns or subjects are UNDECIDED."""
    import re as _re
    o = ExtV("re.Pattern")
    o.attrs["pattern"] = pat
    o.attrs["__class__"] = B.ext_attr(B.ext_module("re"), "Pattern")
    if isinstance(pat, str) and isinstance(flags, int):
        try:
            rx = _re.compile(pat, flags)
        except _re.error as e:
            raise Raised(B.mkexc("ValueError", f"re.error: {e}"))

        def mk(kind):
            def f(I_, self_, subject, *a):
                if not isinstance(subject, str):
                    raise Unknown("regular expression applied to a symbolic string")
                m = getattr(rx, kind)(subject)
                if m is None:
                    return None
                mo = ExtV("re.Match")
                mo.attrs["__match__"] = m.group(0)
                mo.methods["group"] = lambda I2, s2, *g: m.group(*g)
                return mo
            return f

        for kind in ("match", "search", "fullmatch"):
            o.methods[kind] = mk(kind)
    return o


def _defaultdict(B, I, factory=None, *a, **k):
    d = B.b_dict(I, *a, **k)
    d.factory = factory
    return d


def _suppress(B, I, *excs):
    cm = ExtV("contextlib.suppress")
    cm.methods["__strict__"] = True
    cm.methods["__enter__"] = lambda I_, s: None
    cm.methods["__exit__"] = lambda I_, s, t, e, tb: isinstance(t, ClassV) and any(isinstance(x, ClassV) and t.issub(x) for x in excs)
    return cm


def _contextmanager(B, I, f):
    """contextlib.contextmanager on a generator function with one yield, either at the top level of the body or at the top level
    of a try statement's body: code before the yield runs at __enter__, code after it (handlers / finally for an exception thrown
    in at the yield) at __exit__."""
    import ast as _ast
    from .ae import Frame, _Return
    if not isinstance(f, Func) or not f.is_gen:
        raise Unknown("contextmanager on something that is not a generator function")
    body = f.node.body

    def is_yield_stmt(st):
        v = st.value if isinstance(st, (_ast.Expr, _ast.Assign)) else None
        return isinstance(v, _ast.Yield)

    def has_yield(st):
        return any(isinstance(n, (_ast.Yield, _ast.YieldFrom)) for n in _ast.walk(st))

    idx = [i for i, st in enumerate(body) if has_yield(st)]
    if len(idx) != 1:
        raise Unknown("contextmanager: generator shape not modelled (several yielding statements)")
    i = idx[0]
    st = body[i]
    if is_yield_stmt(st):
        shape, j = "plain", None
    elif isinstance(st, _ast.Try) and sum(1 for x in st.body if has_yield(x)) == 1 and any(is_yield_stmt(x) for x in st.body) \
            and not any(has_yield(x) for h_ in st.handlers for x in h_.body) and not any(has_yield(x) for x in st.orelse + st.finalbody):
        shape, j = "try", next(k for k, x in enumerate(st.body) if is_yield_stmt(x))
    else:
        raise Unknown("contextmanager: generator shape not modelled")

    def make(I_, *args, **kw):
        loc = I_.bind_args(f, list(args), kw)
        fr = Frame(f.module, loc, cls=f.cls, self_obj=(args[0] if args else None), func=f, env=f.env)
        fr.yields = []
        cm = ExtV("contextlib.contextmanager(" + f.name + ")")
        cm.methods["__strict__"] = True

        def enter(I2, s_):
            try:
                I2.exec_block(body[:i], fr)
                ys = st if shape == "plain" else st.body[j]
                if shape == "try":
                    I2.exec_block(st.body[:j], fr)
            except _Return:
                raise Raised(B.mkexc("RuntimeError", "generator didn't yield"))
            val = I2.ev(ys.value.value, fr) if ys.value.value is not None else None
            if isinstance(ys, _ast.Assign):
                for tg in ys.targets:
                    I2.assign(tg, None, fr)
            return val

        def exit_(I2, s_, t, e, tb):
            try:
                if shape == "plain":
                    if e is not None:
                        return False
                    I2.exec_block(body[i + 1:], fr)
                    return False
                if e is not None:
                    fr.locals["__verif_cm_exc"] = e
                    inner = [_ast.Raise(exc=_ast.Name(id="__verif_cm_exc", ctx=_ast.Load()), cause=None)]
                    orelse = []
                else:
                    inner, orelse = list(st.body[j + 1:]) or [_ast.Pass()], list(st.orelse)
                new = _ast.Try(body=inner, handlers=list(st.handlers), orelse=orelse, finalbody=list(st.finalbody))
                _ast.copy_location(new, st)
                _ast.fix_missing_locations(new)
                try:
                    I2.exec_block([new] + list(body[i + 1:]), fr)
                except Raised as r:
                    if e is not None and r.exc is e:
                        return False
                    raise
                return e is not None
            except _Return:
                return e is not None and shape == "try"

        cm.methods["__enter__"] = enter
        cm.methods["__exit__"] = exit_
        return cm
    return Builtin("contextmanager(" + f.name + ")", make, cls=B.OBJECT)     # binds like a function when it is a class attribute


def _singledispatch(B, I, func):
    """functools.singledispatch: the implementation registered for the nearest class along the MRO of type(args[0])."""
    reg = []
    d = ExtV("functools.singledispatch(" + getattr(func, "name", "?") + ")")
    d.methods["__strict__"] = True

    def call(I_, s_, *a, **k):
        if not a:
            raise Raised(B.mkexc("TypeError", "singledispatch function requires at least 1 positional argument"))
        for c in B.typeof(a[0]).mro:
            for k_, impl in reg:
                if k_ is c:
                    return I_.call(impl, list(a), k)
        return I_.call(func, list(a), k)

    def register(I_, s_, cls, impl=None):
        if not isinstance(cls, ClassV):
            raise Unknown("singledispatch.register with an annotated function")
        if impl is None:
            return Builtin("singledispatch.register(" + cls.name + ")", lambda I2, f2: (reg.append((cls, f2)), f2)[1])
        reg.append((cls, impl))
        return impl

    def dispatch(I_, s_, cls):
        for c in cls.mro:
            for k_, impl in reg:
                if k_ is c:
                    return impl
        return func
    d.methods["__call__"] = call
    d.methods["register"] = register
    d.methods["dispatch"] = dispatch
    return d


def _weak_key_dict(B, I, *a, **k):
    """weakref.WeakKeyDictionary: a dictionary whose entries vanish once their key is unreachable elsewhere (H.gc_step sweeps them)"""
    d = B.b_dict(I, *a, **k)
    d.weak = "keys"
    return d


def _weak_value_dict(B, I, *a, **k):
    d = B.b_dict(I, *a, **k)
    d.weak = "values"
    return d


def _weak_set(B, I, *a):
    s_ = B.b_set(I, *a)
    s_.weak = "items"
    return s_


def _make_lru(unbounded):
    def _lru_cache(B, I, *a, **k):
        """functools.cache / lru_cache: real memoisation on the abstract arguments (so stale answers are visible to the checks), with the
        real eviction: least recently used first once `maxsize` entries are held (128 unless given; None = unbounded; functools.cache is
        unbounded).  The memo is interpreter state: World.restore() puts it back to what it held when the snapshot was taken."""
        maxsize = None if unbounded else 128
        direct = len(a) == 1 and not k and isinstance(a[0], (Func, Bound, Builtin))
        if not direct and not unbounded:
            ms = a[0] if a else k.get("maxsize", 128)
            if ms is not None and not (isinstance(ms, int) and not isinstance(ms, bool)):
                raise Unknown("lru_cache(maxsize=) is not a concrete integer")
            maxsize = ms

        def wrap(f):
            memo = []
            regs = getattr(I.w, "lru_memos", None)
            if regs is None:
                regs = I.w.lru_memos = []
            regs.append(memo)

            def cached(I_, *args, **kw):
                key = Seq(list(args) + [Seq([kk, vv], "tuple") for kk, vv in sorted(kw.items())], "tuple")
                B.check_hashable(key)
                if maxsize == 0:
                    return I_.call(f, list(args), kw)
                for i_, (kk, vv) in enumerate(memo):
                    if I_.heq(kk, key):
                        memo.append(memo.pop(i_))       # most recently used
                        return vv
                v = I_.call(f, list(args), kw)
                memo.append((key, v))
                if maxsize is not None and len(memo) > maxsize:
                    del memo[0]
                return v
            bi = Builtin("lru_cache(" + getattr(f, "name", "?") + ")", cached)
            return bi
        if direct:
            return wrap(a[0])
        return Builtin("lru_cache-decorator", lambda I_, f: wrap(f))
    return _lru_cache


def _partial(B, I, f, *a, **k):
    return Builtin("partial", lambda I_, *b, **k2: I_.call(f, list(a) + list(b), {**k, **k2}))


def _islice(B, I, it, *a):
    if not all(isinstance(x, int) or x is None for x in a):
        raise Unknown("islice bounds")
    sl = slice(*a)
    if isinstance(it, (IterV, GenV)) and sl.stop is not None:
        # an iterator is consumed only as far as the slice reaches: a second islice() over the same iterator continues from there
        start, stop, step = sl.start or 0, sl.stop, sl.step or 1
        out, idx, nxt = [], 0, start
        while idx < stop:
            try:
                x = B.f_next(I, it)
            except Raised as r:
                if r.exc.cls.name == "StopIteration":
                    break
                raise
            if idx == nxt:
                out.append(x)
                nxt += step
            idx += 1
        return IterV(out)
    items = I.iterate(it)
    return IterV(items[sl])


def _attrgetter(B, I, name, *more):
    if more or not isinstance(name, str):
        raise Unknown("operator.attrgetter with several / symbolic names")

    def get(I_, o):
        for part in name.split("."):        # a dotted name is walked attribute by attribute
            o = I_.getattr(o, part)
        return o
    return Builtin("attrgetter", get)


def _itemgetter(B, I, k):
    return Builtin("itemgetter", lambda I_, o: I_.getitem(o, k))


def _op(name):
    import ast as _ast

    def run(B, I, *a):
        if name == "is_":
            return I.identical(a[0], a[1])
        if name == "is_not":
            return not I.identical(a[0], a[1])
        if name == "eq":
            return I.eq(a[0], a[1])
        if name == "ne":
            return not I.eq(a[0], a[1])
        if name == "not_":
            return not I.truth(a[0])
        if name == "truth":
            return I.truth(a[0])
        if name == "contains":
            return I.contains(a[0], a[1])
        if name == "getitem":
            return I.getitem(a[0], a[1])
        if name == "setitem":
            return I.setitem(a[0], a[1], a[2])
        if name == "delitem":
            return I.delitem(a[0], a[1])
        if name == "index":
            if isinstance(a[0], int):
                return int(a[0])
            raise Unknown("operator.index of a non-int")
        ops = {"lt": _ast.Lt, "le": _ast.LtE, "gt": _ast.Gt, "ge": _ast.GtE}
        if name in ops:
            return B.order(I, ops[name](), a[0], a[1])
        bins = {"add": _ast.Add, "sub": _ast.Sub, "mul": _ast.Mult, "or_": _ast.BitOr, "and_": _ast.BitAnd}
        if name in bins:
            return B.binop(I, bins[name](), a[0], a[1])
        raise Unknown("operator." + name)
    return run


def _ordered_dict(B, I, *a, **k):
    return B.b_dict(I, *a, **k)


_PARAM_KINDS = {"POSITIONAL_ONLY": 0, "POSITIONAL_OR_KEYWORD": 1, "VAR_POSITIONAL": 2, "KEYWORD_ONLY": 3, "VAR_KEYWORD": 4}
_PARAM_EMPTY = Tok(7001, "inspect.Parameter.empty")


def _param_class(B):
    key = "extobj:inspect.Parameter"
    if key not in B.ext_mods:
        B.ext_mods[key] = ExtV("inspect.Parameter", attrs=dict(_PARAM_KINDS, empty=_PARAM_EMPTY))
    return B.ext_mods[key]


def _inspect_signature(B, I, f, **kw):
    """inspect.signature of an interpreted function / lambda / bound method / callable object; a scripted harness callable is
    `(*args, **kwargs)`; anything else has no modelled signature"""
    drop = 0
    if isinstance(f, Bound):
        f, drop = f.func, 1
    if isinstance(f, Obj):
        c, owner = f.cls.lookup("__call__")
        if c is None or not isinstance(c, Func):
            raise Raised(B.mkexc("TypeError", "object is not callable"))
        f, drop = c, 1
    params = []

    def add(name, kind, default=_PARAM_EMPTY):
        params.append(ExtV("inspect.Parameter", attrs=dict(_PARAM_KINDS, empty=_PARAM_EMPTY, name=name, kind=_PARAM_KINDS[kind], default=default, annotation=_PARAM_EMPTY)))
    if isinstance(f, Callback):
        add("args", "VAR_POSITIONAL")
        add("kwargs", "VAR_KEYWORD")
    elif isinstance(f, Func):
        a = f.node.args
        pos = list(a.posonlyargs) + list(a.args)
        nd = len(f.defaults)
        for i, p_ in enumerate(pos):
            d = f.defaults[i - (len(pos) - nd)] if i >= len(pos) - nd else _PARAM_EMPTY
            add(p_.arg, "POSITIONAL_ONLY" if i < len(a.posonlyargs) else "POSITIONAL_OR_KEYWORD", d)
        if a.vararg:
            add(a.vararg.arg, "VAR_POSITIONAL")
        for p_ in a.kwonlyargs:
            add(p_.arg, "KEYWORD_ONLY", f.kwdefaults.get(p_.arg, _PARAM_EMPTY))
        if a.kwarg:
            add(a.kwarg.arg, "VAR_KEYWORD")
        params = params[drop:] if drop and params and params[0].attrs["kind"] in (0, 1) else params
    else:
        raise Unknown("inspect.signature of a callable that is not modelled")
    return ExtV("inspect.Signature", attrs={"parameters": DictV([[p_.attrs["name"], p_] for p_ in params]), "return_annotation": _PARAM_EMPTY, "empty": _PARAM_EMPTY})


def _warnings_warn(B, I, message=None, category=None, stacklevel=1, source=None, **kw):
    """warnings.warn: nothing observable under the default filters (the text goes to stderr); under `-W error` the category is raised"""
    from . import ae as _ae
    if not _ae.WARNINGS_AS_ERRORS:
        return None
    if isinstance(message, Obj) and message.cls.issub(B.EXC["Warning"]):
        raise Raised(message)
    cat = category if isinstance(category, ClassV) else B.EXC["UserWarning"]
    if not cat.issub(B.EXC["Warning"]):
        raise Raised(B.mkexc("TypeError", "category must be a Warning subclass"))
    raise Raised(I.call(cat, [message], {}))


_EXT_FUNCS = {
    "sys.getrecursionlimit": lambda B, I: 1000,       # CPython's default; the evaluator's own call-depth budget is a separate matter
    "warnings.warn": _warnings_warn,
    "inspect.signature": _inspect_signature,
    "uuid.uuid4": _uuid4,
    "json.dumps": _json_dumps,
    "copy.copy": _copy_copy,
    "copy.deepcopy": _deepcopy_ext,
    "random.randint": _rand("randint"), "random.random": _rand("random"), "random.choice": _rand("choice"),
    "random.sample": _rand("sample"), "random.shuffle": _rand("shuffle"), "random.uniform": _rand("uniform"),
    "random.randrange": _rand("randrange"), "random.choices": _rand("choices"),
    "functools.wraps": _wraps,
    "itertools.chain": _itertools_chain,
    "itertools.chain.from_iterable": _chain_from_iterable,
    "itertools.count": _count,
    "itertools.compress": _compress,
    "itertools.product": _product,
    "itertools.repeat": _repeat,
    "itertools.starmap": _starmap,
    "itertools.zip_longest": _zip_longest,
    "dataclasses.dataclass": _dataclass,
    "dataclasses.field": _dc_field,
    "re.compile": _re_compile,
    "collections.defaultdict": _defaultdict,
    "contextlib.suppress": _suppress,
    "contextlib.contextmanager": _contextmanager,
    "functools.singledispatch": _singledispatch,
    "weakref.WeakKeyDictionary": _weak_key_dict,
    "weakref.WeakValueDictionary": _weak_value_dict,
    "weakref.WeakSet": _weak_set,
    "functools.lru_cache": _make_lru(False),
    "functools.cache": _make_lru(True),
    "functools.partial": _partial,
    "itertools.islice": _islice,
    "operator.attrgetter": _attrgetter,
    **{"operator." + n_: _op(n_) for n_ in ("is_", "is_not", "eq", "ne", "not_", "truth", "contains", "getitem", "setitem", "delitem", "index", "lt", "le", "gt", "ge", "add", "sub", "mul", "or_", "and_")},
    "operator.itemgetter": _itemgetter,
    "collections.OrderedDict": _ordered_dict,
}
