"""Source provider: reads /repo's working tree (never HEAD, never a cache) with an
optional in-memory overlay {relative path: source text}.  Controls and the checker
self-test use the overlay, so no scratch copy of the repository is written to disk."""
from __future__ import annotations
import ast
import hashlib
import os
import pathlib

REPO = pathlib.Path(os.environ.get("EDGEGRAPH_REPO", "/repo"))
PKG = "edgegraph"


class SourceError(Exception):
    """A module is missing or does not parse: analysis cannot proceed (exit 2)."""


class Source:
    def __init__(self, root: pathlib.Path | str | None = None, overlay: dict[str, str] | None = None):
        self.root = pathlib.Path(root) if root else REPO
        self.overlay = dict(overlay or {})
        self._text: dict[str, str] = {}
        self._tree: dict[str, ast.Module] = {}

    def with_overlay(self, overlay: dict[str, str]) -> "Source":
        o = dict(self.overlay)
        o.update(overlay)
        return Source(self.root, o)

    # -- files
    def relpaths(self) -> list[str]:
        out = set()
        base = self.root / PKG
        for p in base.rglob("*.py"):
            out.add(str(p.relative_to(self.root)))
        for k in self.overlay:
            if k.startswith(PKG + "/"):
                out.add(k)
        return sorted(out)

    def exists(self, rel: str) -> bool:
        return rel in self.overlay or (self.root / rel).is_file()

    def text(self, rel: str) -> str:
        if rel not in self._text:
            if rel in self.overlay:
                self._text[rel] = self.overlay[rel]
            else:
                p = self.root / rel
                if not p.is_file():
                    raise SourceError(f"missing source file {rel}")
                self._text[rel] = p.read_text(encoding="utf-8")
        return self._text[rel]

    def tree(self, rel: str) -> ast.Module:
        if rel not in self._tree:
            try:
                self._tree[rel] = ast.parse(self.text(rel), filename=rel)
            except SyntaxError as e:
                raise SourceError(f"{rel} does not parse: {e}") from e
        return self._tree[rel]

    # -- modules
    def modname(self, rel: str) -> str:
        parts = rel[:-3].split("/")
        if parts[-1] == "__init__":
            parts = parts[:-1]
        return ".".join(parts)

    def relpath_of(self, modname: str) -> str | None:
        rel = modname.replace(".", "/")
        if self.exists(rel + ".py"):
            return rel + ".py"
        if self.exists(rel + "/__init__.py"):
            return rel + "/__init__.py"
        return None

    def is_pkg(self, modname: str) -> bool:
        return self.exists(modname.replace(".", "/") + "/__init__.py")

    def digest(self, rels: list[str] | None = None) -> str:
        h = hashlib.sha256()
        for r in sorted(rels or self.relpaths()):
            h.update(r.encode())
            h.update(self.text(r).encode())
        return h.hexdigest()[:16]
