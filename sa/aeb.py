"""Models of built-ins, container methods, strings and external modules for AE."""
from __future__ import annotations
import ast

from .ae import (
    Unknown, Raised, UndecidedCond, ClassV, Func, Prop, ClassMethod, StaticMethod, Bound, Builtin, Callback, Obj, Seg, Seq,
    SetV, DictV, ProxyV, IterV, GenV, ModuleV, ExtV, Opaque, Digest, Tok, SAtom, SymStr, mkstr, SuperV, Poison, MISSING,
    keq,
)

_EXC_TREE = [
    ("BaseException", None), ("Exception", "BaseException"), ("KeyboardInterrupt", "BaseException"),
    ("SystemExit", "BaseException"), ("GeneratorExit", "BaseException"),
    ("ArithmeticError", "Exception"), ("ZeroDivisionError", "ArithmeticError"), ("OverflowError", "ArithmeticError"),
    ("LookupError", "Exception"), ("IndexError", "LookupError"), ("KeyError", "LookupError"),
    ("ValueError", "Exception"), ("TypeError", "Exception"), ("AttributeError", "Exception"), ("NameError", "Exception"),
    ("RuntimeError", "Exception"), ("NotImplementedError", "RuntimeError"), ("RecursionError", "RuntimeError"),
    ("AssertionError", "Exception"), ("StopIteration", "Exception"), ("ImportError", "Exception"),
    ("ModuleNotFoundError", "ImportError"), ("OSError", "Exception"), ("FileNotFoundError", "OSError"),
    ("UnicodeError", "ValueError"), ("Warning", "Exception"), ("DeprecationWarning", "Warning"), ("UserWarning", "Warning"),
    ("RuntimeWarning", "Warning"), ("FutureWarning", "Warning"), ("PendingDeprecationWarning", "Warning"), ("SyntaxWarning", "Warning"), ("ImportWarning", "Warning"),
    ("UnicodeWarning", "Warning"), ("BytesWarning", "Warning"), ("ResourceWarning", "Warning"), ("EncodingWarning", "Warning"),
    ("EOFError", "Exception"), ("MemoryError", "Exception"), ("BufferError", "Exception"),
]


class Builtins:
    def __init__(self, world):
        self.w = world
        self.OBJECT = ClassV("object", [], None, builtin=True)
        self.TYPE = ClassV("type", [self.OBJECT], None, builtin=True)
        self.ANON = ClassV("Anon", [self.OBJECT], None, builtin=True)
        self.EXC = {}
        self.names = {}
        self.types = {}
        self.ext_mods = {}
        self._setup_types()
        self._setup_exc()
        self._setup_names()

    # ------------------------------------------------------------------ exceptions
    def _setup_exc(self):
        def construct(I, cls, *args, **kw):
            o = Obj(cls)
            o.fields["args"] = Seq(list(args), "tuple")
            o.fields["msg"] = args[0] if args else ""
            return o

        for n, b in _EXC_TREE:
            c = ClassV(n, [self.EXC[b]] if b else [self.OBJECT], None, builtin=True)
            self.EXC[n] = c
            self.names[n] = c
        self.EXC["BaseException"].dict["__construct__"] = Builtin("BaseException.__new__", construct)
        self.EXC["BaseException"].dict["__init__"] = Builtin("BaseException.__init__", lambda I, *a, **k: None)
        self.names["IOError"] = self.EXC["OSError"]
        self.names["EnvironmentError"] = self.EXC["OSError"]

    def mkexc(self, name, msg=""):
        o = Obj(self.EXC[name])
        o.fields["args"] = Seq([msg], "tuple")
        o.fields["msg"] = msg
        return o

    def b_bytearray(self, I, *a, **k):
        """bytearray(), bytearray(bytes-like), bytearray(n): a mutable byte buffer (a host bytearray)"""
        if k or len(a) > 1:
            raise Unknown("bytearray() with an encoding")
        if not a:
            return bytearray()
        x = a[0]
        if isinstance(x, (bytes, bytearray)):
            return bytearray(x)
        if isinstance(x, int) and not isinstance(x, bool) and x >= 0:
            return bytearray(x)
        raise Unknown("bytearray() of a value that is not modelled as a buffer")

    def b_bytes(self, I, *a, **k):
        """bytes(), bytes(b"..."), bytes(n), bytes(iterable of small ints); anything else (buffers, encodings) is not modelled"""
        if k or len(a) > 1:
            raise Unknown("bytes() with an encoding")
        if not a:
            return b""
        x = a[0]
        if isinstance(x, bytes):
            return x
        if isinstance(x, bytearray):
            return bytes(x)
        if isinstance(x, bool):
            raise Unknown("bytes(bool)")
        if isinstance(x, int):
            if x < 0:
                raise Raised(self.mkexc("ValueError", "negative count"))
            return bytes(x)
        if isinstance(x, str):
            raise Raised(self.mkexc("TypeError", "string argument without an encoding"))
        if isinstance(x, Seq) and not x.has_seg() and all(isinstance(i, int) and not isinstance(i, bool) for i in x.items):
            try:
                return bytes(x.items)
            except ValueError as e:
                raise Raised(self.mkexc("ValueError", str(e)))
        raise Unknown("bytes() of a value that is not modelled as a buffer")

    # ------------------------------------------------------------------ type objects
    def _setup_types(self):
        def mk(name, ctor=None, bases=None):
            c = ClassV(name, bases or [self.OBJECT], None, builtin=True)
            if ctor:
                c.dict["__construct__"] = Builtin(name, lambda I, cls, *a, _f=ctor, **k: _f(I, *a, **k))
            self.types[name] = c
            return c

        mk("NoneType")
        mk("int", self.b_int)
        mk("bool", self.b_bool, [self.types["int"]])
        mk("float", self.b_float)
        mk("str", self.b_str)
        mk("bytes", self.b_bytes)
        mk("bytearray", self.b_bytearray)
        mk("list", self.b_list)
        mk("tuple", self.b_tuple)
        mk("set", self.b_set)
        mk("frozenset", self.b_frozenset)
        mk("dict", self.b_dict)
        mk("function")
        mk("method")
        mk("builtin_function_or_method")
        mk("module")
        mk("generator")
        mk("deque", self.b_deque)
        mk("mappingproxy", self.b_mappingproxy)
        mk("property", self.b_property)
        mk("classmethod", lambda I, f: ClassMethod(f))
        mk("staticmethod", lambda I, f: StaticMethod(f))
        mk("range", self.b_range)
        mk("NotImplementedType")
        mk("ext")
        mk("Pattern")
        self.NOTIMPL = Obj(self.types["NotImplementedType"], "NotImplemented")

        def type_construct(I, cls, *a, **k):
            if len(a) == 1 and not k:
                return self.typeof(a[0])
            if len(a) == 3:
                name, bases, ns = a
                c = ClassV(name, list(I.iterate(bases)) or [self.OBJECT], None, None, meta=(cls if cls is not self.TYPE else None))
                for kk, vv in self.dict_pairs(I, ns):
                    c.dict[kk] = vv
                return c
            raise Raised(self.mkexc("TypeError", "type() takes 1 or 3 arguments"))

        self.TYPE.dict["__construct__"] = Builtin("type", type_construct)
        self.TYPE.dict["__call__"] = Builtin("type.__call__", lambda I, cls, *a, **k: I.default_construct(cls, list(a), k), cls=self.TYPE)
        self.TYPE.dict["mro"] = Builtin("type.mro", lambda I, cls: Seq(cls.mro, "list"), cls=self.TYPE)
        self.TYPE.dict["__subclasses__"] = Builtin("type.__subclasses__", self._subclasses, cls=self.TYPE)
        self.OBJECT.dict["__init__"] = Builtin("object.__init__", lambda I, *a, **k: None, cls=self.OBJECT)
        self.OBJECT.dict["__new__"] = StaticMethod(Builtin("object.__new__", self._object_new))
        self.OBJECT.dict["__setattr__"] = Builtin("object.__setattr__", self._object_setattr, cls=self.OBJECT)
        self.OBJECT.dict["__getattribute__"] = Builtin("object.__getattribute__", lambda I, o, n: I.getattr(o, n), cls=self.OBJECT)
        self.OBJECT.dict["__delattr__"] = Builtin("object.__delattr__", lambda I, o, n: I.delattr(o, n), cls=self.OBJECT)
        # identity hash / equality of object: reachable as `Cls.__hash__` (e.g. `__hash__ = Base.__hash__` next to a new __eq__)
        self.OBJECT.dict["__hash__"] = Builtin("object.__hash__", lambda I, o: Digest(o), cls=self.OBJECT)
        self.OBJECT.dict["__eq__"] = Builtin("object.__eq__", lambda I, a, b: True if a is b else self.NOTIMPL, cls=self.OBJECT)
        self.OBJECT.dict["__ne__"] = Builtin("object.__ne__", lambda I, a, b: False if a is b else self.NOTIMPL, cls=self.OBJECT)
        self.types["object"] = self.OBJECT
        self.types["type"] = self.TYPE

    def _subclasses(self, I, cls):
        raise Unknown("__subclasses__")

    def _object_new(self, I, cls, *a, **k):
        o = Obj(cls)
        I.w.alloc.append(o)
        o.name = f"new{len(I.w.alloc)}:{cls.name}"
        return o

    def _object_setattr(self, I, o, n, v):
        if isinstance(o, Obj):
            d, _ = o.cls.lookup(n)
            if isinstance(d, Prop):
                if d.fset is None:
                    raise Raised(self.mkexc("AttributeError", f"property {n!r} has no setter"))
                return I.call(d.fset, [o, v], {})
            o.fields[n] = v
            return None
        return I.setattr(o, n, v)

    def typeof(self, v):
        T = self.types
        if getattr(v, "ucls", None) is not None:
            return v.ucls
        if type(v).__name__ == "EnumInt":
            return v.enum_cls
        if isinstance(v, Obj):
            return v.cls
        if isinstance(v, ClassV):
            return v.meta or self.TYPE
        if v is None:
            return T["NoneType"]
        if isinstance(v, bool):
            return T["bool"]
        if isinstance(v, int):
            return T["int"]
        if isinstance(v, float):
            return T["float"]
        if isinstance(v, (str, SymStr)):
            return T["str"]
        if isinstance(v, bytes):
            return T["bytes"]
        if isinstance(v, bytearray):
            return T["bytearray"]
        if isinstance(v, Seq):
            return T[v.kind]
        if isinstance(v, SetV):
            return T["frozenset" if v.frozen else "set"]
        if isinstance(v, DictV):
            return T["dict"]
        if isinstance(v, ProxyV):
            return T["mappingproxy"]
        if isinstance(v, (Func, Callback)):
            return T["function"]
        if isinstance(v, Bound):
            return T["method"]
        if isinstance(v, Builtin):
            return T["builtin_function_or_method"]
        if isinstance(v, ModuleV):
            return T["module"]
        if isinstance(v, (GenV, IterV)):
            return T["generator"]
        if isinstance(v, Prop):
            return T["property"]
        if isinstance(v, ExtV):
            c = v.attrs.get("__class__")
            return c if isinstance(c, ClassV) else T["ext"]
        if isinstance(v, Tok):
            return T["object"]
        if isinstance(v, (Opaque, Digest)):
            return T["int"]
        raise Unknown("type of " + repr(v))

    def typename(self, v):
        try:
            return self.typeof(v).name
        except Unknown:
            return "?"

    # ------------------------------------------------------------------ names
    def _setup_names(self):
        N = self.names
        for n in ("int", "bool", "float", "str", "bytes", "bytearray", "list", "tuple", "set", "frozenset", "dict", "object", "type",
                  "property", "classmethod", "staticmethod", "range"):
            N[n] = self.types[n]
        N["NotImplemented"] = self.NOTIMPL
        N["Ellipsis"] = Ellipsis
        N["__debug__"] = True
        for n in dir(self):
            if n.startswith("f_"):
                N[n[2:]] = Builtin(n[2:], getattr(self, n))

    # ---- constructors of built-in types
    def b_int(self, I, x=0, base=None):
        if isinstance(x, bool):
            return int(x)
        if isinstance(x, (int, float)):
            return int(x)
        if isinstance(x, str):
            try:
                return int(x, base) if base is not None else int(x)
            except ValueError:
                raise Raised(self.mkexc("ValueError", "invalid literal for int()"))
        if isinstance(x, (Opaque, Digest)):
            return Opaque(f"int({x.tag if isinstance(x, Opaque) else 'hash'})")
        if isinstance(x, Obj):
            d, _ = x.cls.lookup("__int__")
            if d is not None:
                return I.call(d, [x], {})
        raise Raised(self.mkexc("TypeError", "int() argument"))

    def b_bool(self, I, x=False):
        return I.truth(x)

    def b_float(self, I, x=0.0):
        if isinstance(x, (int, float)):
            return float(x)
        if isinstance(x, Opaque):
            return x
        if isinstance(x, str):
            try:
                return float(x)
            except ValueError as e:
                raise Raised(self.mkexc("ValueError", str(e)))
        raise Unknown("float()")

    def b_str(self, I, x=""):
        return mkstr([self.to_str(I, x)])

    def b_list(self, I, x=None):
        if x is None:
            return Seq([], "list")
        if isinstance(x, Seq):
            return Seq(list(x.items), "list")  # copying keeps opaque segments
        return Seq(self._iter_partial(I, x), "list")

    def b_tuple(self, I, x=None):
        if x is None:
            return Seq([], "tuple")
        if isinstance(x, Seq):
            if x.kind == "tuple":
                return x
            return Seq(list(x.items), "tuple")
        return Seq(self._iter_partial(I, x), "tuple")

    def _iter_partial(self, I, x):
        return I.iterate(x)

    def _set_source(self, I, x):
        """elements of the argument of set() / frozenset(): a set argument is copied without committing to an iteration order"""
        return list(x.items) if isinstance(x, SetV) and not x.opaque and getattr(x, "ucls", None) is None else I.iterate(x)

    def b_set(self, I, x=None):
        return SetV(self._uniq(I, self._set_source(I, x)) if x is not None else [])

    def b_frozenset(self, I, x=None):
        s = SetV(self._uniq(I, self._set_source(I, x)) if x is not None else [])
        s.frozen = True
        return s

    def _uniq(self, I, items):
        out = []
        for x in items:
            self.check_hashable(x)
            if not any(y is x or I.heq(y, x) for y in out):
                out.append(x)
        return out

    def check_hashable(self, x):
        if isinstance(x, (DictV, SetV)) and not getattr(x, "frozen", False) or isinstance(x, Seq) and x.kind != "tuple":
            raise Raised(self.mkexc("TypeError", f"unhashable type: {self.typename(x)!r}"))
        if isinstance(x, Seq):
            for i in x.items:
                if type(i) is not Seg:
                    self.check_hashable(i)
        if isinstance(x, Obj):
            # a class that defines __eq__ without __hash__ has __hash__ = None
            for c in x.cls.mro:
                if c.builtin:
                    break
                if "__hash__" in c.dict:
                    if c.dict["__hash__"] is None:
                        raise Raised(self.mkexc("TypeError", f"unhashable type: {x.cls.name!r}"))
                    break
                if "__eq__" in c.dict:
                    raise Raised(self.mkexc("TypeError", f"unhashable type: {x.cls.name!r}"))

    def b_dict(self, I, x=None, **kw):
        d = DictV()
        if x is not None:
            for k, v in self.dict_pairs(I, x):
                self.dict_set(I, d, k, v)
        for k, v in kw.items():
            self.dict_set(I, d, k, v)
        return d

    def b_deque(self, I, x=None, maxlen=None):
        if maxlen is not None:
            raise Unknown("deque(maxlen=)")
        if x is None:
            return Seq([], "deque")
        if isinstance(x, Seq):
            return Seq(list(x.items), "deque")
        return Seq(I.iterate(x), "deque")

    def b_mappingproxy(self, I, d):
        if isinstance(d, (DictV, ProxyV)):
            return ProxyV(d)
        if isinstance(d, Obj):
            raise Raised(self.mkexc("TypeError", "mappingproxy() argument must be a mapping"))
        raise Raised(self.mkexc("TypeError", "mappingproxy() argument must be a mapping, not " + self.typename(d)))

    def b_property(self, I, fget=None, fset=None, fdel=None, doc=None):
        return Prop(fget, fset, fdel)

    def b_range(self, I, *a):
        if all(isinstance(x, int) for x in a):
            r = range(*a)
            if len(r) > 2000:
                raise Unknown("range too long")
            return Seq(list(r), "tuple")
        raise Unknown("range over opaque bound")

    # ------------------------------------------------------------------ dict helpers
    def dict_pairs(self, I, x):
        if isinstance(x, DictV):
            return [(k, v) for k, v in x.pairs]
        if isinstance(x, ProxyV):
            return self.dict_pairs(I, x.d)
        if isinstance(x, Obj):
            keys, _ = x.cls.lookup("keys")
            if keys is not None:
                return [(k, I.getitem(x, k)) for k in I.iterate(I.call(keys, [x], {}))]
        if x is None or isinstance(x, (int, float, bool)):
            raise Raised(self.mkexc("TypeError", f"{self.typename(x)!r} object is not a mapping"))
        if isinstance(x, (Seq, IterV, GenV, SetV)):
            out = []
            for it in I.iterate(x):
                kv = I.iterate(it)
                if len(kv) != 2:
                    raise Raised(self.mkexc("ValueError", "dictionary update sequence element has wrong length"))
                out.append((kv[0], kv[1]))
            return out
        if isinstance(x, str):
            if x == "":
                return []
            raise Raised(self.mkexc("ValueError", "dictionary update sequence element has length 1; 2 is required"))
        raise Unknown("mapping " + repr(x))

    def dict_find(self, I, d, k):
        self.check_hashable(k)
        for i, (kk, _) in enumerate(d.pairs):
            if kk is k or I.heq(kk, k):
                return i
        return -1

    def dict_set(self, I, d, k, v):
        i = self.dict_find(I, d, k)
        if i >= 0:
            d.pairs[i][1] = v
        else:
            d.pairs.append([k, v])

    def obj_dict(self, o):
        from .ae import live_dict
        return live_dict(o)

    # ------------------------------------------------------------------ str / repr
    def to_str(self, I, x):
        if isinstance(x, (str, SymStr)):
            return x
        if x is None or isinstance(x, (bool, int, float)):
            return str(x)
        if isinstance(x, Obj):
            for meth in ("__str__", "__repr__"):
                d, owner = x.cls.lookup(meth)
                if d is not None and not owner.builtin:
                    return I.call(d, [x], {})
            if x.cls.issub(self.EXC["BaseException"]):
                return self.to_str(I, x.fields.get("msg", ""))
            return SAtom("Repr", x)
        if isinstance(x, ClassV):
            return f"<class '{x.qual}'>"
        return self.to_repr(I, x)

    def to_repr(self, I, x):
        if isinstance(x, str):
            return repr(x)
        if x is None or isinstance(x, (bool, int, float)):
            return repr(x)
        if isinstance(x, Obj):
            d, owner = x.cls.lookup("__repr__")
            if d is not None and not owner.builtin:
                return I.call(d, [x], {})
            return SAtom("Repr", x)
        if isinstance(x, ClassV):
            return f"<class '{x.qual}'>"
        if isinstance(x, Seq) and not x.has_seg():
            parts = []
            op, cl = {"list": ("[", "]"), "tuple": ("(", ")"), "deque": ("deque([", "])")}[x.kind]
            parts.append(op)
            for i, it in enumerate(x.items):
                if i:
                    parts.append(", ")
                parts.append(self.to_repr(I, it))
            if x.kind == "tuple" and len(x.items) == 1:
                parts.append(",")
            parts.append(cl)
            return mkstr(parts)
        return SAtom("Repr", x)

    # ------------------------------------------------------------------ arithmetic / ordering
    def binop(self, I, op, a, b, inplace=False):
        T = type(op)
        num = lambda v: isinstance(v, (int, float)) and not isinstance(v, Seq)
        if num(a) and num(b):
            try:
                if T is ast.Add:
                    return a + b
                if T is ast.Sub:
                    return a - b
                if T is ast.Mult:
                    return a * b
                if T is ast.Div:
                    return a / b
                if T is ast.FloorDiv:
                    return a // b
                if T is ast.Mod:
                    return a % b
                if T is ast.Pow:
                    return a ** b
                if isinstance(a, int) and isinstance(b, int):
                    if T is ast.BitOr:
                        return a | b
                    if T is ast.BitAnd:
                        return a & b
                    if T is ast.BitXor:
                        return a ^ b
                    if T is ast.LShift:
                        return a << b
                    if T is ast.RShift:
                        return a >> b
            except ZeroDivisionError:
                raise Raised(self.mkexc("ZeroDivisionError", "division by zero"))
        if isinstance(a, (Opaque,)) and (num(b) or isinstance(b, Opaque)) or isinstance(b, Opaque) and num(a):
            if T in (ast.Div, ast.FloorDiv, ast.Mod) and num(b) and b == 0:
                raise Raised(self.mkexc("ZeroDivisionError", "division by zero"))
            return Opaque(f"({getattr(a, 'tag', a)}{T.__name__}{getattr(b, 'tag', b)})")
        if isinstance(a, (str, SymStr)) and isinstance(b, (str, SymStr)) and T is ast.Add:
            return mkstr([a, b])
        if isinstance(a, bytes) and isinstance(b, bytes) and T is ast.Add:
            return a + b
        if isinstance(a, bytearray) and isinstance(b, (bytes, bytearray)) and T is ast.Add:
            if inplace:
                a.extend(b)         # += on a bytearray changes the object every alias sees
                return a
            return a + b
        if isinstance(a, bytes) and isinstance(b, bytearray) and T is ast.Add:
            return a + bytes(b)
        if isinstance(a, bytes) and isinstance(b, int) and not isinstance(b, bool) and T is ast.Mult:
            return a * b
        if isinstance(a, int) and not isinstance(a, bool) and isinstance(b, bytes) and T is ast.Mult:
            return a * b
        if isinstance(a, str) and isinstance(b, int) and T is ast.Mult:
            return a * b
        if isinstance(a, str) and T is ast.Mod:
            args = tuple(b.items) if isinstance(b, Seq) and b.kind == "tuple" and not b.has_seg() else b
            flat = args if isinstance(args, tuple) else (args,)
            if all(isinstance(x, (int, float, str, bool)) or x is None for x in flat):
                try:
                    return a % args
                except (TypeError, ValueError) as e:
                    raise Raised(self.mkexc(type(e).__name__, str(e)))
        if isinstance(a, (str, SymStr)) and T is ast.Mod:
            return mkstr([SAtom("PercentFormat", a, b)])
        if isinstance(a, Seq) and isinstance(b, Seq) and T is ast.Add:
            if a.kind != b.kind and not inplace:
                raise Raised(self.mkexc("TypeError", "can only concatenate same sequence kinds"))
            if inplace and a.kind in ("list", "deque"):
                a.items.extend(b.items)
                return a
            return Seq(a.items + b.items, a.kind)
        if isinstance(a, Seq) and a.kind in ("list", "deque") and T is ast.Add and inplace:
            # list += iterable  (a str extends character by character)
            a.items.extend(I.iterate(b) if not isinstance(b, SymStr) else self._symstr_chars(b))
            return a
        if isinstance(a, Seq) and isinstance(b, int) and T is ast.Mult and not a.has_seg():
            return Seq(a.items * b, a.kind)
        if isinstance(a, SetV) and isinstance(b, SetV):
            if T is ast.BitOr:
                if inplace and not a.frozen:
                    for x in b.items:
                        if not any(y is x or I.heq(y, x) for y in a.items):
                            a.items.append(x)
                    return a
                return SetV(self._uniq(I, a.items + b.items), a.frozen)
            if T is ast.BitAnd:
                r = [x for x in a.items if any(y is x or I.heq(y, x) for y in b.items)]
            elif T is ast.Sub:
                r = [x for x in a.items if not any(y is x or I.heq(y, x) for y in b.items)]
            elif T is ast.BitXor:
                r = [x for x in a.items if not any(y is x or I.heq(y, x) for y in b.items)] + [x for x in b.items if not any(y is x or I.heq(y, x) for y in a.items)]
            else:
                raise Raised(self.mkexc("TypeError", "unsupported set operator"))
            if inplace and not a.frozen:
                a.items[:] = r
                return a
            return SetV(r, a.frozen)
        if isinstance(a, DictV) and isinstance(b, DictV) and T is ast.BitOr:
            d = a if inplace else DictV(a.pairs)
            for k, v in b.pairs:
                self.dict_set(I, d, k, v)
            return d
        if isinstance(a, Obj) or isinstance(b, Obj):
            nm = {ast.Add: "add", ast.Sub: "sub", ast.Mult: "mul", ast.BitOr: "or", ast.BitAnd: "and", ast.Div: "truediv"}.get(T)
            if nm and isinstance(a, Obj):
                for meth in ((f"__i{nm}__",) if inplace else ()) + (f"__{nm}__",):
                    d, _ = a.cls.lookup(meth)
                    if d is not None:
                        return I.call(d, [a, b], {})
            if nm and isinstance(b, Obj):
                d, _ = b.cls.lookup(f"__r{nm}__")
                if d is not None:
                    return I.call(d, [b, a], {})
        if isinstance(a, (Poison,)) or isinstance(b, Poison):
            raise Unknown("poison operand")
        if isinstance(a, (Digest, Tok)) or isinstance(b, (Digest, Tok)):
            raise Unknown("arithmetic on abstract token")
        if isinstance(a, ExtV) or isinstance(b, ExtV):
            raise Unknown(f"operator on an unmodelled external value ({a!r} {T.__name__} {b!r})")
        raise Raised(self.mkexc("TypeError", f"unsupported operand type(s) for {T.__name__}: {self.typename(a)!r} and {self.typename(b)!r}"))

    def _symstr_chars(self, s):
        out = []
        for p in s.parts:
            if isinstance(p, str):
                out.extend(p)
            else:
                out.append(SymStr([SAtom("CharsOf", p)]))
        return out

    def order(self, I, op, a, b):
        T = type(op)
        if isinstance(a, (int, float)) and isinstance(b, (int, float)) or isinstance(a, str) and isinstance(b, str):
            return {ast.Lt: a < b, ast.LtE: a <= b, ast.Gt: a > b, ast.GtE: a >= b}[T]
        if isinstance(a, Seq) and isinstance(b, Seq) and not a.has_seg() and not b.has_seg():
            for x, y in zip(a.items, b.items):
                if not I.eq(x, y):
                    return self.order(I, op, x, y)
            return {ast.Lt: len(a.items) < len(b.items), ast.LtE: len(a.items) <= len(b.items), ast.Gt: len(a.items) > len(b.items), ast.GtE: len(a.items) >= len(b.items)}[T]
        if isinstance(a, LenV) or isinstance(b, LenV):
            return LenV.compare(T, a, b)
        if isinstance(a, SetV) and isinstance(b, SetV):
            sub = all(any(y is x or I.heq(y, x) for y in b.items) for x in a.items)
            sup = all(any(y is x or I.heq(y, x) for y in a.items) for x in b.items)
            return {ast.Lt: sub and not sup, ast.LtE: sub, ast.Gt: sup and not sub, ast.GtE: sup}[T]
        if isinstance(a, Obj):
            nm = {ast.Lt: "__lt__", ast.LtE: "__le__", ast.Gt: "__gt__", ast.GtE: "__ge__"}[T]
            d, _ = a.cls.lookup(nm)
            if d is not None:
                return I.truth(I.call(d, [a, b], {}))
        if isinstance(a, (Opaque, Digest)) or isinstance(b, (Opaque, Digest)):
            raise Unknown("ordering of opaque scalars")
        raise Raised(self.mkexc("TypeError", f"ordering not supported between {self.typename(a)!r} and {self.typename(b)!r}"))

    # ------------------------------------------------------------------ items
    def _index(self, seq, k):
        """Resolve an int index on a sequence that may contain opaque segments."""
        items = seq.items
        if not isinstance(k, int) or isinstance(k, bool) and False:
            if isinstance(k, (Opaque, LenV)):
                raise Unknown("opaque index")
            raise Raised(self.mkexc("TypeError", "indices must be integers"))
        if k >= 0:
            pre = items[: k + 1]
            if any(type(x) is Seg for x in pre):
                raise Unknown("index crosses an opaque segment")
            if k >= len(items):
                if seq.has_seg():
                    raise Unknown("index crosses an opaque segment")
                raise Raised(self.mkexc("IndexError", f"{seq.kind} index out of range"))
            return k
        post = items[k:] if -k <= len(items) else items
        if any(type(x) is Seg for x in post):
            raise Unknown("index crosses an opaque segment")
        if -k > len(items):
            raise Raised(self.mkexc("IndexError", f"{seq.kind} index out of range"))
        return len(items) + k

    def getitem(self, I, c, k):
        if isinstance(c, Seq):
            if isinstance(k, slice):
                if c.has_seg():
                    if k == slice(None, None, None):
                        return Seq(list(c.items), c.kind)
                    raise Unknown("slice of a sequence with opaque segments")
                if not all(x is None or isinstance(x, int) for x in (k.start, k.stop, k.step)):
                    raise Unknown("opaque slice bound")
                if c.kind == "deque":
                    raise Raised(self.mkexc("TypeError", "sequence index must be integer, not 'slice'"))
                return Seq(c.items[k], c.kind)
            return c.items[self._index(c, k)]
        if isinstance(c, DictV):
            i = self.dict_find(I, c, k)
            if i < 0:
                fac = getattr(c, "factory", None)
                if fac is not None:
                    v = I.call(fac, [], {})
                    c.pairs.append([k, v])
                    return v
                raise Raised(self.mkexc("KeyError", k))
            return c.pairs[i][1]
        if isinstance(c, ProxyV):
            return self.getitem(I, c.d, k)
        if isinstance(c, Obj):
            d, _ = c.cls.lookup("__getitem__")
            if d is not None:
                return I.call(d, [c, k], {})
            raise Raised(self.mkexc("TypeError", f"{c.cls.name!r} object is not subscriptable"))
        if isinstance(c, str):
            if isinstance(k, slice):
                return c[k]
            if isinstance(k, int):
                try:
                    return c[k]
                except IndexError:
                    raise Raised(self.mkexc("IndexError", "string index out of range"))
            raise Unknown("string index")
        if isinstance(c, SymStr):
            return self.symstr_slice(c, k)
        if isinstance(c, ClassV):
            return c  # generic alias such as list[int]
        if c is None or isinstance(c, (int, float, bool, SetV)):
            raise Raised(self.mkexc("TypeError", f"{self.typename(c)!r} object is not subscriptable"))
        if isinstance(c, ExtV):
            return self.ext_call(I, I.getattr(c, "__getitem__"), [k], {})
        raise Unknown("subscript of " + repr(c))

    def symstr_slice(self, s, k):
        if not isinstance(k, slice) or k.step not in (None, 1):
            raise Unknown("index into symbolic string")
        parts = list(s.parts)
        lo, hi = k.start, k.stop
        if lo not in (None, 0):
            if isinstance(lo, int) and lo > 0 and isinstance(parts[0], str) and len(parts[0]) >= lo:
                parts[0] = parts[0][lo:]
            else:
                raise Unknown("slice start falls into an opaque string piece")
        if hi is not None:
            if isinstance(hi, int) and hi < 0 and isinstance(parts[-1], str) and len(parts[-1]) >= -hi:
                parts[-1] = parts[-1][:hi]
            else:
                raise Unknown("slice end falls into an opaque string piece")
        return mkstr(parts)

    def setitem(self, I, c, k, v):
        if isinstance(c, Seq):
            if c.kind == "tuple":
                raise Raised(self.mkexc("TypeError", "'tuple' object does not support item assignment"))
            if isinstance(k, slice):
                if c.has_seg():
                    if k == slice(None, None, None):
                        c.items[:] = v.items if isinstance(v, Seq) else I.iterate(v)
                        return
                    raise Unknown("slice store into opaque sequence")
                c.items[k] = v.items if isinstance(v, Seq) else I.iterate(v)
                return
            c.items[self._index(c, k)] = v
            return
        if isinstance(c, DictV):
            self.dict_set(I, c, k, v)
            return
        if isinstance(c, ProxyV):
            raise Raised(self.mkexc("TypeError", "'mappingproxy' object does not support item assignment"))
        if isinstance(c, Obj):
            d, _ = c.cls.lookup("__setitem__")
            if d is not None:
                I.call(d, [c, k, v], {})
                return
            raise Raised(self.mkexc("TypeError", f"{c.cls.name!r} object does not support item assignment"))
        if c is None or isinstance(c, (int, float, bool, str, SymStr, SetV)):
            raise Raised(self.mkexc("TypeError", f"{self.typename(c)!r} object does not support item assignment"))
        raise Unknown("item store on " + repr(c))

    def delitem(self, I, c, k):
        if isinstance(c, Seq):
            if c.kind == "tuple":
                raise Raised(self.mkexc("TypeError", "'tuple' object doesn't support item deletion"))
            if isinstance(k, slice):
                if c.has_seg():
                    raise Unknown("slice delete on opaque sequence")
                del c.items[k]
                return
            del c.items[self._index(c, k)]
            return
        if isinstance(c, DictV):
            i = self.dict_find(I, c, k)
            if i < 0:
                raise Raised(self.mkexc("KeyError", k))
            del c.pairs[i]
            return
        if isinstance(c, ProxyV):
            raise Raised(self.mkexc("TypeError", "'mappingproxy' object does not support item deletion"))
        if isinstance(c, Obj):
            d, _ = c.cls.lookup("__delitem__")
            if d is not None:
                I.call(d, [c, k], {})
                return
        raise Unknown("item delete on " + repr(c))


class LenV:
    """Length of a sequence with opaque segments: at least `lo`."""

    def __init__(self, lo):
        self.lo = lo

    def __repr__(self):
        return f"len>={self.lo}"

    @staticmethod
    def compare(T, a, b):
        if isinstance(a, LenV) and isinstance(b, int):
            if T in (ast.Gt,) and a.lo > b or T is ast.GtE and a.lo >= b:
                return True
            if T is ast.Lt and a.lo >= b or T is ast.LtE and a.lo > b:
                return False
        if isinstance(b, LenV) and isinstance(a, int):
            if T is ast.Lt and b.lo > a or T is ast.LtE and b.lo >= a:
                return True
            if T is ast.Gt and b.lo >= a or T is ast.GtE and b.lo > a:
                return False
        raise Unknown("comparison with the length of an opaque sequence")


from .aeb2 import install as _install  # noqa: E402  (functions, methods, externals)

_install(Builtins, LenV)


def make_builtins(world):
    return Builtins(world)
