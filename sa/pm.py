"""PM - static program model of the edgegraph package: modules, imports (with re-exports),
classes (MRO, properties, mangling), functions (incl. nested), call resolution."""
from __future__ import annotations
import ast
import hashlib

from .src import Source, SourceError, PKG


class FuncInfo:
    def __init__(self, qual, node, module, cls=None, parent=None):
        self.qual, self.node, self.module, self.cls, self.parent = qual, node, module, cls, parent
        self.name = node.name
        self.rel = module.rel
        self.kind = "function"  # function | method | property-get | property-set | property-del | classmethod | staticmethod
        self.propname = None

    @property
    def lineno(self):
        return self.node.lineno

    def loc(self):
        return f"{self.rel}:{self.node.lineno}"

    def params(self):
        a = self.node.args
        return [p.arg for p in a.posonlyargs + a.args + a.kwonlyargs] + ([a.vararg.arg] if a.vararg else []) + ([a.kwarg.arg] if a.kwarg else [])

    def digest(self):
        return hashlib.sha256(ast.dump(self.node).encode()).hexdigest()[:12]

    def __repr__(self):
        return f"<FuncInfo {self.qual}>"


class ClassInfo:
    def __init__(self, qual, node, module, parent_func=None):
        self.qual, self.node, self.module = qual, node, module
        self.name = node.name
        self.base_exprs = node.bases
        self.bases: list = []  # ClassInfo or str (external)
        self.methods: dict[str, list[FuncInfo]] = {}
        self.props: dict[str, dict] = {}
        self.class_attrs: dict[str, ast.AST] = {}
        self.parent_func = parent_func
        self.metaclass_expr = next((k.value for k in node.keywords if k.arg == "metaclass"), None)

    def mro(self):
        out, seen = [], set()

        def walk(c):
            if isinstance(c, ClassInfo) and c.qual not in seen:
                seen.add(c.qual)
                out.append(c)
                for b in c.bases:
                    walk(b)

        walk(self)  # linearisation is a DFS here; the package has single inheritance only (checked)
        return out

    def lookup(self, name):
        for c in self.mro():
            if name in c.methods:
                return c.methods[name][-1]
        return None

    def lookup_prop(self, name):
        for c in self.mro():
            if name in c.props:
                return c.props[name]
        return None

    def issub(self, other):
        return other in self.mro()

    def mangle(self, name):
        if name.startswith("__") and not name.endswith("__"):
            return f"_{self.name.lstrip('_')}{name}"
        return name

    def __repr__(self):
        return f"<ClassInfo {self.qual}>"


class ModuleInfo:
    def __init__(self, name, rel, tree):
        self.name, self.rel, self.tree = name, rel, tree
        self.imports: dict[str, tuple] = {}  # local name -> ('module', dotted) | ('name', module dotted, attr)
        self.functions: dict[str, FuncInfo] = {}
        self.classes: dict[str, ClassInfo] = {}
        self.consts: dict[str, ast.AST] = {}


class Program:
    def __init__(self, src: Source | None = None):
        self.src = src or Source()
        self.modules: dict[str, ModuleInfo] = {}
        self.functions: dict[str, FuncInfo] = {}
        self.classes: dict[str, ClassInfo] = {}
        for rel in self.src.relpaths():
            name = self.src.modname(rel)
            self.modules[name] = ModuleInfo(name, rel, self.src.tree(rel))
        for m in self.modules.values():
            self._scan_module(m)
        for c in self.classes.values():
            c.bases = [self._resolve_class_expr(b, c.module) for b in c.base_exprs]
            if len([b for b in c.bases if isinstance(b, ClassInfo)]) > 1:
                raise SourceError(f"{c.qual}: multiple inheritance inside the package is outside the program model")

    # ---- scanning
    def _scan_module(self, m: ModuleInfo):
        for st in self._toplevel(m.tree.body):
            if isinstance(st, ast.Import):
                for a in st.names:
                    if a.asname:
                        m.imports[a.asname] = ("module", a.name)
                    else:
                        m.imports[a.name.split(".")[0]] = ("module", a.name.split(".")[0])
            elif isinstance(st, ast.ImportFrom):
                if st.module == "__future__":
                    continue
                base = st.module or ""
                if st.level:
                    cur = m.name.split(".")
                    if not self.src.is_pkg(m.name):
                        cur = cur[:-1]
                    cur = cur[: len(cur) - (st.level - 1)]
                    base = ".".join(cur + ([st.module] if st.module else []))
                for a in st.names:
                    sub = base + "." + a.name
                    if base.split(".")[0] == PKG and self.src.relpath_of(sub):
                        m.imports[a.asname or a.name] = ("module", sub)
                    else:
                        m.imports[a.asname or a.name] = ("name", base, a.name)
            elif isinstance(st, (ast.FunctionDef, ast.AsyncFunctionDef)):
                self._scan_func(st, m, None, None, m.name)
            elif isinstance(st, ast.ClassDef):
                self._scan_class(st, m, None, m.name)
            elif isinstance(st, ast.Assign) and len(st.targets) == 1 and isinstance(st.targets[0], ast.Name):
                m.consts[st.targets[0].id] = st.value
            elif isinstance(st, ast.AnnAssign) and isinstance(st.target, ast.Name) and st.value is not None:
                m.consts[st.target.id] = st.value

    def _toplevel(self, body):
        for st in body:
            if isinstance(st, ast.If):
                # TYPE_CHECKING blocks only bind names for annotations; other module-level ifs: both arms
                t = st.test
                if isinstance(t, ast.Name) and t.id == "TYPE_CHECKING" or isinstance(t, ast.Attribute) and t.attr == "TYPE_CHECKING":
                    continue
                yield from self._toplevel(st.body)
                yield from self._toplevel(st.orelse)
            elif isinstance(st, ast.Try):
                yield from self._toplevel(st.body)
                yield from self._toplevel(st.orelse)
                yield from self._toplevel(st.finalbody)
            else:
                yield st

    def _scan_func(self, node, m, cls, parent, prefix):
        qual = f"{prefix}.{node.name}"
        f = FuncInfo(qual, node, m, cls, parent)
        if cls is not None and parent is None:
            f.kind = "method"
            for d in node.decorator_list:
                if isinstance(d, ast.Name) and d.id == "property":
                    f.kind, f.propname = "property-get", node.name
                elif isinstance(d, ast.Attribute) and d.attr in ("setter", "deleter", "getter"):
                    f.kind, f.propname = {"setter": "property-set", "deleter": "property-del", "getter": "property-get"}[d.attr], node.name
                elif isinstance(d, ast.Name) and d.id in ("classmethod", "staticmethod"):
                    f.kind = d.id
            if f.kind.startswith("property"):
                cls.props.setdefault(node.name, {})[f.kind.split("-")[1]] = f
                qual = f"{prefix}.{node.name}[{f.kind.split('-')[1]}]"
                f.qual = qual
            else:
                cls.methods.setdefault(node.name, []).append(f)
        elif cls is None and parent is None:
            m.functions[node.name] = f
        self.functions[qual] = f
        for st in ast.walk(node):
            if st is node:
                continue
        self._scan_nested(node.body, m, cls, f, qual + ".<locals>")
        return f

    def _scan_nested(self, body, m, cls, parent, prefix):
        for st in body:
            if isinstance(st, (ast.FunctionDef, ast.AsyncFunctionDef)):
                self._scan_func(st, m, cls, parent, prefix)
            elif isinstance(st, ast.ClassDef):
                self._scan_class(st, m, parent, prefix)
            else:
                for fld in ("body", "orelse", "finalbody", "handlers"):
                    sub = getattr(st, fld, None)
                    if isinstance(sub, list):
                        inner = []
                        for x in sub:
                            if isinstance(x, ast.ExceptHandler):
                                inner.extend(x.body)
                            elif isinstance(x, ast.stmt):
                                inner.append(x)
                        self._scan_nested(inner, m, cls, parent, prefix)

    def _scan_class(self, node, m, parent_func, prefix):
        qual = f"{prefix}.{node.name}"
        c = ClassInfo(qual, node, m, parent_func)
        self.classes[qual] = c
        if parent_func is None:
            m.classes[node.name] = c
        for st in node.body:
            if isinstance(st, (ast.FunctionDef, ast.AsyncFunctionDef)):
                self._scan_func(st, m, c, None, qual)
            elif isinstance(st, ast.Assign):
                for t in st.targets:
                    if isinstance(t, ast.Name):
                        c.class_attrs[c.mangle(t.id)] = st.value
                        # alias of a method: `memoize = lazymemoize`
                        if isinstance(st.value, ast.Name) and st.value.id in c.methods:
                            c.methods.setdefault(t.id, []).extend(c.methods[st.value.id])
            elif isinstance(st, ast.AnnAssign) and isinstance(st.target, ast.Name) and st.value is not None:
                c.class_attrs[c.mangle(st.target.id)] = st.value
            elif isinstance(st, ast.ClassDef):
                self._scan_class(st, m, parent_func, qual)
        return c

    # ---- resolution
    def resolve_name(self, name, m: ModuleInfo):
        """Resolve a module-level name to ('class', ClassInfo) | ('func', FuncInfo) | ('module', dotted)
        | ('const', expr, module) | ('ext', dotted) | None, following re-exports."""
        seen = set()
        while True:
            key = (m.name, name)
            if key in seen:
                return None
            seen.add(key)
            if name in m.classes:
                return ("class", m.classes[name])
            if name in m.functions:
                return ("func", m.functions[name])
            if name in m.consts and name not in m.imports:
                return ("const", m.consts[name], m)
            if name in m.imports:
                imp = m.imports[name]
                if imp[0] == "module":
                    if imp[1] in self.modules:
                        return ("module", imp[1])
                    return ("ext", imp[1])
                _, base, attr = imp
                if base in self.modules:
                    m, name = self.modules[base], attr
                    continue
                return ("ext", base + "." + attr)
            return None

    def resolve_expr(self, e, m: ModuleInfo):
        """Resolve a Name / dotted Attribute expression at module scope."""
        if isinstance(e, ast.Name):
            return self.resolve_name(e.id, m)
        if isinstance(e, ast.Attribute):
            base = self.resolve_expr(e.value, m)
            if base is None:
                return None
            if base[0] == "module":
                sub = base[1] + "." + e.attr
                if sub in self.modules:
                    return ("module", sub)
                return self.resolve_name(e.attr, self.modules[base[1]])
            if base[0] == "ext":
                return ("ext", base[1] + "." + e.attr)
            if base[0] == "class":
                c = base[1]
                f = c.lookup(e.attr)
                if f is not None:
                    return ("func", f)
                p = c.lookup_prop(e.attr)
                if p is not None:
                    return ("prop", p)
                for k in c.mro():
                    if e.attr in k.class_attrs or k.mangle(e.attr) in k.class_attrs:
                        return ("classattr", k, e.attr)
                return None
        return None

    def _resolve_class_expr(self, e, m):
        r = self.resolve_expr(e, m)
        if r and r[0] == "class":
            return r[1]
        if r and r[0] == "ext":
            return r[1]
        try:
            return ast.unparse(e)
        except Exception:  # noqa: BLE001
            return "?"

    def cls(self, dotted) -> ClassInfo:
        """'edgegraph.structure.vertex.Vertex' (or via re-export 'edgegraph.structure.Vertex')."""
        if dotted in self.classes:
            return self.classes[dotted]
        mod, _, name = dotted.rpartition(".")
        if mod in self.modules:
            r = self.resolve_name(name, self.modules[mod])
            if r and r[0] == "class":
                return r[1]
        raise SourceError(f"anchor class {dotted} not found")

    def func(self, dotted) -> FuncInfo:
        if dotted in self.functions:
            return self.functions[dotted]
        mod, _, name = dotted.rpartition(".")
        if mod in self.modules:
            r = self.resolve_name(name, self.modules[mod])
            if r and r[0] == "func":
                return r[1]
        if mod in self.classes or True:
            try:
                c = self.cls(mod)
                f = c.lookup(name)
                if f is not None:
                    return f
                pr = c.lookup_prop(name)
                if pr is not None and "get" in pr:
                    return pr["get"]
            except SourceError:
                pass
        raise SourceError(f"anchor function {dotted} not found")

    def all_functions(self):
        return list(self.functions.values())

    def subclasses(self, c: ClassInfo):
        return [k for k in self.classes.values() if c in k.mro()]


# methods whose presence on a structure class would invalidate the identity model behind opaque segments
# (__bool__/__len__/ordering are interpreted by AE and therefore allowed)
FORBIDDEN_DUNDERS = ("__eq__", "__ne__", "__hash__", "__getattribute__", "__new__", "__init_subclass__")


def identity_model_violations(prog: Program):
    """Preconditions of the identity model (DESIGN 3.1)."""
    out = []
    for c in prog.classes.values():
        if c.module.name.startswith("edgegraph.structure") and c.module.name != "edgegraph.structure.singleton":
            for d in FORBIDDEN_DUNDERS:
                if d in c.methods or d in c.class_attrs:
                    out.append(f"{c.qual} defines {d} ({c.module.rel}:{c.node.lineno})")
    return out
