"""EFF - effect, ownership and escape summaries over the static program model (PM).

* writes:   which function writes which private state field (attribute stores/deletes, setattr, mutating container methods,
            subscript stores), closed transitively over self-/super-calls inside a class hierarchy;
* OWN:      a private state field is written only by functions of its owner class hierarchy (plus a frozen table of confirmed
            exceptions); OWN is a *premise* of the inductive proofs: a foreign writer => UNDECIDED (exit 2), never a violation;
* ENTRY:    every public method of an owner class that (transitively) writes the field must be covered by the harness;
* FWD:      a wrapper forwards every parameter unchanged, by name or position, to its delegate;
* escape / capture pointers for C12 (returns an internal container / stores a parameter container by reference)."""
from __future__ import annotations
import ast

from .pm import Program, FuncInfo, ClassInfo
from .src import SourceError

MUTATORS = {"append", "appendleft", "extend", "extendleft", "remove", "pop", "popleft", "insert", "clear", "sort", "reverse", "update", "add", "discard", "setdefault", "popitem",
            "__setitem__", "__delitem__"}
SANITISERS = {"list", "tuple", "set", "frozenset", "dict", "sorted", "copy", "deepcopy"}


class Write:
    def __init__(self, func: FuncInfo, field: str, kind: str, lineno: int, recv: str):
        self.func, self.field, self.kind, self.lineno, self.recv = func, field, kind, lineno, recv

    def __repr__(self):
        return f"{self.func.qual}:{self.lineno} {self.kind} {self.recv}.{self.field}"


def _mangle(name, f: FuncInfo):
    if f.cls is not None and name.startswith("__") and not name.endswith("__"):
        return f"_{f.cls.name.lstrip('_')}{name}"
    return name


def direct_writes(f: FuncInfo) -> list[Write]:
    out = []

    def attr_target(t, kind, lineno):
        if isinstance(t, ast.Attribute):
            out.append(Write(f, _mangle(t.attr, f), kind, lineno, ast.unparse(t.value)))
        elif isinstance(t, ast.Subscript):
            base = t.value
            if isinstance(base, ast.Attribute):
                out.append(Write(f, _mangle(base.attr, f), kind + "-item", lineno, ast.unparse(base.value)))
        elif isinstance(t, (ast.Tuple, ast.List)):
            for e in t.elts:
                attr_target(e, kind, lineno)

    for node in _own_nodes(f.node):
        if isinstance(node, ast.Assign):
            for t in node.targets:
                attr_target(t, "store", node.lineno)
        elif isinstance(node, (ast.AugAssign, ast.AnnAssign)):
            if not (isinstance(node, ast.AnnAssign) and node.value is None):
                attr_target(node.target, "store", node.lineno)
        elif isinstance(node, ast.Delete):
            for t in node.targets:
                attr_target(t, "delete", node.lineno)
        elif isinstance(node, ast.Call):
            fn = node.func
            if isinstance(fn, ast.Name) and fn.id in ("setattr", "delattr") and len(node.args) >= 2 and isinstance(node.args[1], ast.Constant) and isinstance(node.args[1].value, str):
                out.append(Write(f, node.args[1].value, fn.id, node.lineno, ast.unparse(node.args[0])))
            elif isinstance(fn, ast.Attribute) and fn.attr in MUTATORS and isinstance(fn.value, ast.Attribute):
                out.append(Write(f, _mangle(fn.value.attr, f), "mutate:" + fn.attr, node.lineno, ast.unparse(fn.value.value)))
            elif isinstance(fn, ast.Attribute) and fn.attr in MUTATORS and isinstance(fn.value, ast.Subscript) and isinstance(fn.value.value, ast.Attribute):
                out.append(Write(f, _mangle(fn.value.value.attr, f), "mutate-item:" + fn.attr, node.lineno, ast.unparse(fn.value.value.value)))
    return out


def _own_nodes(fnode):
    """AST nodes of a function, not descending into nested function/class definitions."""
    stack = list(fnode.body)
    while stack:
        n = stack.pop()
        yield n
        for c in ast.iter_child_nodes(n):
            if isinstance(c, (ast.FunctionDef, ast.AsyncFunctionDef, ast.ClassDef, ast.Lambda)):
                continue
            stack.append(c)


class Effects:
    def __init__(self, prog: Program):
        self.prog = prog
        self.direct = {f.qual: direct_writes(f) for f in prog.all_functions()}
        self.field_owner = self._field_owners()

    def _field_owners(self):
        """field name -> class that establishes it (assigns self.<field> in __init__, or declares it as class attribute)."""
        owners = {}
        for c in self.prog.classes.values():
            for name in c.class_attrs:
                owners.setdefault(name, c)
        for f in self.prog.all_functions():
            if f.cls is not None and f.name == "__init__":
                for w in self.direct[f.qual]:
                    if w.recv == "self" and w.kind == "store":
                        owners.setdefault(w.field, f.cls)
        return owners

    def self_callees(self, f: FuncInfo):
        """methods of the same hierarchy called through self.<m>(...), super().<m>(...), or a property store self.<p> = ..."""
        out = []
        if f.cls is None:
            return out
        for node in _own_nodes(f.node):
            if isinstance(node, ast.Call) and isinstance(node.func, ast.Attribute):
                v = node.func.value
                if isinstance(v, ast.Name) and v.id == "self" or isinstance(v, ast.Call) and isinstance(v.func, ast.Name) and v.func.id == "super":
                    g = f.cls.lookup(node.func.attr)
                    if g is not None:
                        out.append(g)
                    for k in self.prog.subclasses(f.cls):
                        g2 = k.methods.get(node.func.attr)
                        if g2:
                            out.extend(g2)
            elif isinstance(node, (ast.Assign, ast.AugAssign)):
                tgts = node.targets if isinstance(node, ast.Assign) else [node.target]
                for t in tgts:
                    if isinstance(t, ast.Attribute) and isinstance(t.value, ast.Name) and t.value.id == "self":
                        p = f.cls.lookup_prop(t.attr)
                        if p and "set" in p:
                            out.append(p["set"])
        return out

    def writes_field(self, f: FuncInfo, field: str, seen=None) -> bool:
        seen = seen if seen is not None else set()
        if f.qual in seen:
            return False
        seen.add(f.qual)
        if any(w.field == field for w in self.direct[f.qual]):
            return True
        return any(self.writes_field(g, field, seen) for g in self.self_callees(f))

    def writers(self, field: str) -> list[Write]:
        return [w for ws in self.direct.values() for w in ws if w.field == field]


# frozen, confirmed by reading: writers outside the owner's class hierarchy that are part of the owning mechanism
OWN_EXCEPTIONS = {
    "_applies_to": {"edgegraph.structure.universe.Universe.laws[set]": "the laws setter detaches/binds the law set's back-pointer (both classes live in universe.py and form one mechanism)"},
    "_laws": {"edgegraph.structure.universe.UniverseLaws.applies_to[set]": "the applies_to setter may clear the previous universe's pointer (same mechanism)",
              "edgegraph.structure.universe.Universe.laws[set]": "owner"},
    "_TrueSingleton__singleton_instances": {"edgegraph.structure.singleton.clear_true_singleton": "module-level helper documented as the way to clear the table"},
    "_SemiSingleton__semisingleton_instance_map": {"edgegraph.structure.singleton._instance_map": "module-level accessor of the per-class maps",
                                                   "edgegraph.structure.singleton.add_mapping": "documented helper", "edgegraph.structure.singleton.drop_semi_singleton_mapping": "documented helper",
                                                   "edgegraph.structure.singleton.clear_semi_singleton": "documented helper"},
}

# public methods that the inductive harnesses exercise (directly or through their only public callers)
COVERED_ENTRY = {
    "_links": {"Vertex.__init__", "Vertex.add_to_link", "Vertex.remove_from_link"},
    "_vertices": {"Link.__init__", "Link.add_vertex", "Link.unlink_from", "TwoEndedLink.v1[set]", "TwoEndedLink.v2[set]", "DirectedEdge.v1[set]", "DirectedEdge.v2[set]", "TwoEndedLink.__init__",
                  "DirectedEdge.__init__", "UnDirectedEdge.__init__", "Universe.__init__", "Universe.add_vertex", "Universe.remove_vertex"},
    "_universes": {"BaseObject.__init__", "BaseObject.add_to_universe", "BaseObject.remove_from_universe", "Vertex.__init__", "Vertex.add_to_universe", "Vertex.remove_from_universe",
                   "Link.__init__", "TwoEndedLink.__init__", "DirectedEdge.__init__", "UnDirectedEdge.__init__", "Universe.__init__", "UniverseLaws.__init__"},
    "_laws": {"Universe.__init__", "Universe.laws[set]", "UniverseLaws.applies_to[set]"},
    "_applies_to": {"UniverseLaws.__init__", "UniverseLaws.applies_to[set]", "Universe.laws[set]", "Universe.__init__"},
    "_TrueSingleton__singleton_instances": {"TrueSingleton.__call__"},
}

# functions outside the owner classes that the harnesses evaluate as entry points of their own (their whole effect is compared
# with the reference model), so a direct field write inside them is covered
HARNESSED_FOREIGN = {
    "edgegraph.builder.explicit.link_from_to", "edgegraph.builder.explicit.link_directed", "edgegraph.builder.explicit.link_undirected", "edgegraph.builder.explicit.unlink",
    "edgegraph.builder.adjlist.load_adj_dict", "edgegraph.builder.adjmatrix.load_adj_matrix",
}

_EFF_CACHE = {}


def effects(ctx) -> Effects:
    from rules import common
    if getattr(ctx.src, "_verif_eff", None) is None:
        ctx.src._verif_eff = Effects(common.program(ctx))
    return ctx.src._verif_eff


def _mentioned(prog, owner, fname, field):
    """is the state field defined in its owner's class body or read anywhere in the package?"""
    import ast
    for st in owner.node.body:
        tgts = st.targets if isinstance(st, ast.Assign) else ([st.target] if isinstance(st, ast.AnnAssign) else [])
        if any(isinstance(t, ast.Name) and t.id in (fname, field) for t in tgts):
            return True
    for f in prog.all_functions():
        for n in ast.walk(f.node):
            if isinstance(n, ast.Attribute) and n.attr in (fname, field):
                return True
    return False


def check_own(ctx, fields, actual=None):
    """fields like 'Vertex._links' / 'TrueSingleton.__singleton_instances'; `actual` maps a spec to the field's name in this
    tree when it was located by role."""
    actual = actual or {}
    res = ctx.res
    eff = effects(ctx)
    prog = eff.prog
    n = 0
    for spec in fields:
        cname, fname = spec.split(".", 1)
        owner = next((c for c in prog.classes.values() if c.name == cname), None)
        if owner is None:
            raise SourceError(f"anchor class {cname} (owner of state {spec}) vanished")
        canonical = owner.mangle(fname)
        field = actual.get(spec, canonical)
        if field != canonical and field.startswith("_" + owner.name.lstrip("_") + "__"):
            pass
        ws = eff.writers(field)
        if not ws:
            if _mentioned(prog, owner, fname, field):
                # defined in the class body / read into a local and changed in place through that alias: OWN sees no writer at all
                # (neither an owner's nor a foreign one); the abstract evaluation of the entry points decides on its own
                res.note(f"OWN: no statement writes {spec} directly (it is defined in the class body and changed in place through local aliases); the premise is not used for it")
                continue
            raise SourceError(f"anchor state {spec}: no statement in the package writes a field named {field}")
        hier = set(c.qual for c in prog.subclasses(owner)) | {owner.qual}
        for w in ws:
            n += 1
            f = w.func
            inside = f.cls is not None and f.cls.qual in hier
            # a same-named field of an unrelated class is a different field (e.g. Universe._vertices vs Link._vertices)
            other_owner = eff.field_owner.get(field)
            if not inside and f.cls is not None and any(wr.recv == "self" for wr in [w]) and f.cls.qual not in hier:
                # writes its *own* field of that name: belongs to another class's state, not to this owner
                related = [c for c in prog.classes.values() if c.qual in hier and (f.cls in c.mro() or c in f.cls.mro())]
                if not related:
                    continue
            if inside:
                continue
            if f.qual in OWN_EXCEPTIONS.get(canonical, {}):
                continue
            if f.cls is None and f.name.startswith("_") and f.module.name == owner.module.name:
                res.note(f"OWN: {f.loc()} private module-level helper {f.qual} writes {w.recv}.{field}; accepted as part of the owner's mechanism (same module, private)")
                continue
            if f.qual in HARNESSED_FOREIGN:
                res.note(f"OWN: {f.loc()} {f.qual} writes {w.recv}.{field} directly; it is itself an evaluated entry point of the harnesses, so its effect is decided there")
                continue
            res.undecide(f"OWN premise lost: {f.loc()} {f.qual} writes {w.recv}.{field} ({w.kind}) from outside the {cname} class hierarchy; the inductive proof for {spec} does not cover this writer")
        # ENTRY: public writers inside the hierarchy must be harnessed
        covered = COVERED_ENTRY.get(canonical)
        if covered is not None:
            for c in prog.classes.values():
                if c.qual not in hier:
                    continue
                cands = [fs[-1] for fs in c.methods.values()] + [p[k] for p in c.props.values() for k in p if k in ("set", "del")]
                for f in cands:
                    public = not f.name.startswith("_") or f.name == "__init__" or f.name == "__call__" or f.kind.startswith("property")
                    if not public:
                        continue
                    if eff.writes_field(f, field):
                        label = f"{c.name}.{f.name}" + ("[set]" if f.kind == "property-set" else ("[del]" if f.kind == "property-del" else ""))
                        n += 1
                        if label not in covered:
                            res.undecide(f"ENTRY: {f.loc()} {label} (transitively) writes {field} but no harness covers it; the invariant is not proved for histories that call it")
    res.rule("OWN/ENTRY", n)


def check_fwd(ctx, pairs):
    """pairs: [(wrapper dotted, delegate simple name, {param: delegate param} renames)]."""
    res = ctx.res
    prog = effects(ctx).prog
    n = 0
    for wq, delegate, renames in pairs:
        w = prog.func(wq)
        calls = [node for node in _own_nodes(w.node) if isinstance(node, ast.Call) and ast.unparse(node.func).split(".")[-1] == delegate]
        if not calls:
            res.note(f"FWD: {w.loc()} {wq} no longer delegates to {delegate}() - forwarding is decided by the evaluation only")
            continue
        call = calls[0]
        a = w.node.args
        params = [p.arg for p in a.posonlyargs + a.args + a.kwonlyargs]
        for i, p in enumerate(params):
            if p in renames and renames[p] is None:
                continue   # consumed by the wrapper itself
            n += 1
            target = renames.get(p, p)
            ok = False
            for j, arg in enumerate(call.args):
                if isinstance(arg, ast.Name) and arg.id == p:
                    ok = True
            for kw in call.keywords:
                if kw.arg == target and isinstance(kw.value, ast.Name) and kw.value.id == p:
                    ok = True
                if kw.arg is None and isinstance(kw.value, ast.Name) and a.kwarg and kw.value.id == a.kwarg.arg:
                    pass
            if not ok:
                res.note(f"FWD: {w.rel}:{call.lineno} {wq} does not pass its parameter `{p}` on to {delegate}() as-is (structural pointer; the evaluation decides)")
    res.rule("FWD", n)


def container_fields(prog):
    """Fields of edgegraph.structure classes that hold a mutable container: assigned a list/dict/set display, comprehension or
    list()/dict()/set() call (or a container-annotated parameter) in a constructor."""
    out = set()
    for f in prog.all_functions():
        if f.cls is None or f.name != "__init__" or not f.module.name.startswith("edgegraph.structure") or f.module.name.endswith("singleton"):
            continue
        cparams = {a.arg for a in f.node.args.args + f.node.args.kwonlyargs if a.annotation is not None and any(k in ast.unparse(a.annotation) for k in ("dict", "list", "set"))}
        for node in _own_nodes(f.node):
            if isinstance(node, (ast.Assign, ast.AnnAssign)):
                tgts = node.targets if isinstance(node, ast.Assign) else [node.target]
                v = node.value
                iscont = isinstance(v, (ast.List, ast.Dict, ast.Set, ast.ListComp, ast.DictComp, ast.SetComp)) or \
                    isinstance(v, ast.Call) and isinstance(v.func, ast.Name) and v.func.id in ("list", "dict", "set") or \
                    isinstance(v, ast.IfExp) and isinstance(v.body, (ast.List, ast.Call)) or isinstance(v, ast.Name) and v.id in cparams
                if iscont:
                    for t in tgts:
                        if isinstance(t, ast.Attribute) and isinstance(t.value, ast.Name) and t.value.id == "self":
                            out.add(_mangle(t.attr, f))
    return out



def escape_notes(ctx):
    """Pointers for C12: `return <internal container>` and `self.<field> = <parameter>` without a copying sanitiser."""
    res = ctx.res
    eff = effects(ctx)
    n = 0
    cf = container_fields(eff.prog)
    res.extra["container_fields"] = sorted(cf)
    for f in eff.prog.all_functions():
        if not f.module.name.startswith("edgegraph.structure") and not f.module.name.startswith("edgegraph.traversal"):
            continue
        if f.module.name.endswith("singleton"):
            continue
        params = set(f.params())
        # locals that alias an internal container
        alias = {}
        for node in _own_nodes(f.node):
            if isinstance(node, ast.Assign) and len(node.targets) == 1 and isinstance(node.targets[0], ast.Name):
                src = _internal_expr(node.value, f, alias, cf)
                if src:
                    alias[node.targets[0].id] = src
        for node in _own_nodes(f.node):
            if isinstance(node, ast.Return) and node.value is not None:
                n += 1
                src = _internal_expr(node.value, f, alias, cf)
                if src:
                    res.note(f"ESCAPE pointer: {f.rel}:{node.lineno} {f.qual} returns {src} without copying (the identity evaluation decides whether it is reachable state)")
            if isinstance(node, ast.Assign):
                for t in node.targets:
                    if isinstance(t, ast.Attribute) and isinstance(t.value, ast.Name) and t.value.id == "self" and isinstance(node.value, ast.Name) and node.value.id in params:
                        ann = next((a.annotation for a in f.node.args.args + f.node.args.kwonlyargs if a.arg == node.value.id), None)
                        anns = ast.unparse(ann) if ann is not None else ""
                        if any(k in anns for k in ("dict", "list", "set", "Iterator", "Iterable")):
                            n += 1
                            res.note(f"CAPTURE pointer: {f.rel}:{node.lineno} {f.qual} stores its container parameter `{node.value.id}` in self.{t.attr} by reference (decided by the identity evaluation: a later copy may replace it)")
    res.rule("ESCAPE-POINTERS", n)


def _internal_expr(e, f, alias, cf):
    if isinstance(e, ast.Name) and e.id in alias:
        return alias[e.id]
    if isinstance(e, ast.Attribute) and _mangle(e.attr, f) in cf and isinstance(e.value, ast.Name):
        return f"{ast.unparse(e)}"
    if isinstance(e, ast.Subscript):
        inner = _internal_expr(e.value, f, alias, cf)
        if inner:
            return f"an element of {inner}"
    return None
