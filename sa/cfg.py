"""CFG - statement-level control-flow graph for the statement kinds the repository uses, with short-circuit conditions split
into branch nodes and exception edges, plus the path queries used by the structural rules (must-pass-through, dominance)."""
from __future__ import annotations
import ast


class Node:
    __slots__ = ("id", "kind", "ast", "succ", "lineno", "loop_depth", "in_handler", "in_finally")

    def __init__(self, id_, kind, ast_=None, lineno=0):
        self.id, self.kind, self.ast, self.lineno = id_, kind, ast_, lineno
        self.succ = []  # (label, node id); label in {None, 'T', 'F', 'exc', 'iter', 'done'}
        self.loop_depth = 0
        self.in_handler = False
        self.in_finally = False

    def __repr__(self):
        src = ""
        if self.ast is not None:
            try:
                src = ast.unparse(self.ast).split("\n")[0][:60]
            except Exception:  # noqa: BLE001
                src = "?"
        return f"<{self.id}:{self.kind}@{self.lineno} {src}>"


class CFG:
    def __init__(self, fnode):
        self.f = fnode
        self.nodes: list[Node] = []
        self.entry = self._new("entry", None, fnode.lineno)
        self.exit = self._new("exit", None, 0)
        self.exc_exit = self._new("exc-exit", None, 0)
        self._loops = []      # (continue target, break target)
        self._handlers = []   # stack of lists of handler-entry node ids (innermost last) / finally entries
        self._depth = 0
        self._in_handler = 0
        self._in_finally = 0
        last = self._block(fnode.body, [self.entry.id])
        for n in last:
            self._edge(n, None, self.exit.id)

    # ---- construction
    def _new(self, kind, a, lineno):
        n = Node(len(self.nodes), kind, a, lineno)
        n.loop_depth = getattr(self, "_depth", 0)
        n.in_handler = getattr(self, "_in_handler", 0) > 0
        n.in_finally = getattr(self, "_in_finally", 0) > 0
        self.nodes.append(n)
        return n

    def _edge(self, src, label, dst):
        if (label, dst) not in self.nodes[src].succ:
            self.nodes[src].succ.append((label, dst))

    def _exc_target(self):
        return self._handlers[-1] if self._handlers else [self.exc_exit.id]

    def _may_raise(self, a):
        for n in ast.walk(a):
            if isinstance(n, (ast.Call, ast.Subscript, ast.Raise, ast.Delete, ast.Assert, ast.Yield, ast.YieldFrom)) or isinstance(n, ast.Attribute) and isinstance(n.ctx, (ast.Load, ast.Del)) or isinstance(n, ast.BinOp):
                return True
        return False

    def _simple(self, st, preds, kind="stmt"):
        n = self._new(kind, st, st.lineno)
        for p in preds:
            self._edge(p, None, n.id)
        if self._may_raise(st):
            for t in self._exc_target():
                self._edge(n.id, "exc", t)
        return n

    def _cond(self, e, preds):
        """-> (true-exits, false-exits): lists of (node id, label) pending edges."""
        if isinstance(e, ast.BoolOp):
            t_out, f_out = [], []
            cur = preds
            for i, v in enumerate(e.values):
                t, f = self._cond(v, cur)
                last = i == len(e.values) - 1
                if isinstance(e.op, ast.And):
                    f_out += f
                    if last:
                        t_out += t
                    else:
                        cur = t
                else:
                    t_out += t
                    if last:
                        f_out += f
                    else:
                        cur = f
            return t_out, f_out
        if isinstance(e, ast.UnaryOp) and isinstance(e.op, ast.Not):
            t, f = self._cond(e.operand, preds)
            return f, t
        n = self._new("test", e, e.lineno)
        for p in preds:
            if isinstance(p, tuple):
                self._edge(p[0], p[1], n.id)
            else:
                self._edge(p, None, n.id)
        if self._may_raise(e):
            for t in self._exc_target():
                self._edge(n.id, "exc", t)
        return [(n.id, "T")], [(n.id, "F")]

    def _join(self, pend):
        """pending (node, label) edges -> a join node id."""
        j = self._new("join", None, 0)
        for p in pend:
            if isinstance(p, tuple):
                self._edge(p[0], p[1], j.id)
            else:
                self._edge(p, None, j.id)
        return j.id

    def _block(self, stmts, preds):
        cur = list(preds)
        for st in stmts:
            if not cur:
                break
            cur = self._stmt(st, cur)
        return cur

    def _stmt(self, st, preds):
        if isinstance(st, ast.If):
            t, f = self._cond(st.test, preds)
            a = self._block(st.body, [self._join(t)])
            b = self._block(st.orelse, [self._join(f)]) if st.orelse else [self._join(f)]
            return a + b
        if isinstance(st, ast.While):
            head = self._new("loop-head", st, st.lineno)
            for p in preds:
                self._edge(p, None, head.id)
            t, f = self._cond(st.test, [head.id])
            after = self._new("join", None, 0)
            self._loops.append((head.id, after.id))
            self._depth += 1
            body_end = self._block(st.body, [self._join(t)])
            self._depth -= 1
            self._loops.pop()
            for b in body_end:
                self._edge(b, None, head.id)
            else_end = self._block(st.orelse, [self._join(f)]) if st.orelse else [self._join(f)]
            for e in else_end:
                self._edge(e, None, after.id)
            return [after.id]
        if isinstance(st, ast.For):
            it = self._simple(ast.Expr(value=st.iter, lineno=st.lineno, col_offset=0), preds, "for-iter")
            head = self._new("for-head", st, st.lineno)
            self._edge(it.id, None, head.id)
            if self._may_raise(st.iter):
                for t in self._exc_target():
                    self._edge(head.id, "exc", t)   # the iterator may raise at each step (generator sources)
            after = self._new("join", None, 0)
            self._loops.append((head.id, after.id))
            self._depth += 1
            first = self._new("join", None, 0)
            self._edge(head.id, "iter", first.id)
            body_end = self._block(st.body, [first.id])
            self._depth -= 1
            self._loops.pop()
            for b in body_end:
                self._edge(b, None, head.id)
            done = self._new("join", None, 0)
            self._edge(head.id, "done", done.id)
            else_end = self._block(st.orelse, [done.id]) if st.orelse else [done.id]
            for e in else_end:
                self._edge(e, None, after.id)
            return [after.id]
        if isinstance(st, ast.Try):
            fin_entry = None
            after = []
            if st.finalbody:
                fin_entry = self._new("finally", None, st.finalbody[0].lineno)
            h_entries = []
            for h in st.handlers:
                h_entries.append(self._new("handler", h, h.lineno))
            targets = [h.id for h in h_entries] + ([fin_entry.id] if fin_entry is not None and not st.handlers else [])
            if st.handlers and not any(h.type is None or ast.unparse(h.type) in ("Exception", "BaseException") for h in st.handlers):
                # an exception may match no handler
                targets += [fin_entry.id] if fin_entry is not None else self._exc_target()
            self._handlers.append(targets or self._exc_target())
            body_end = self._block(st.body, preds)
            self._handlers.pop()
            else_end = self._block(st.orelse, body_end) if st.orelse else body_end
            ends = list(else_end)
            if fin_entry is not None:
                self._handlers.append([fin_entry.id])
            self._in_handler += 1
            for h, he in zip(st.handlers, h_entries):
                ends += self._block(h.body, [he.id])
            self._in_handler -= 1
            if fin_entry is not None:
                self._handlers.pop()
                for e in ends:
                    self._edge(e, None, fin_entry.id)
                self._in_finally += 1
                fin_end = self._block(st.finalbody, [fin_entry.id])
                self._in_finally -= 1
                # after the finally block: normal continuation, or propagation of the pending exception / return
                for fe in fin_end:
                    for t in self._exc_target():
                        self._edge(fe, "exc", t)
                    self._edge(fe, "ret", self.exit.id)
                return fin_end
            return ends
        if isinstance(st, ast.With):
            n = self._simple(st, preds, "with")
            return self._block(st.body, [n.id])
        if isinstance(st, ast.Return):
            n = self._simple(st, preds, "return")
            fins = [t for t in self._exc_target() if self.nodes[t].kind == "finally"]
            if fins:
                for t in fins:
                    self._edge(n.id, "ret", t)
            else:
                self._edge(n.id, None, self.exit.id)
            return []
        if isinstance(st, ast.Raise):
            n = self._new("raise", st, st.lineno)
            for p in preds:
                self._edge(p, None, n.id)
            for t in self._exc_target():
                self._edge(n.id, "exc", t)
            return []
        if isinstance(st, ast.Continue):
            n = self._simple(st, preds, "continue")
            if self._loops:
                self._edge(n.id, None, self._loops[-1][0])
            return []
        if isinstance(st, ast.Break):
            n = self._simple(st, preds, "break")
            if self._loops:
                self._edge(n.id, None, self._loops[-1][1])
            return []
        if isinstance(st, (ast.FunctionDef, ast.AsyncFunctionDef, ast.ClassDef)):
            n = self._new("def", st, st.lineno)
            for p in preds:
                self._edge(p, None, n.id)
            return [n.id]
        n = self._simple(st, preds)
        return [n.id]

    # ---- queries
    def find(self, pred):
        return [n for n in self.nodes if pred(n)]

    def reach_avoiding(self, starts, is_target, blocked_node=lambda n: False, blocked_edge=lambda n, label, m: False):
        """Search from `starts`; returns a path (list of nodes) to the first node satisfying is_target that avoids blocked
        nodes/edges, or None.  Used as: 'every path from A to T passes through V'  <=>  no path avoiding V."""
        from collections import deque
        prev = {s: None for s in starts}
        dq = deque(starts)
        while dq:
            u = dq.popleft()
            nu = self.nodes[u]
            if is_target(nu) and prev[u] is not None or is_target(nu) and u not in starts:
                path = []
                while u is not None:
                    path.append(self.nodes[u])
                    u = prev[u]
                return list(reversed(path))
            for label, v in nu.succ:
                nv = self.nodes[v]
                if v in prev or blocked_edge(nu, label, nv) or blocked_node(nv) and not is_target(nv):
                    continue
                prev[v] = u
                dq.append(v)
        return None


def calls_in(a):
    return [n for n in ast.walk(a) if isinstance(n, ast.Call)] if a is not None else []


def path_str(path):
    return " -> ".join(f"L{n.lineno}:{n.kind}" for n in path if n.lineno)
