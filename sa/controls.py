"""AE conformance controls: micro-programs whose outcome under the abstract evaluator must equal the frozen outcome that CPython
gives (frozen by tools/validate_controls.py at development time).  Run on every invocation of an AE-based check; a control that
does not behave ends the run with exit 2 (the evaluator cannot be trusted), never with a verdict."""
from __future__ import annotations

from .ae import World, Seq, DictV, SetV, Obj, Raised, Unknown, SymStr
from .src import Source

# (name, program text defining RESULT or raising, expected repr of RESULT / "raise <Exc>")
PROGRAMS = [
    ("inspect-signature-of-functions-lambdas-and-methods", '''
import inspect
def f(a, b=2, *rest, key, opt=None, **more):
    pass
class K:
    def m(self, x, y=1):
        pass
    def __call__(self, e):
        pass
g = lambda e, kind="k": kind
def count(fn):
    ps = inspect.signature(fn).parameters.values()
    return len([p for p in ps if p.kind in (p.POSITIONAL_ONLY, p.POSITIONAL_OR_KEYWORD)])
sig = inspect.signature(f)
RESULT = (list(sig.parameters), [p.kind == inspect.Parameter.VAR_POSITIONAL for p in sig.parameters.values()], sig.parameters["a"].default is inspect.Parameter.empty,
          sig.parameters["b"].default, count(g), count(K().m), count(K()), count(lambda e: e))
''', "(['a', 'b', 'rest', 'key', 'opt', 'more'], [False, False, True, False, False, False], True, 2, 2, 2, 1, 1)"),
    ("nan-is-identical-to-itself-but-not-equal", '''
nan = float("nan")
box = [nan]
RESULT = (nan == nan, nan is nan, nan != nan, nan in box, box.count(nan), box == [nan], 1 == 1.0, 1 is 1.0)
''', "(False, True, True, True, 1, True, True, False)"),
    ("isinstance-against-abstract-base-classes", '''
import types
from collections.abc import Iterable, Mapping, MutableMapping, Sized, Sequence, Hashable
class Plain:
    pass
class Cluster:
    def __iter__(self):
        return iter(())
    def __len__(self):
        return 0
class OnlyGetitem:
    def __getitem__(self, i):
        raise IndexError
d = {"k": 1}
RESULT = (isinstance(Plain(), Iterable), isinstance(Cluster(), Iterable), isinstance(Cluster(), Sized), isinstance(OnlyGetitem(), Iterable), isinstance([1], Iterable), isinstance("s", Sequence),
          isinstance(d, MutableMapping), isinstance(types.MappingProxyType(d), Mapping), isinstance(types.MappingProxyType(d), MutableMapping), isinstance(iter([1]), Iterable), isinstance((1,), Hashable),
          isinstance(Cluster(), Sequence), isinstance(Cluster(), (int, Iterable)))
''', "(False, True, True, False, True, True, True, True, False, True, True, False, True)"),
    ("hashable-abc-and-eq-without-hash", '''
from collections.abc import Hashable
class EqOnly:
    def __eq__(self, other):
        return True
class EqAndHash:
    def __eq__(self, other):
        return True
    def __hash__(self):
        return 7
class Child(EqOnly):
    pass
class Rehash(EqOnly):
    __hash__ = object.__hash__
class Plain:
    pass
def hashes(x):
    try:
        hash(x)
        return True
    except TypeError:
        return False
def probes(x, box):
    try:
        return x in box
    except TypeError:
        return "TypeError"
RESULT = (isinstance(EqOnly(), Hashable), isinstance(EqAndHash(), Hashable), isinstance(Child(), Hashable), isinstance(Rehash(), Hashable), isinstance(Plain(), Hashable), isinstance([], Hashable),
          hashes(EqOnly()), hashes(EqAndHash()), hashes(Child()), hashes(Plain()),
          probes(EqOnly(), {}), probes((1, EqOnly()), {(1, 2): 3}), probes(EqOnly(), set()), probes(EqOnly(), []), probes([1], {1: 2}), probes(Plain(), {}), probes([1], frozenset()))
''', "(False, True, False, True, True, False, False, True, False, True, 'TypeError', 'TypeError', 'TypeError', False, 'TypeError', False, 'TypeError')"),
    ("generator-expressions-are-lazy", '''
log = []
def probe(x):
    log.append(x)
    if x == 3:
        raise IndexError("three")
    return x
first = any(probe(x) == 1 for x in [1, 2, 3])          # stops at the first element: 3 is never probed
box = [1, 2, 3]
gen = (probe(x) for x in box)
got = [next(gen)]
box[1] = 20                                             # the consumer changes state between two elements
got.append(next(gen))
try:
    next(gen)
    tail = "no error"
except IndexError:
    tail = "IndexError after two elements"
class K:
    __slots__ = ()
    __secret = 5
    def m(self, ys):
        return sum(self.__secret + y for y in ys)
pairs = list((a, b) for a in (1, 2) for b in "xy" if a != 2 or b != "x")
def outer(n):
    k = 10
    return tuple(k * i for i in range(n) if i % 2 == 0)
RESULT = (first, log, got, tail, K().m([1, 2]), pairs, outer(5), list(x for x in ()))
''', "(True, [1, 1, 20, 3], [1, 20], 'IndexError after two elements', 13, [(1, 'x'), (1, 'y'), (2, 'y')], (0, 20, 40), [])"),
    ("lru-cache-evicts-least-recently-used", '''
import functools
calls = []
@functools.lru_cache(maxsize=2)
def f(x):
    calls.append(x)
    return x * 2
r = [f(1), f(2), f(1), f(3), f(1), f(2)]          # f(3) evicts 2 (1 was used more recently); f(2) is computed again and evicts 3
@functools.lru_cache
def g(x):
    calls.append(("g", x))
    return x
for i in range(130):
    g(i)
n1 = len(calls)
g(129); g(5)                                       # hits (5 is still among the last 128)
n2 = len(calls)
g(0)                                               # evicted: computed again
n3 = len(calls)
@functools.cache
def h(x):
    calls.append(("h", x))
    return x
for i in range(130):
    h(i)
n4 = len(calls)
h(0)
RESULT = (r, calls[:5], n1, n2 - n1, n3 - n2, len(calls) - n4)
''', "([2, 4, 2, 6, 2, 4], [1, 2, 3, 2, ('g', 0)], 134, 0, 1, 0)"),
    ("bytearray-buffer", '''
buf = bytearray()
alias = buf
buf += b"ab"
buf.extend(b"cd")
snap = bytes(buf)
n = len(alias)
alias.clear()
other = bytearray(b"xy") + b"z"
RESULT = (snap, n, len(buf), bool(buf), bytes(other), isinstance(other, bytearray), isinstance(snap, bytearray))
''', "(b'abcd', 4, 0, False, b'xyz', True, False)"),
    ("bytes-repeat-and-concatenate", '''
pop = b"0"
RESULT = (pop * 3 + b"g1;", 2 * b"ab", (b"x", b"y", b"z")[2 - 1], b"(" + b"t", str(12).encode(), bytes([4]))
''', "(b'000g1;', b'abab', b'y', b'(t', b'12', b'\\x04')"),
    ("class-creation-hooks-init_subclass-then-metaclass-init", '''
log = []
class M(type):
    def __init__(cls, name, bases, ns):
        super().__init__(name, bases, ns)
        log.append(("meta-init", name, len(bases), "x" in ns))
        cls.registry = {}
    def __call__(cls, *a):
        o = super().__call__(*a)
        cls.registry[a] = o
        return o
class Base(metaclass=M):
    def __init_subclass__(cls):
        log.append(("init_subclass", cls.__name__))
        cls.boot = cls("boot")
    def __init__(self, tag):
        self.tag = tag
class Sub(Base):
    x = 1
RESULT = (log, Sub.boot.tag, sorted(Sub.registry), sorted(Base.registry))
''', "([('meta-init', 'Base', 0, False), ('init_subclass', 'Sub'), ('meta-init', 'Sub', 1, True)], 'boot', [], [('boot',)])"),
    ("generator-close-runs-finally-also-through-yield-from", '''
log = []
def inner():
    try:
        yield 1
        yield 2
    finally:
        log.append("inner-finally")
def outer():
    try:
        yield from inner()
        yield 3
    finally:
        log.append("outer-finally")
g = outer()
first = next(g)
log.append("suspended")
g.close()
h = outer()
h.close()
RESULT = (first, log, list(g))
''', "(1, ['suspended', 'inner-finally', 'outer-finally'], [])"),
    ("islice-continues-a-shared-iterator", '''
import itertools
src = iter([1, 2, 3, 4, 5, 6, 7])
out = [None] * 7
for start in range(0, 7, 3):
    chunk = list(itertools.islice(src, 3))
    out[start:start + len(chunk)] = chunk
rest = list(itertools.islice(iter("abcdef"), 1, 5, 2))
RESULT = (out, rest)
''', "([1, 2, 3, 4, 5, 6, 7], ['b', 'd'])"),
    ("property-and-setter", '''
class A:
    def __init__(self): self._x = 1
    @property
    def x(self): return self._x
    @x.setter
    def x(self, v): self._x = v * 2
a = A(); a.x = 5
RESULT = a.x
''', "10"),
    ("property-no-setter", '''
class A:
    @property
    def x(self): return 1
a = A()
a.x = 2
''', "raise AttributeError"),
    ("super-property-and-method", '''
class A:
    def _set(self, v): self.v = ("A", v)
    @property
    def p(self): return "pa"
class B(A):
    @property
    def p(self): return super().p + "b"
    def _set(self, v): super()._set(v + 1)
b = B(); b._set(1)
RESULT = (b.p, b.v)
''', "('pab', ('A', 2))"),
    ("name-mangling", '''
class Vx:
    def __init__(self): self.__c = {}
    def put(self, k): self.__c[k] = 1
v = Vx(); v.put("k")
RESULT = sorted(vars(v))
''', "['_Vx__c']"),
    ("list-remove-first-occurrence", '''
l = [1, 2, 1, 3]
l.remove(1)
RESULT = l
''', "[2, 1, 3]"),
    ("list-remove-missing", '''
l = [1]
l.remove(2)
''', "raise ValueError"),
    ("tuple-copy-independent", '''
l = [1, 2]
t = tuple(l)
l.append(3)
RESULT = (t, l)
''', "((1, 2), [1, 2, 3])"),
    ("generator-trace", '''
def g(n):
    for i in range(n):
        if i == 2:
            continue
        yield i
RESULT = list(g(4))
''', "[0, 1, 3]"),
    ("yield-from-nested", '''
def inner(x):
    yield x
    yield x + 1
def outer():
    yield 0
    yield from inner(10)
    yield 99
RESULT = list(outer())
''', "[0, 10, 11, 99]"),
    ("finally-order", '''
log = []
def f():
    try:
        log.append("body")
        raise ValueError("x")
    except ValueError:
        log.append("handler")
        return "ret"
    finally:
        log.append("finally")
r = f()
RESULT = (r, log)
''', "('ret', ['body', 'handler', 'finally'])"),
    ("exception-not-caught-by-sibling", '''
def f():
    try:
        raise KeyError("k")
    except ValueError:
        return 1
f()
''', "raise KeyError"),
    ("except-tuple-and-as", '''
def f():
    try:
        {}["k"]
    except (ValueError, KeyError) as e:
        return type(e).__name__
RESULT = f()
''', "'KeyError'"),
    ("metaclass-call", '''
class M(type):
    _t = {}
    def __call__(cls, *a, **k):
        if cls not in cls._t:
            cls._t[cls] = super(M, cls).__call__(*a, **k)
        return cls._t[cls]
class A(metaclass=M):
    def __init__(self, v): self.v = v
class B(A): pass
RESULT = (A(1) is A(2), A(1).v, B(3) is A(1), type(B(4)).__name__)
''', "(True, 1, False, 'B')"),
    ("closure-late-binding", '''
def mk(h=None):
    if h is None:
        def h(x): return x + 1
    class K:
        f = h
        def call(self, x): return h(x)
    return K
RESULT = mk()().call(1), mk(lambda x: x * 10)().call(2)
''', "(2, 20)"),
    ("dict-order-and-fromkeys", '''
d = {}
d["b"] = 1; d["a"] = 2; d["b"] = 3
RESULT = (list(d.items()), [*dict.fromkeys([3, 1, 3, 2, 1])])
''', "([('b', 3), ('a', 2)], [3, 1, 2])"),
    ("bool-ops-return-operands", '''
RESULT = (0 or "x", 1 and [], None or 0, [] or {} or 7, "a" and "b")
''', "('x', [], 0, 7, 'b')"),
    ("truthiness-len-bool", '''
class E:
    def __len__(self): return 0
class F:
    def __bool__(self): return False
    def __len__(self): return 5
class G: pass
RESULT = (bool(E()), bool(F()), bool(G()), not E(), (E() or 1))
''', "(False, False, True, True, 1)"),
    ("is-vs-eq", '''
class P:
    def __init__(self, k): self.k = k
    def __eq__(self, o): return isinstance(o, P) and self.k == o.k
    def __hash__(self): return hash(self.k)
a, b = P(1), P(1)
RESULT = (a == b, a is b, a in [b], [b].index(a), {a: 1}.get(b))
''', "(True, False, True, 0, 1)"),
    ("deque-fifo-lifo", '''
import collections
q = collections.deque([1])
q.append(2); q.append(3)
a = q.popleft()
q.appendleft(0)
b = q.pop()
RESULT = (a, b, list(q))
''', "(1, 3, [0, 2])"),
    ("set-semantics", '''
s = set()
s.add(1); s.add(1); s.add(2)
t = s | {3}
s.discard(9)
RESULT = (len(s), 3 in t, 3 in s, sorted(t - s))
''', "(2, True, False, [3])"),
    ("star-args-kwargs", '''
def f(a, b=2, *args, c, d=4, **kw):
    return (a, b, args, c, d, sorted(kw.items()))
RESULT = (f(1, c=3), f(1, 2, 3, 4, c=5, z=6), f(*[1, 2], **{"c": 9}))
''', "((1, 2, (), 3, 4, []), (1, 2, (3, 4), 5, 4, [('z', 6)]), (1, 2, (), 9, 4, []))"),
    ("missing-argument", '''
def f(a, *, c): return a
f(1)
''', "raise TypeError"),
    ("unexpected-keyword", '''
def f(a): return a
f(1, z=2)
''', "raise TypeError"),
    ("slicing-and-negative-index", '''
l = [0, 1, 2, 3, 4]
RESULT = (l[-1], l[1:3], l[:-2], l[::2], "abcd"[:-2], l[10:])
''', "(4, [1, 2], [0, 1, 2], [0, 2, 4], 'ab', [])"),
    ("index-error", '''
(1, 2)[2]
''', "raise IndexError"),
    ("string-ops", '''
RESULT = (", ".join(["a", "b"]), "x, y, "[:-2], f"{1} -> {'z'!r}", "a-b".split("-"), "  p ".strip(), "ab".startswith("a"))
''', "('a, b', 'x, y', \"1 -> 'z'\", ['a', 'b'], 'p', True)"),
    ("augmented-assign-list-string", '''
l = []
l += "ab"
s = "x"
s += "y"
RESULT = (l, s)
''', "(['a', 'b'], 'xy')"),
    ("comprehension-scope", '''
x = 10
r = [x * 2 for x in range(3) if x != 1]
d = {k: v for k, v in [("a", 1)]}
RESULT = (r, x, d)
''', "([0, 4], 10, {'a': 1})"),
    ("walrus-ifexp-chained-compare", '''
RESULT = ((y := 5) + 1, y, "a" if 0 else "b", 1 < 2 < 3, 1 < 3 < 2, 2 is not None)
''', "(6, 5, 'b', True, False, True)"),
    ("for-else-while-else", '''
out = []
for i in [1, 2]:
    if i == 3: break
else:
    out.append("for-else")
n = 0
while n < 2:
    n += 1
    if n == 1: continue
else:
    out.append("while-else")
for i in [1]:
    break
else:
    out.append("no")
RESULT = out
''', "['for-else', 'while-else']"),
    ("delete-attribute-and-item", '''
class A: pass
a = A(); a.x = 1
del a.x
d = {"k": 1}; del d["k"]
l = [1, 2, 3]; del l[0]
RESULT = (hasattr(a, "x"), d, l)
''', "(False, {}, [2, 3])"),
    ("delete-missing-attribute", '''
class A: pass
a = A()
del a.x
''', "raise AttributeError"),
    ("getattr-setattr-getitem-protocol", '''
class N:
    def __getitem__(self, n): return getattr(self, n)
    def __setitem__(self, n, v): setattr(self, n, v)
n = N(); n["a"] = 3
RESULT = (n.a, n["a"], getattr(n, "zz", "dflt"), hasattr(n, "a"), hasattr(n, "b"))
''', "(3, 3, 'dflt', True, False)"),
    ("isinstance-issubclass-type", '''
class A: pass
class B(A): pass
b = B()
RESULT = (isinstance(b, A), issubclass(type(b), A), type(b) == A, issubclass(A, B), type(b).__name__, B.__mro__[1].__name__, isinstance(3, int), isinstance({}, dict))
''', "(True, True, False, False, 'B', 'A', True, True)"),
    ("classmethod-staticmethod-classattr", '''
class A:
    COUNT = {}
    FLAG = False
    @classmethod
    def make(cls): return cls.__name__
    @staticmethod
    def st(x): return x + 1
    def bump(self): self.COUNT.update({1: 2}); return self.FLAG
class B(A): pass
B.FLAG = True
RESULT = (B.make(), A.st(1), B().bump(), A().bump(), A.COUNT)
''', "('B', 2, True, False, {1: 2})"),
    ("sorted-stable-key-reverse", '''
data = [("b", 1), ("a", 1), ("c", 0)]
RESULT = (sorted(data, key=lambda p: p[1]), sorted([3, 1, 2], reverse=True), sorted(data, key=lambda p: p[1], reverse=True))
''', "([('c', 0), ('b', 1), ('a', 1)], [3, 2, 1], [('b', 1), ('a', 1), ('c', 0)])"),
    ("min-max-any-all-sum-enumerate-zip", '''
RESULT = (min(3, 1), max([1, 5, 2]), any([0, "", 3]), all([1, [], 3]), sum([1, 2, 3]), list(enumerate("ab", 1)), list(zip([1, 2], "xy")), max(1, 0), int(2.9 * 1), 5 / 2, 7 // 2)
''', "(1, 5, True, False, 6, [(1, 'a'), (2, 'b')], [(1, 'x'), (2, 'y')], 1, 2, 2.5, 3)"),
    ("mappingproxy-readonly", '''
import types
d = {"a": {"b": 1}}
p = types.MappingProxyType({k: types.MappingProxyType(dict(v.items())) for k, v in d.items()})
d["a"]["b"] = 2
r = p["a"]["b"]
p["z"] = 1
''', "raise TypeError"),
    ("hash-collision-minus-one-minus-two", '''
RESULT = (hash((-1, "x")) == hash((-2, "x")), hash((1,)) == hash((2,)), {hash(-1): "a"}.get(hash(-2)))
''', "(True, False, 'a')"),
    ("raise-from-and-reraise", '''
def f():
    try:
        try:
            raise KeyError("k")
        except KeyError as e:
            raise ValueError("bad") from e
    except ValueError:
        raise
f()
''', "raise ValueError"),
    ("recursion-budget-is-recursion-error", '''
def f(n): return f(n + 1)
f(0)
''', "raise RecursionError"),
    ("iterator-one-shot", '''
it = iter([1, 2])
a = list(it)
b = list(it)
RESULT = (a, b, next(iter([7])), next(iter([]), "dflt"))
''', "([1, 2], [], 7, 'dflt')"),
    ("multiple-inheritance-mro", '''
class V: pass
class S(V): pass
class R(V): pass
class G(S, R): pass
RESULT = ([c.__name__ for c in G.__mro__], G.__base__.__name__)
''', "(['G', 'S', 'R', 'V', 'object'], 'S')"),
    ("unpacking", '''
a, (b, c), *d = 1, (2, 3), 4, 5
x, y = y0, x0 = 1, 2
RESULT = (a, b, c, d, x, y)
''', "(1, 2, 3, [4, 5], 1, 2)"),
    ("unpack-mismatch", '''
a, b = [1, 2, 3]
''', "raise ValueError"),
    ("none-attribute", '''
None.links
''', "raise AttributeError"),
    ("match-statement", '''
def f(x):
    match x:
        case 0 | 1:
            return "small"
        case [a, b]:
            return ("pair", a, b)
        case str() as s_:
            return ("str", s_)
        case None:
            return "none"
        case _:
            return "other"
RESULT = (f(1), f([1, 2]), f("z"), f(None), f(3.5))
''', "('small', ('pair', 1, 2), ('str', 'z'), 'none', 'other')"),
    ("with-suppress-and-return-through-with", '''
import contextlib
log = []
class CM:
    def __enter__(self): log.append("in"); return self
    def __exit__(self, t, e, tb): log.append("out"); return False
def f():
    with CM():
        return 1
def g():
    with contextlib.suppress(KeyError):
        {}["k"]
        log.append("unreached")
    return "after"
RESULT = (f(), g(), log)
''', "(1, 'after', ['in', 'out'])"),
    ("lru-cache-defaultdict-partial", '''
import functools, collections
calls = []
@functools.lru_cache(maxsize=None)
def sq(x):
    calls.append(x)
    return x * x
d = collections.defaultdict(list)
d["a"].append(1); d["a"].append(2)
p = functools.partial(lambda a, b: a - b, 10)
RESULT = (sq(3), sq(3), calls, dict(d), p(4))
''', "(9, 9, [3], {'a': [1, 2]}, 6)"),
    ("json-canonical", '''
import json
RESULT = json.dumps({"b": 1, "a": 2}, sort_keys=True) == json.dumps({"a": 2, "b": 1}, sort_keys=True), json.dumps({"a": 1}, sort_keys=True) == json.dumps({"a": 2}, sort_keys=True)
''', "(True, False)"),
    ("value-eq-with-identity-hash-in-list-set-dict", '''
class Base:
    pass
class V(Base):
    def __init__(self, k): self.k = k
    def __eq__(self, other): return isinstance(other, V) and self.k == other.k
    __hash__ = Base.__hash__
class W:
    def __init__(self, k): self.k = k
    def __eq__(self, other): return isinstance(other, W) and self.k == other.k
    def __hash__(self): return hash(self.k)
a, b = V(1), V(1)
c, d = W(1), W(1)
s = {a}; dd = {a: 1}; t = {c}
s.add(b); t.add(d)
RESULT = (b in [a], b in s and len(s), b in {a}, b in dd, len({a, b}), d in [c], d in {c}, len(t), a == b, hash(a) == hash(a))
''', "(True, 2, False, False, 2, True, True, 1, True, True)"),
    ("vars-and-dunder-dict-are-the-live-instance-dictionary", '''
class A:
    def __init__(self): self.x = 1; self._t = 2
a = A()
d = vars(a)
del d["_t"]
d["y"] = 5
a.__dict__["z"] = 6
c = dict(vars(a)); c["w"] = 0
a.x = 9
RESULT = (sorted(vars(a)), hasattr(a, "_t"), a.y, a.z, d["x"], hasattr(a, "w"), vars(a) is a.__dict__)
''', "(['x', 'y', 'z'], False, 5, 6, 9, False, True)"),
    ("format-missing-keyword", '''
RESULT = "{a}-{b}".format(a=1)
''', "raise KeyError"),
    ("format-missing-position", '''
RESULT = "{}-{}".format(1)
''', "raise IndexError"),
    ("private-names-mangled-in-class-bodies", '''
class A:
    __limit = 3
    def __helper(self, x):
        return x + self.__limit
    def run(self, x):
        __tmp = self.__helper(x)
        return __tmp
class B(A):
    def __helper(self, x):
        return -1
RESULT = (B().run(1), sorted(k for k in vars(A) if "helper" in k or "limit" in k), hasattr(A, "__helper"))
''', "(4, ['_A__helper', '_A__limit'], False)"),
    ("user-subclass-of-dict-and-list", '''
class Memo(dict):
    hits = 0
    def knows(self, q): return q in self
    def recall(self, q): return list(self[q])
    def remember(self, q, a): self[q] = list(a)
    def __setitem__(self, k, v):
        self.last = k
        super().__setitem__(k, v)
class Stack(list):
    def __init__(self, *a):
        super().__init__(a)
        self.tag = "s"
    def push(self, x): self.append(x); return self
m = Memo()
m.remember((1, 2), [3])
m[(4,)] = [5]
s = Stack(1, 2).push(3)
RESULT = (m.knows((1, 2)), m.knows((9,)), m.recall((1, 2)), m.last, len(m), isinstance(m, dict), type(m).__name__, dict(m) == {(1, 2): [3], (4,): [5]},
          list(s), s.tag, isinstance(s, list), bool(Memo()), sorted(m))
''', "(True, False, [3], (4,), 2, True, 'Memo', True, [1, 2, 3], 's', True, False, [(1, 2), (4,)])"),
    ("metaclass-dunders-apply-to-classes", '''
class Meta(type):
    live = {}
    def __len__(cls): return 1 if cls in Meta.live else 0
class NMeta(type):
    def __eq__(cls, other): return isinstance(other, NMeta) and cls.__name__ == other.__name__
    def __hash__(cls): return hash(cls.__name__)
class A(metaclass=Meta): pass
class B(metaclass=Meta): pass
Meta.live[A] = 1
S1 = NMeta("Service", (), {})
S2 = NMeta("Service", (), {})
T = NMeta("Other", (), {})
d = {S1: "one"}
RESULT = (bool(A), bool(B), "yes" if B else "no", S1 == S2, S1 is S2, S1 == T, S2 in d, T in d, d[S2], len({S1, S2, T}), S2 in [S1])
''', "(True, False, 'no', True, False, False, True, False, 'one', 2, True)"),
    ("contextmanager-plain-and-try-shapes", '''
import contextlib
LOG = []
@contextlib.contextmanager
def plain(tag):
    LOG.append(("enter", tag))
    yield tag.upper()
    LOG.append(("exit", tag))
@contextlib.contextmanager
def guarded(tag):
    LOG.append(("enter", tag))
    try:
        yield
    except KeyError:
        LOG.append(("swallowed", tag))
    finally:
        LOG.append(("finally", tag))
    LOG.append(("after", tag))
with plain("a") as v:
    LOG.append(("body", v))
try:
    with plain("b"):
        raise ValueError("x")
except ValueError:
    LOG.append(("propagated", "b"))
with guarded("c"):
    pass
with guarded("d"):
    raise KeyError("k")
try:
    with guarded("e"):
        raise ValueError("v")
except ValueError:
    LOG.append(("propagated", "e"))
RESULT = LOG
''', "[('enter', 'a'), ('body', 'A'), ('exit', 'a'), ('enter', 'b'), ('propagated', 'b'), ('enter', 'c'), ('finally', 'c'), ('after', 'c'), ('enter', 'd'), ('swallowed', 'd'), ('finally', 'd'), ('after', 'd'), ('enter', 'e'), ('finally', 'e'), ('propagated', 'e')]"),
    ("weak-containers-behave-as-containers-while-keys-live", '''
import weakref
class K: pass
a, b = K(), K()
d = weakref.WeakKeyDictionary()
d[a] = 1
s = weakref.WeakSet()
s.add(b)
RESULT = (a in d, b in d, d.get(a), len(d), b in s, a in s)
''', "(True, False, 1, 1, True, False)"),
    ("contextmanager-as-method", '''
import contextlib
class L:
    def __init__(self): self.busy = False; self.log = []
    @contextlib.contextmanager
    def _updating(self, tag):
        self.busy = True
        yield
        self.busy = False
    def work(self, fail):
        with self._updating("w"):
            self.log.append(self.busy)
            if fail:
                raise IndexError("x")
l = L()
l.work(False)
try:
    l.work(True)
except IndexError:
    pass
RESULT = (l.log, l.busy)
''', "([True, True], True)"),
    ("singledispatch-nearest-class-along-the-mro", '''
import functools, types
class A: pass
class B(A): pass
class C(B): pass
@functools.singledispatch
def kind(x): return "object"
@kind.register(A)
def _(x): return "A"
@kind.register(C)
def _(x): return "C"
@kind.register(types.MappingProxyType)
def _(x): return "proxy"
@kind.register(dict)
def _(x): return "dict"
RESULT = (kind(1), kind(A()), kind(B()), kind(C()), kind({}), kind(types.MappingProxyType({})))
''', "('object', 'A', 'A', 'C', 'dict', 'proxy')"),
    ("user-equality-inside-tuples-and-lru-cache", '''
import functools
class P:
    def __init__(self, k, tag): self.k, self.tag = k, tag
    def __eq__(self, o): return isinstance(o, P) and o.k == self.k
    def __hash__(self): return hash(self.k)
a, x, b = P(1, "a"), P(1, "x"), P(2, "b")
label = functools.lru_cache(maxsize=None)(lambda p: p.tag)
d = {(a, 1): "first"}
RESULT = ((a,) == (x,), (a, b) == (x, b), (a,) == (b,), [a] == [x], (x, 1) in d, d.get((b, 1)), label(a), label(x), label(b), [a, b].index(x), (a, 2) in d)
''', "(True, True, False, True, True, None, 'a', 'a', 'b', 0, False)"),
    ("dataclass-fields-defaults-factories-eq", '''
import dataclasses
@dataclasses.dataclass
class G:
    comps: list = dataclasses.field(default_factory=list)
    links: set = dataclasses.field(default_factory=set)
    n: int = 3
    def total(self): return len(self.comps) + len(self.links) + self.n
@dataclasses.dataclass(eq=False)
class F:
    seen: set
    queue: list = dataclasses.field(default_factory=list)
    def enter(self, v):
        self.seen.add(v); self.queue.append(v)
a, b = G(), G()
a.comps.append("x"); a.links |= {1, 2}
f = F(set()); f.enter(5)
try:
    F()
    missing = "no error"
except TypeError:
    missing = "TypeError"
RESULT = (a.total(), b.total(), a == G(["x"], {1, 2}), a == b, b.comps is a.comps, f.queue, sorted(f.seen), F(set()) == F(set()), missing, G(n=7).n)
''', "(6, 3, True, False, False, [5], [5], False, 'TypeError', 7)"),
    ("itertools-count-compress-product-chain", '''
import itertools
idx = dict(zip(map(str, "abc"), itertools.count()))
cells = list(itertools.compress(itertools.count(), [0, 1, 1, 0, 1]))
pairs = list(itertools.product("ab", repeat=2))
flat = list(itertools.chain.from_iterable([[1], [2, 3], []]))
c = itertools.count(10, 2)
RESULT = (idx, cells, pairs[:3], flat, next(c), next(c))
''', "({'a': 0, 'b': 1, 'c': 2}, [1, 2, 4], [('a', 'a'), ('a', 'b'), ('b', 'a')], [1, 2, 3], 10, 12)"),
    ("enum-members", '''
import enum
class Lazy(enum.Enum):
    SAVE = "realsave"
    MEMO = "realmemoize"
    WRITE = "realwrite"
    def describe(self): return self.name.lower()
k = Lazy.SAVE
q = [(Lazy.WRITE, (1,)), (Lazy.SAVE, (2,))]
RESULT = (k.value, k.name, k is Lazy.SAVE, k is Lazy.MEMO, Lazy("realmemoize") is Lazy.MEMO, [m.name for m in Lazy], q[1][0] is Lazy.SAVE, k.describe(), k == Lazy.SAVE, k != Lazy.WRITE, isinstance(k, Lazy), {Lazy.SAVE: 1}[k])
''', "('realsave', 'SAVE', True, False, True, ['SAVE', 'MEMO', 'WRITE'], True, 'save', True, True, True, 1)"),
    ("attrgetter-walks-dotted-names", '''
import operator
class O: pass
o = O(); o.net = O(); o.net.role = "inner"
setattr(o, "net.role", "flat")
try:
    operator.attrgetter("x.y")(o)
    missing = "no error"
except AttributeError:
    missing = "AttributeError"
RESULT = (operator.attrgetter("net.role")(o), getattr(o, "net.role"), hasattr(o, "net.role"), missing)
''', "('inner', 'flat', True, 'AttributeError')"),
    ("containers-changed-while-iterated", '''
xs = [1, 2, 3, 4]
seen = []
for x in xs:
    seen.append(x)
    if x == 2:
        xs.remove(1)
ys = [1, 2]
grown = []
for y in ys:
    grown.append(y)
    if len(ys) < 4:
        ys.append(y + 10)
d = {"a": 1, "b": 2}
try:
    for k in d:
        d[k + "x"] = 0
    dres = "no error"
except RuntimeError:
    dres = "RuntimeError"
s = {1}
try:
    for e in s:
        s.add(e + 1)
    sres = "no error"
except RuntimeError:
    sres = "RuntimeError"
zs = [1, 2, 3]
comp = [z for z in zs if (zs.pop() if z == 1 else True)]
RESULT = (seen, grown, dres, sres, comp)
''', "([1, 2, 4], [1, 2, 11, 12], 'RuntimeError', 'RuntimeError', [1, 2])"),
    ("generators-run-lazily-between-requests", '''
LOG = []
def drain(stack):
    while stack:
        batch = stack[-1]
        if batch:
            yield batch.pop()
        else:
            del stack[-1]
stack = [[1]]
order = []
for v in drain(stack):
    order.append(v)
    if v < 4:
        stack.append([v + 10, v + 1])
def noisy():
    for i in range(5):
        LOG.append(("produce", i))
        yield i
first_two = []
for x in noisy():
    first_two.append(x)
    if x == 1:
        break
def outer():
    yield "a"
    yield from inner()
    yield "z"
def inner():
    LOG.append("inner-started")
    yield "b"
    return "done"
g = outer()
a = next(g)
started_after_first = "inner-started" in LOG
rest = list(g)
def failing():
    yield 1
    raise ValueError("boom")
f = failing()
got = [next(f)]
try:
    next(f)
except ValueError:
    got.append("ValueError")
got.append(next(f, "exhausted"))
RESULT = (order, first_two, [e for e in LOG if e != "inner-started"], started_after_first, rest, got)
''', "([1, 2, 3, 4, 13, 12, 11], [0, 1], [('produce', 0), ('produce', 1)], False, ['b', 'z'], [1, 'ValueError', 'exhausted'])"),
    ("intenum-and-operator-module", '''
import enum, functools, itertools, operator
class Ev(enum.IntEnum):
    HIT = 0
    MISS = 1
    INS = 3
totals = [0] * (max(Ev) + 1)
totals[Ev.MISS] += 2
ends = itertools.chain((1, None, 2), [None, 3])
kept = list(filter(functools.partial(operator.is_not, None), ends))
RESULT = (len(Ev), [e.name for e in Ev], totals, Ev.MISS == 1, Ev(3) is Ev.INS, Ev.HIT.value, isinstance(Ev.HIT, int), kept, operator.contains([1, 2], 2), sorted(Ev, reverse=True)[0].name)
''', "(3, ['HIT', 'MISS', 'INS'], [0, 2, 0, 0], True, True, 0, True, [1, 2, 3], True, 'INS')"),
]


def to_py(v, depth=0):
    """abstract value -> plain Python value for repr comparison."""
    if isinstance(v, Seq):
        items = [to_py(x, depth + 1) for x in v.items]
        return tuple(items) if v.kind == "tuple" else items
    if isinstance(v, DictV):
        return {to_py(k, depth + 1): to_py(x, depth + 1) for k, x in v.pairs}
    if isinstance(v, SetV):
        return set(to_py(x, depth + 1) for x in v.items)
    return v


def run_controls(res=None):
    """-> list of (name, ok, detail)."""
    out = []
    w = World(Source(overlay={}))
    for i, (name, text, expected) in enumerate(PROGRAMS):
        w.reset_run(())
        w.depth_budget = 60
        try:
            m = w.load_text(f"verif_control_{i}", text)
            got = repr(to_py(m.globals.get("RESULT")))
        except Raised as r:
            got = "raise " + r.exc.cls.name
        except Unknown as u:
            got = f"UNKNOWN({u})"
        except Exception as e:  # noqa: BLE001
            got = f"CRASH({type(e).__name__}: {e})"
        w.mods.pop(f"verif_control_{i}", None)
        ok = got == expected
        out.append((name, ok, "" if ok else f"expected {expected}, evaluator gives {got}"))
        if res is not None:
            res.control("AE:" + name, ok, out[-1][2])
    # evaluator housekeeping: a generator left suspended by a finished run gives its thread back at the next run, and none of its
    # interpreted code (finally blocks, with-exits) runs while that happens
    import threading
    w.reset_run(())
    m = w.load_text("verif_control_abandon", """
LOG = []
class CM:
    def __enter__(self):
        return self
    def __exit__(self, *a):
        LOG.append("exit")
def inner():
    try:
        yield 1
        yield 2
    finally:
        LOG.append("inner-finally")
def gen():
    with CM():
        try:
            yield from inner()
        finally:
            LOG.append("finally")
gs = [gen() for _ in range(3)]
firsts = [next(g) for g in gs]
""")
    log = m.globals["LOG"]
    before = threading.active_count()
    w.reset_run(())
    name, ok = "suspended-generators-reclaimed-without-running-their-code", before >= 7 and threading.active_count() == 1 and not w.live_gens and not log.items
    w.mods.pop("verif_control_abandon", None)
    out.append((name, ok, "" if ok else f"threads before {before}, after {threading.active_count()}, live {len(w.live_gens)}, log {to_py(log)}"))
    if res is not None:
        res.control("AE:" + name, ok, out[-1][2])
    return out


if __name__ == "__main__":
    bad = 0
    results = run_controls()
    for name, ok, d in results:
        if not ok:
            bad += 1
            print("FAIL", name, d)
    print(f"{len(results) - bad}/{len(results)} controls behave")
