"""CLI: /venv/bin/python -m sa.check <property id> --tier quick|thorough

Exit codes: 0 every obligation discharged; 1 VIOLATION (unlisted finding); 2 ANALYSIS-ERROR /
UNDECIDED (no verdict).  The deciding step reads /repo's working tree on every run."""
from __future__ import annotations
import argparse
import importlib
import os
import sys
import traceback

from .report import Result
from .src import Source, SourceError


class Ctx:
    def __init__(self, pid, tier, seed, source=None):
        self.pid, self.tier, self.seed = pid, tier, seed
        self.src = source or Source()
        self.thorough = tier == "thorough"


def run_property(pid, tier, seed, source=None, quiet=False, with_controls=True):
    mod = importlib.import_module(f"rules.{pid.lower()}")
    ctx = Ctx(pid, tier, seed, source)
    res = Result(pid, tier, seed, getattr(mod, "LEVEL", "proof"))
    ctx.res = res
    if with_controls:
        from . import controls
        controls.run_controls(res)          # AE conformance controls: a failure ends the run with exit 2
        if hasattr(mod, "controls"):
            mod.controls(ctx)
    mod.run(ctx)
    if hasattr(mod, "run_warnings_as_errors") and calls_warnings_warn(ctx.src):
        # second pass under `python -W error`: every warnings.warn() in the tree raises its category.  Only for trees that warn at all.
        from . import ae as _ae
        _ae.WARNINGS_AS_ERRORS = True
        res.mode = "warnings-as-errors"
        try:
            mod.run_warnings_as_errors(ctx)
        finally:
            _ae.WARNINGS_AS_ERRORS = False
            res.mode = None
        res.note("the tree calls warnings.warn(): the mutator obligations were evaluated a second time with warnings turned into errors (python -W error)")
    if hasattr(mod, "run_optimized") and uses_assert_or_debug(ctx.src):
        # extra pass under `python -O`: assert statements do nothing, __debug__ is False.  Only for trees that have either.
        from . import ae as _ae
        _ae.OPTIMIZE = True
        res.mode = "python-O"
        try:
            mod.run_optimized(ctx)
        finally:
            _ae.OPTIMIZE = False
            res.mode = None
        res.note("the tree contains assert statements or names __debug__: the obligations were evaluated once more as under `python -O`")
    if with_controls and tier == "thorough" and source is None and os.environ.get("VERIF_SELFTEST") == "1":
        # both-ways self-test of this property's checker against the current tree (in memory); reported, not gating.  Since the
        # history engines it costs minutes per property, so it is opt-in (VERIF_SELFTEST=1) or run for everything at once with
        # `python -m sa.selftest` (last full result: seeded/selftest_result.json)
        try:
            from . import selftest
            st = selftest.run(src=ctx.src, only=pid)
            res.extra["selftest"] = st
            for u in st["unexpected"]:
                res.note(f"self-test: seeded change {u['seed']} expected {u['expected']} but the check gave {u['got']} ({u['detail']})")
        except Exception as e:  # noqa: BLE001
            res.note(f"self-test could not run: {type(e).__name__}: {e}")
    return res


def calls_warnings_warn(src):
    """does the package call warnings.warn (or a `warn` imported from warnings) anywhere?"""
    import ast
    for rel in src.relpaths():
        try:
            tree = src.tree(rel)
        except SourceError:
            continue
        for n in ast.walk(tree):
            if isinstance(n, ast.Call):
                f = n.func
                if (isinstance(f, ast.Attribute) and f.attr == "warn" and isinstance(f.value, ast.Name) and f.value.id in ("warnings", "_warnings")) or (isinstance(f, ast.Name) and f.id in ("warn", "_warn")):
                    return True
    return False


def uses_assert_or_debug(src):
    import ast
    for rel in src.relpaths():
        try:
            tree = src.tree(rel)
        except SourceError:
            continue
        for n in ast.walk(tree):
            if isinstance(n, ast.Assert) or (isinstance(n, ast.Name) and n.id == "__debug__"):
                return True
    return False


def main(argv=None):
    ap = argparse.ArgumentParser()
    ap.add_argument("pid")
    ap.add_argument("--tier", default=os.environ.get("VERIF_TIER", "quick"), choices=["quick", "thorough"])
    a = ap.parse_args(argv)
    seed = int(os.environ.get("VERIF_SEED", "0") or 0)
    pid = a.pid.upper()
    try:
        res = run_property(pid, a.tier, seed)
        try:
            code = res.finish()
        except BrokenPipeError:
            code = 1 if any(True for f in res.findings) else (2 if res.undecided else 0)
            return code
    except SourceError as e:
        print(f"ANALYSIS-ERROR property={pid}: {e}")
        _fallback_evidence(pid, a.tier, seed, str(e))
        code = 2
    except Exception:  # noqa: BLE001 - tracebacks must not look like violations
        traceback.print_exc()
        print(f"ANALYSIS-ERROR property={pid}: internal error in the checker (traceback above)")
        _fallback_evidence(pid, a.tier, seed, "internal error")
        code = 2
    try:
        sys.stdout.flush()
    except BrokenPipeError:
        pass
    return code


def _fallback_evidence(pid, tier, seed, why):
    try:
        r = Result(pid, tier, seed, "other")
        r.undecide(why)
        r.explanation = "analysis error: " + why
        r.write_evidence(2, 0)
    except Exception:  # noqa: BLE001
        pass


if __name__ == "__main__":
    sys.path.insert(0, os.path.dirname(os.path.dirname(os.path.abspath(__file__))))
    sys.exit(main())
