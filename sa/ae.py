"""AE - abstract evaluator for the Python subset edgegraph is written in.

It evaluates *AST nodes under abstract semantics*: repository code is never compiled or
executed by CPython.  Values are abstract (symbolic individuals, opaque list segments,
symbolic strings, digests, scripted callbacks, external recorders); a condition is True,
False or undecided, and an undecided condition either forks (recorded choice, re-execution)
or ends the evaluation as `Unknown` (=> UNDECIDED, never a verdict).  There is no solver
and no path-constraint store.
"""
from __future__ import annotations
import ast
import itertools
import sys

from .src import Source, SourceError, PKG

sys.setrecursionlimit(20000)


# ----------------------------------------------------------------------------- control
class Unknown(Exception):
    """The abstract semantics cannot decide: obligation UNDECIDED (exit 2), never a violation."""


class Raised(Exception):
    """An exception of the interpreted program."""

    def __init__(self, exc: "Obj"):
        super().__init__(exc.cls.name)
        self.exc = exc

    @property
    def name(self):
        return self.exc.cls.name

    def __str__(self):
        return f"{self.exc.cls.name}({self.exc.fields.get('msg', '')})"


class _Return(Exception):
    def __init__(self, v):
        self.v = v


class _Continue(Exception):
    pass


class _Break(Exception):
    pass


# ----------------------------------------------------------------------------- values
class ClassV:
    def __init__(self, name, bases=(), module=None, node=None, meta=None, builtin=False, qual=None):
        self.name, self.bases, self.module, self.node = name, list(bases), module, node
        self.meta = meta
        self.builtin = builtin
        self.qual = qual or name
        self.dict: dict = {}
        self.mro = self._c3()
        if self.meta is None:
            for b in self.bases:
                if b.meta is not None:
                    self.meta = b.meta
                    break

    def _c3(self):
        seqs = [list(b.mro) for b in self.bases] + [list(self.bases)]
        res = [self]
        seqs = [s for s in seqs if s]
        while seqs:
            for s in seqs:
                h = s[0]
                if not any(h in t[1:] for t in seqs):
                    break
            else:
                raise Unknown("inconsistent MRO")
            res.append(h)
            seqs = [[x for x in t if x is not h] for t in seqs]
            seqs = [t for t in seqs if t]
        return res

    def lookup(self, name):
        for c in self.mro:
            if name in c.dict:
                return c.dict[name], c
        return None, None

    def issub(self, other):
        return other in self.mro

    def __repr__(self):
        return f"<class {self.qual}>"


class Func:
    def __init__(self, node, module, cls=None, env=None, defaults=None, kwdefaults=None, qual=None):
        self.node, self.module, self.cls, self.env = node, module, cls, env
        self.defaults = defaults or []
        self.kwdefaults = kwdefaults or {}
        self.name = getattr(node, "name", "<lambda>")
        self.qual = qual or self.name
        self.is_gen = _is_generator(node)
        self.attrs = {}

    def __repr__(self):
        return f"<func {self.qual}>"


def _is_generator(node):
    """Does the function body contain a yield of its own?  Memoised on the AST node itself (an id()-keyed cache would be
    poisoned when node ids are re-used after garbage collection)."""
    cached = getattr(node, "_verif_is_gen", None)
    if cached is not None:
        return cached
    found = False
    stack = list(node.body) if isinstance(node.body, list) else [node.body]
    while stack:
        n = stack.pop()
        if isinstance(n, (ast.Yield, ast.YieldFrom)):
            found = True
            break
        if isinstance(n, (ast.FunctionDef, ast.AsyncFunctionDef, ast.Lambda, ast.ClassDef)):
            continue
        stack.extend(ast.iter_child_nodes(n))
    node._verif_is_gen = found
    return found


class Prop:
    def __init__(self, fget=None, fset=None, fdel=None):
        self.fget, self.fset, self.fdel = fget, fset, fdel


class ClassMethod:
    def __init__(self, f):
        self.f = f


class StaticMethod:
    def __init__(self, f):
        self.f = f


class Bound:
    def __init__(self, func, self_obj):
        self.func, self.self_obj = func, self_obj

    def __repr__(self):
        return f"<bound {self.func!r} of {self.self_obj!r}>"


class Builtin:
    """A modelled built-in / external / harness function: fn(interp, *args, **kw)."""

    def __init__(self, name, fn, cls=None):
        self.name, self.fn, self.cls = name, fn, cls

    def __repr__(self):
        return f"<builtin {self.name}>"


class Callback:
    """User callable scripted by the harness.  script(interp, n, args, kw) -> value (may raise Raised).
    Every invocation is logged.  Assumed not to touch the graph."""

    def __init__(self, name, script=None):
        self.name, self.script = name, script
        self.calls: list = []

    def __repr__(self):
        return f"<callback {self.name}>"


class FieldDict(dict):
    """Instance dictionary that lets the *harness* address state fields by their canonical names (`_links`, `_vertices`, ...)
    when the tree under analysis has renamed them: canonical name -> actual name (discovered by role, sa.harness.discover_fields).
    The evaluator itself always uses the names written in the source."""
    __slots__ = ("alias",)

    def __init__(self, alias):
        super().__init__()
        self.alias = alias

    def __getitem__(self, k):
        return dict.__getitem__(self, self.alias.get(k, k))

    def __setitem__(self, k, v):
        dict.__setitem__(self, self.alias.get(k, k), v)

    def __delitem__(self, k):
        dict.__delitem__(self, self.alias.get(k, k))

    def __contains__(self, k):
        return dict.__contains__(self, self.alias.get(k, k))

    def get(self, k, d=None):
        return dict.get(self, self.alias.get(k, k), d)

    def pop(self, k, *d):
        return dict.pop(self, self.alias.get(k, k), *d)


FIELD_ALIASES: list = []   # [(class value, {canonical: actual})], most specific first; empty = no renamed state field


def _fields_for(cls):
    for c, alias in FIELD_ALIASES:
        if c in cls.mro:
            return FieldDict(alias)
    return {}


class Obj:
    def __init__(self, cls, name=None, fields=None):
        self.cls, self.name = cls, name
        self.fields: dict = fields if fields is not None else (_fields_for(cls) if FIELD_ALIASES else {})

    def __repr__(self):
        return self.name or f"<{self.cls.name}>"


class Seg:
    """Opaque list segment: zero or more elements, each a non-None object that is none of the
    named individuals of the obligation."""

    def __init__(self, name):
        self.name = name
        self.generic = None

    def __repr__(self):
        return f"<{self.name}>"


class Seq:
    def __init__(self, items=(), kind="list"):
        self.items, self.kind = list(items), kind

    def has_seg(self):
        return any(type(i) is Seg for i in self.items)

    def __repr__(self):
        inner = ", ".join(map(repr, self.items))
        return {"list": "[%s]", "tuple": "(%s)", "deque": "deque[%s]"}[self.kind] % inner


class SetV:
    """`opaque`: the set additionally holds zero or more anonymous elements, none of which is a named individual."""
    opaque = False

    def __init__(self, items=(), frozen=False):
        self.items = []
        self.frozen = frozen
        for x in items:
            if not any(keq(x, y) for y in self.items):
                self.items.append(x)

    def __repr__(self):
        return "{%s}" % ", ".join(map(repr, self.items)) if self.items else "set()"


class DictV:
    """`opaque`: the dict additionally holds zero or more entries whose keys are anonymous (no named individual)."""
    opaque = False

    def __init__(self, pairs=()):
        self.pairs = [list(p) for p in pairs]

    def __repr__(self):
        return "{%s}" % ", ".join(f"{k!r}: {v!r}" for k, v in self.pairs)


class _LivePair(list):
    def __init__(self, fields, k, v):
        super().__init__([k, v])
        self._f = fields

    def __setitem__(self, i, v):
        super().__setitem__(i, v)
        if i == 1:
            self._f[self[0]] = v


class _LivePairs(list):
    """The (key, value) list of an instance dictionary: every mutation writes through to the object's fields."""

    def __init__(self, fields):
        super().__init__(_LivePair(fields, k, v) for k, v in fields.items())
        self._f = fields

    def append(self, p):
        self._f[p[0]] = p[1]
        super().append(_LivePair(self._f, p[0], p[1]))

    def __delitem__(self, i):
        for p_ in (self[i] if isinstance(i, slice) else [self[i]]):
            del self._f[p_[0]]
        super().__delitem__(i)

    def pop(self, i=-1):
        p_ = self[i]
        del self._f[p_[0]]
        return super().pop(i)

    def clear(self):
        self._f.clear()
        super().clear()


class LiveDictV(DictV):
    """vars(obj) / obj.__dict__: the instance dictionary itself, not a copy."""

    def __init__(self, obj):
        self.obj = obj

    @property
    def pairs(self):
        return _LivePairs(self.obj.fields)

    @pairs.setter
    def pairs(self, v):
        self.obj.fields.clear()
        for k, x in v:
            self.obj.fields[k] = x


def live_dict(o):
    d = getattr(o, "_verif_livedict", None)
    if d is None:
        d = o._verif_livedict = LiveDictV(o)
    return d


class ProxyV:
    """types.MappingProxyType view."""

    def __init__(self, d):
        self.d = d

    def __repr__(self):
        return f"proxy({self.d!r})"


class UserStr(str):
    """a string object of the caller's own (built at run time, read from a file, a literal of another module): equal to, but not the
    same object as, any string constant of the tree.  `is` tells them apart, `==` does not."""


class IterV:
    def __init__(self, items):
        self.items, self.pos = list(items), 0


class GenV:
    """Generator.  Its body runs in a thread of its own that is handed control for exactly one step at a time (no two threads
    ever run together): the code between two yields runs when the consumer asks for the next element, as in CPython, so a
    consumer that changes state between two elements - or stops early - sees what it would see there.  `trace` holds the elements
    produced so far, `pos` how many of them were consumed."""

    def __init__(self, func, frame):
        self.func, self.frame = func, frame
        self.trace = None
        self.exc = None
        self.ret = None
        self.pos = 0
        self.done = False
        self.thread = None
        self.to_gen = self.to_cons = None
        self.event = None
        self.inner_depth = 0
        self.resume_depth = 0
        self.pygen = None       # a generator expression: stepped by a generator of the evaluator itself (no thread needed: its body is one expression)


class _GenClose(BaseException):
    pass


class _GenAbandon(BaseException):
    """Unwinds the thread of a generator nobody can reach any more (the run that created it is over): no interpreted code runs on
    the way out - neither finally blocks nor handlers - since CPython would not run them at this point either (the object is garbage
    of a finished run; the evaluator only reclaims the thread)."""


class EnumInt(int):
    """a member of an enum.IntEnum class: an int in every respect, with .name / .value and its class"""

    def __new__(cls, value, name, enum_cls):
        o = int.__new__(cls, value)
        o.enum_name, o.enum_cls = name, enum_cls
        return o

    def __repr__(self):
        return f"<{self.enum_cls.name}.{self.enum_name}: {int(self)}>"


class ModuleV:
    def __init__(self, name, ext=False):
        self.name, self.ext = name, ext
        self.globals: dict = {}
        self.rel = None

    def __repr__(self):
        return f"<module {self.name}>"


class ExtV:
    """External object (pyvis Network, file, pickler base ...): attribute stores and calls are
    logged as events; methods may be scripted by the harness."""

    def __init__(self, name, methods=None, attrs=None, log=None):
        self.name = name
        self.methods = methods or {}
        self.attrs = attrs if attrs is not None else {}
        self.log = log if log is not None else []

    def __repr__(self):
        return f"<ext {self.name}>"


class Opaque:
    """Opaque scalar (uuid int, random number, time stamp ...)."""

    def __init__(self, tag, truthy=None, unique=False):
        self.tag = tag
        self.truthy = truthy
        self.unique = unique  # distinct unique opaques are unequal (uuid4 values)

    def __repr__(self):
        return f"?{self.tag}"


class Digest:
    """Result of built-in hash(): equal payload => equal; unequal payload => equality undecided."""

    def __init__(self, payload):
        self.payload = payload

    def __repr__(self):
        return f"hash({self.payload!r})"


class Tok:
    """Abstract attribute value: `==` by `eqclass`, `is` by object identity."""

    def __init__(self, eqclass, name=None):
        self.eqclass, self.name = eqclass, name or f"tok{eqclass}"

    def __repr__(self):
        return self.name


class SAtom:
    """Opaque piece of a symbolic string."""

    def __init__(self, kind, *payload):
        self.kind, self.payload = kind, payload

    def key(self):
        return (self.kind,) + tuple(_hashable(p) for p in self.payload)

    def __repr__(self):
        return f"{self.kind}({', '.join(map(repr, self.payload))})"


def _hashable(p):
    if isinstance(p, SymStr):
        return tuple(x if isinstance(x, str) else x.key() for x in p.parts)
    if isinstance(p, SAtom):
        return p.key()
    if isinstance(p, Seq):
        return (p.kind,) + tuple(_hashable(x) for x in p.items)
    if isinstance(p, DictV):
        return ("dict",) + tuple((_hashable(k), _hashable(v)) for k, v in p.pairs)
    if isinstance(p, (Obj, ClassV, ExtV, Callback, Opaque, Seg, SetV)):
        return ("id", id(p))
    try:
        hash(p)
        return p
    except TypeError:
        return id(p)


class SymStr:
    """Symbolic string: concatenation of literal chunks and opaque atoms (normalised)."""

    def __init__(self, parts):
        out = []
        for p in parts:
            if isinstance(p, SymStr):
                ps = p.parts
            else:
                ps = [p]
            for q in ps:
                if isinstance(q, str):
                    if q == "":
                        continue
                    if out and isinstance(out[-1], str):
                        out[-1] += q
                    else:
                        out.append(q)
                else:
                    out.append(q)
        self.parts = out

    def norm(self):
        return tuple(p if isinstance(p, str) else p.key() for p in self.parts)

    def __repr__(self):
        return "S" + repr(self.parts)


def mkstr(parts):
    s = SymStr(parts)
    if not s.parts:
        return ""
    if len(s.parts) == 1 and isinstance(s.parts[0], str):
        return s.parts[0]
    return s


class SuperV:
    def __init__(self, cls, obj):
        self.cls, self.obj = cls, obj


class Poison:
    """A module-level name whose definition could not be evaluated; any use is Unknown."""

    def __init__(self, why):
        self.why = why


class Missing:
    pass


MISSING = Missing()

_ATOMS = (Obj, ClassV, Opaque, Func, Bound, Builtin, Callback, ExtV, ModuleV, Seg)


# interpreter mode: `python -W error` (warnings.simplefilter("error")) turns every warnings.warn() call into a raise of its category.
# Set by sa.check for the second pass of the checks that have one (a tree that never calls warnings.warn has no such pass).
WARNINGS_AS_ERRORS = False
# interpreter mode: `python -O`: assert statements are not executed and __debug__ is False.  Set by sa.check for the extra pass of the
# checks that have one (only for trees that contain an assert statement or name __debug__).
OPTIMIZE = False

MODELLED_EXTERN_BASES = {"enum.Enum", "enum.IntEnum", "enum.StrEnum", "dill.Pickler", "pickle.Pickler", "pickle._Pickler", "abc.ABC", "typing.Generic", "typing.Protocol"}


_THREAD_STACK_SET = [False]


def _ensure_thread_stack():
    if not _THREAD_STACK_SET[0]:
        import threading
        try:
            threading.stack_size(32 * 1024 * 1024)     # the interpreter recurses deeply; generator bodies run in threads
        except (ValueError, RuntimeError):
            pass
        _THREAD_STACK_SET[0] = True


def id_slot(o):
    """The address an object lives at.  Injective on objects that are alive at the same time; a harness may give a *new* object
    the slot of an object that has become unreachable (CPython re-uses the address of a collected object)."""
    while True:
        n = getattr(o, "_verif_idslot", None)
        if n is None:
            return o
        o = n


def keq(a, b):
    """Abstract `==` used for container keys.  True / False; raises Unknown when undecided."""
    if a is b:
        return True
    if isinstance(a, Seq) and isinstance(b, Seq):
        if (a.kind == "tuple") != (b.kind == "tuple"):
            return False
        if a.has_seg() or b.has_seg():
            raise Unknown("equality of sequences with opaque segments")
        return len(a.items) == len(b.items) and all(keq(x, y) for x, y in zip(a.items, b.items))
    ta, tb = type(a).__name__, type(b).__name__
    if ta == "SymId" or tb == "SymId":
        if ta == tb:
            return id_slot(a.obj) is id_slot(b.obj)
        if isinstance(a, (int, Opaque)) or isinstance(b, (int, Opaque)):
            raise Unknown("id() compared with a number")
        return False
    if ta == "LenV" or tb == "LenV":
        if ta == "LenV" and isinstance(b, int) and b < a.lo or tb == "LenV" and isinstance(a, int) and a < b.lo:
            return False
        raise Unknown("equality with the length of an opaque sequence")
    if isinstance(a, Tok) and isinstance(b, Tok):
        return a.eqclass == b.eqclass
    if isinstance(a, Tok) or isinstance(b, Tok):
        return False
    if isinstance(a, Digest) and isinstance(b, Digest):
        try:
            return _model_hash(a.payload) == _model_hash(b.payload)
        except Unknown:
            pass
        try:
            same = keq(a.payload, b.payload)
        except Unknown:
            same = False
        if same:
            return True
        raise UndecidedCond("hash collision", (a, b))
    if isinstance(a, Digest) or isinstance(b, Digest):
        if isinstance(a, (int, Opaque)) or isinstance(b, (int, Opaque)):
            raise UndecidedCond("digest vs int", (a, b))
        return False
    if isinstance(a, SymStr) or isinstance(b, SymStr):
        return symstr_eq(a, b)
    if isinstance(a, _ATOMS) or isinstance(b, _ATOMS):
        if isinstance(a, Opaque) and isinstance(b, Opaque) and a.unique and b.unique:
            return False
        if isinstance(a, Opaque) and isinstance(b, (int, float, Opaque)) or isinstance(b, Opaque) and isinstance(a, (int, float)):
            raise Unknown(f"equality of opaque scalar {a!r} == {b!r}")
        return False
    if isinstance(a, SetV) and isinstance(b, SetV):
        return len(a.items) == len(b.items) and all(any(keq(x, y) for y in b.items) for x in a.items)
    if isinstance(a, DictV) and isinstance(b, DictV):
        if len(a.pairs) != len(b.pairs):
            return False
        for k, v in a.pairs:
            hit = [w for kk, w in b.pairs if keq(k, kk)]
            if not hit or not keq(v, hit[0]):
                return False
        return True
    if isinstance(a, (SetV, DictV, Seq, ProxyV)) or isinstance(b, (SetV, DictV, Seq, ProxyV)):
        return False
    if isinstance(a, bool) or isinstance(b, bool) or a is None or b is None:
        if isinstance(a, (int, float)) and isinstance(b, (int, float)) and not isinstance(a, type(None)):
            return a == b
        return a is b
    try:
        return bool(a == b)
    except Exception:
        raise Unknown(f"equality {a!r} == {b!r}")


SYM_ATOMS_INJECTIVE = False   # harness promise: atoms with different keys denote different strings


def _model_hash(p):
    """CPython's value model of hash() as far as the library can observe it: small ints hash to themselves except
    hash(-1) == hash(-2); tuples combine element hashes; distinct strings / objects are assumed not to collide."""
    if isinstance(p, bool):
        return int(p)
    if isinstance(p, int):
        return -2 if p == -1 else p
    if isinstance(p, float) and p == int(p):
        return _model_hash(int(p))
    if p is None:
        return ("none",)
    if isinstance(p, str):
        return ("s", p)
    if isinstance(p, SymStr):
        return ("sym", p.norm())
    if isinstance(p, Seq) and p.kind == "tuple" and not p.has_seg():
        return ("t",) + tuple(_model_hash(x) for x in p.items)
    if isinstance(p, (Obj, ClassV, Func, Builtin, Callback)):
        return ("id", id(p))
    if isinstance(p, Tok):
        return ("tok", p.eqclass)
    raise Unknown("hash of " + repr(p))


def symstr_eq(a, b):
    pa = a.parts if isinstance(a, SymStr) else ([a] if isinstance(a, str) and a else [])
    pb = b.parts if isinstance(b, SymStr) else ([b] if isinstance(b, str) and b else [])
    if not isinstance(a, (SymStr, str)) or not isinstance(b, (SymStr, str)):
        return False
    na = tuple(p if isinstance(p, str) else p.key() for p in pa)
    nb = tuple(p if isinstance(p, str) else p.key() for p in pb)
    if na == nb:
        return True
    if len(na) == len(nb) and len(pa) == len(pb):
        # atoms that are injective functions of their payload (canonical JSON text, default repr / hex(id) of distinct live objects)
        differs = False
        for x, y in zip(pa, pb):
            if isinstance(x, str) or isinstance(y, str):
                if x != y:
                    differs = None
                    break
            elif x.key() != y.key():
                if x.kind == y.kind and x.kind in ("Json", "HexId", "Repr", "UuidHex"):
                    differs = True
                else:
                    differs = None
                    break
        if differs:
            return False
    if SYM_ATOMS_INJECTIVE and len(na) == len(nb):
        same_shape = all((isinstance(x, str) and isinstance(y, str) and x == y) or (not isinstance(x, str) and not isinstance(y, str)) for x, y in zip(na, nb))
        if same_shape:
            return False   # same literal skeleton, some atom differs
    if all(isinstance(x, str) for x in na) and all(isinstance(y, str) for y in nb):
        return False
    raise Unknown("equality of distinct symbolic strings")


class UndecidedCond(Unknown):
    """An undecided condition that may be *forked* on (both outcomes realizable)."""

    def __init__(self, why, payload=None):
        super().__init__(why)
        self.why, self.payload = why, payload


# ----------------------------------------------------------------------------- frames
class Frame:
    __slots__ = ("module", "locals", "cls", "self_obj", "func", "env", "yields", "is_class", "globals_decl", "nonlocal_decl", "cur_exc", "lineno", "gen")

    def __init__(self, module, locals_, cls=None, self_obj=None, func=None, env=None, is_class=False):
        self.module, self.locals, self.cls, self.self_obj, self.func, self.env = module, locals_, cls, self_obj, func, env
        self.yields = None
        self.gen = None
        self.is_class = is_class
        self.globals_decl = None
        self.nonlocal_decl = None
        self.cur_exc = None
        self.lineno = 0


def mangle(name, cls):
    if cls is not None and name.startswith("__") and not name.endswith("__"):
        return f"_{cls.name.lstrip('_')}{name}"
    return name


# ----------------------------------------------------------------------------- world
class World:
    """One abstract program: modules of /repo (or overlay) loaded by abstract execution of their
    top-level statements, plus synthetic harness modules."""

    def __init__(self, source: Source | None = None):
        from . import aeb

        self.src = source or Source()
        self.mods: dict[str, ModuleV] = {}
        self.steps = 0
        self.step_budget = 400_000
        self.depth = 0
        self.depth_budget = 90
        self.max_depth = 0
        self.choices: list[int] = []
        self.choice_pos = 0
        self.choice_log: list = []
        self.fork_budget = 64
        self.exploring = False
        self.set_order = "fork"  # or "insertion"
        self.unordered_sort_ok = False  # harness promise: its oracle does not depend on the order of sorted abstract keys
        self.events: list = []
        self.alloc: list = []  # objects allocated during evaluation, in order
        self.ext_overrides: dict = {}
        self.notes: list = []
        self.B = aeb.make_builtins(self)
        self.interp = Interp(self)
        self._snap = None
        self.live_gens: list = []   # generators whose body runs in a thread that is still suspended

    # ---- loading
    def load(self, modname: str) -> ModuleV:
        if modname in self.mods:
            return self.mods[modname]
        rel = self.src.relpath_of(modname)
        if rel is None:
            raise SourceError(f"module {modname} not found in the repository")
        m = ModuleV(modname)
        m.rel = rel
        m.globals["__name__"] = modname
        self.mods[modname] = m
        # parent packages first (as CPython does)
        if "." in modname:
            self.load(modname.rsplit(".", 1)[0])
        self.interp.exec_module(m, self.src.tree(rel))
        return m

    def load_text(self, modname: str, text: str) -> ModuleV:
        """Synthetic module (harness code or a control program)."""
        m = ModuleV(modname)
        m.rel = f"<{modname}>"
        m.globals["__name__"] = modname
        self.mods[modname] = m
        tree = _PARSED.get(text)
        if tree is None:
            tree = _PARSED[text] = ast.parse(text)
        self.interp.exec_module(m, tree, strict=True)
        return m

    def get(self, dotted: str):
        """Resolve 'edgegraph.structure.vertex.Vertex' or '...Vertex.add_to_link' to a value."""
        parts = dotted.split(".")
        for i in range(len(parts), 0, -1):
            name = ".".join(parts[:i])
            if self.src.relpath_of(name) or name in self.mods:
                v = self.load(name) if name not in self.mods else self.mods[name]
                for p in parts[i:]:
                    if isinstance(v, ModuleV):
                        if p not in v.globals:
                            raise SourceError(f"anchor {dotted} not found ({p} missing in {v.name})")
                        v = v.globals[p]
                    elif isinstance(v, ClassV):
                        d, _ = v.lookup(p)
                        if d is None:
                            raise SourceError(f"anchor {dotted} not found ({p} missing in class {v.name})")
                        v = d
                    else:
                        raise SourceError(f"anchor {dotted} not resolvable at {p}")
                if isinstance(v, Poison):
                    raise Unknown(f"{dotted}: {v.why}")
                return v
        raise SourceError(f"anchor {dotted} not found")

    # ---- snapshot/restore of class-level and module-level mutable state
    def snapshot(self):
        self._snap = self.take_snapshot()
        self._lru_snap = [(m, list(m)) for m in getattr(self, "lru_memos", [])]

    def take_snapshot(self):
        snap = []
        seen = set()
        for m in list(self.mods.values()):
            snap.append((m.globals, dict(m.globals)))
            for v in list(m.globals.values()):
                self._snap_class(v, snap, seen)
        return [(d, {k: _deepcopy_state(v) for k, v in s.items()}) for d, s in snap]

    def _snap_class(self, v, snap, seen):
        if isinstance(v, ClassV) and id(v) not in seen and not v.builtin:
            seen.add(id(v))
            snap.append((v.dict, dict(v.dict)))
            for x in list(v.dict.values()):
                self._snap_class(x, snap, seen)

    def restore(self, snap=None):
        snap = snap if snap is not None else self._snap
        if snap is None:
            return
        for d, s in snap:
            d.clear()
            for k, v in s.items():
                d[k] = _deepcopy_state(v)
        # memos of functools.cache / lru_cache wrappers are interpreter state too: back to what they held at the snapshot
        saved = {id(m): c for m, c in getattr(self, "_lru_snap", [])}
        for m in getattr(self, "lru_memos", []):
            m[:] = saved.get(id(m), [])

    def reset_run(self, choices=()):
        self.reset_state()
        self.choices = list(choices)
        self.choice_pos = 0
        self.choice_log = []

    def reclaim_gens(self):
        gens, self.live_gens = self.live_gens, []
        for g in gens:
            self.interp.gen_abandon(g)

    def reset_state(self):
        # a new run starts from the snapshot: no object of the previous run is reachable, so the threads of generators it left
        # suspended are reclaimed (without running any interpreted code)
        self.reclaim_gens()
        self.restore()
        self.steps = 0
        self.depth = 0
        self.max_depth = 0
        self.events = []
        self.alloc = []

    # ---- forking by re-execution
    def choose(self, n, tag):
        """Return an index < n for an undecided n-way condition; recorded, so that the driver can
        re-run with the last open choice flipped."""
        if not self.exploring:
            raise Unknown(f"undecided condition ({tag}) outside a forking exploration")
        if self.choice_pos < len(self.choices):
            c = self.choices[self.choice_pos]
        else:
            if len(self.choices) >= self.fork_budget:
                raise Unknown("fork budget exhausted")
            c = 0
            self.choices.append(0)
        self.choice_log.append((tag, n, c))
        self.choice_pos += 1
        return c

    def explore(self, thunk):
        """Run thunk() for every resolution of undecided conditions (depth-first over choice
        prefixes).  thunk must rebuild its pre-state itself.  Yields (choices, result)."""
        prefix: list[int] = []
        runs = 0
        while True:
            self.reset_run(prefix)
            self.exploring = True
            try:
                res = thunk()
            finally:
                self.exploring = False
            runs += 1
            if runs > 4096:
                raise Unknown("too many forks")
            log = list(self.choice_log)
            yield ([c for _, _, c in log], log, res)
            # next prefix
            while log and log[-1][2] + 1 >= log[-1][1]:
                log.pop()
            if not log:
                return
            prefix = [c for _, _, c in log[:-1]] + [log[-1][2] + 1]


_PARSED: dict = {}


def _deepcopy_state(v, memo=None):
    """Deep copy of mutable abstract containers; functions, classes and objects are shared."""
    if isinstance(v, Seq):
        n = Seq([_deepcopy_state(x) for x in v.items], v.kind)
    elif isinstance(v, DictV) and not isinstance(v, LiveDictV):
        n = DictV([(k, _deepcopy_state(x)) for k, x in v.pairs])
    elif isinstance(v, SetV):
        n = SetV(list(v.items), v.frozen)
    elif isinstance(v, bytearray):
        return bytearray(v)
    else:
        return v
    if getattr(v, "ucls", None) is not None:
        n.ucls, n.ufields = v.ucls, {k: _deepcopy_state(x) for k, x in v.ufields.items()}
    for k_ in ("weak", "factory", "opaque", "frozen"):      # what kind of container it is (weak references, defaultdict factory ...)
        if k_ in getattr(v, "__dict__", {}):
            setattr(n, k_, v.__dict__[k_])
    return n


# ----------------------------------------------------------------------------- interpreter
class Interp:
    def __init__(self, world: World):
        self.w = world

    # ================================================================ modules
    def exec_module(self, m: ModuleV, tree: ast.Module, strict=False):
        fr = Frame(m, m.globals)
        for st in tree.body:
            try:
                self.exec_stmt(st, fr)
            except Unknown as u:
                if strict:
                    raise
                # fail soft: names bound by this statement become poison
                for n in _bound_names(st):
                    m.globals[n] = Poison(f"{m.name}:{getattr(st, 'lineno', 0)}: {u}")
                self.w.notes.append(f"module {m.name} line {getattr(st, 'lineno', 0)}: not evaluable ({u})")
            except Raised as r:
                if strict:
                    raise
                for n in _bound_names(st):
                    m.globals[n] = Poison(f"{m.name}:{getattr(st, 'lineno', 0)}: raises {r}")
                self.w.notes.append(f"module {m.name} line {getattr(st, 'lineno', 0)}: raises {r}")

    def _import_module(self, name, fr):
        """Value for `import name` / the module part of `from name import ...`."""
        top = name.split(".")[0]
        if top == PKG or name in self.w.mods:
            return self.w.load(name) if name not in self.w.mods else self.w.mods[name]
        return self.w.B.ext_module(name)

    def st_Import(self, st, fr):
        for a in st.names:
            if a.asname:
                self._store_name(a.asname, self._import_module(a.name, fr), fr)
            else:
                top = a.name.split(".")[0]
                self._import_module(a.name, fr)
                self._store_name(top, self._import_module(top, fr), fr)

    def st_ImportFrom(self, st, fr):
        if st.module == "__future__":
            return
        if st.level:
            cur = fr.module.name.split(".")
            if not self.w.src.is_pkg(fr.module.name):
                cur = cur[:-1]
            cur = cur[: len(cur) - (st.level - 1)]
            base = ".".join(cur + ([st.module] if st.module else []))
        else:
            base = st.module
        top = base.split(".")[0]
        for a in st.names:
            if a.name == "*":
                raise Unknown("star import")
            if top == PKG:
                sub = base + "." + a.name
                if self.w.src.relpath_of(sub):
                    self.w.load(base)
                    v = self.w.load(sub)
                else:
                    mod = self.w.load(base)
                    if a.name not in mod.globals:
                        raise Raised(self.w.B.mkexc("ImportError", f"cannot import {a.name} from {base}"))
                    v = mod.globals[a.name]
            else:
                v = self.w.B.ext_attr(self.w.B.ext_module(base), a.name)
            self._store_name(a.asname or a.name, v, fr)

    # ================================================================ statements
    def exec_block(self, stmts, fr):
        for st in stmts:
            self.exec_stmt(st, fr)

    def exec_stmt(self, st, fr):
        w = self.w
        w.steps += 1
        if w.steps > w.step_budget:
            raise Unknown("step budget exhausted")
        fr.lineno = getattr(st, "lineno", fr.lineno)
        m = _ST.get(type(st))
        if m is None:
            raise Unknown(f"unsupported statement {type(st).__name__}")
        return m(self, st, fr)

    def st_Expr(self, st, fr):
        self.ev(st.value, fr)

    def st_Pass(self, st, fr):
        pass

    def st_Global(self, st, fr):
        if fr.globals_decl is None:
            fr.globals_decl = set()
        fr.globals_decl.update(st.names)

    def st_Nonlocal(self, st, fr):
        if fr.nonlocal_decl is None:
            fr.nonlocal_decl = set()
        fr.nonlocal_decl.update(st.names)

    def st_Assert(self, st, fr):
        if OPTIMIZE:
            return
        if not self.truth(self.ev(st.test, fr)):
            raise Raised(self.w.B.mkexc("AssertionError", ""))

    def st_Delete(self, st, fr):
        for tg in st.targets:
            self.delete(tg, fr)

    def delete(self, tg, fr):
        if isinstance(tg, ast.Name):
            if tg.id in fr.locals:
                del fr.locals[tg.id]
            else:
                raise Raised(self.w.B.mkexc("NameError", tg.id))
        elif isinstance(tg, ast.Attribute):
            o = self.ev(tg.value, fr)
            self.delattr(o, mangle(tg.attr, fr.cls))
        elif isinstance(tg, ast.Subscript):
            c = self.ev(tg.value, fr)
            k = self.ev_slice(tg.slice, fr)
            self.delitem(c, k)
        elif isinstance(tg, (ast.Tuple, ast.List)):
            for t in tg.elts:
                self.delete(t, fr)
        else:
            raise Unknown("del target")

    def st_While(self, st, fr):
        n = 0
        broke = False
        while self.truth(self.ev(st.test, fr)):
            n += 1
            if n > 5000:
                raise Unknown("loop budget exhausted")
            try:
                self.exec_block(st.body, fr)
            except _Continue:
                continue
            except _Break:
                broke = True
                break
        if not broke and st.orelse:
            self.exec_block(st.orelse, fr)

    def live_iter(self, v):
        """Iteration as CPython performs it on a container that the loop body may change: a list is walked by index over its
        *current* contents; a dict / set that changes size, or a deque that is mutated, raises RuntimeError at the next step."""
        if isinstance(v, Seq) and v.kind == "list" and not v.has_seg() and self.uover(v, "__iter__") is None:
            i = 0
            while i < len(v.items):
                x = v.items[i]
                i += 1
                yield x
            return
        if isinstance(v, GenV):
            while True:
                if v.trace is not None and v.pos < len(v.trace):
                    x = v.trace[v.pos]
                    v.pos += 1
                    yield x
                    continue
                if not self.gen_step(v):
                    break
            if v.exc is not None:
                exc, v.exc = v.exc, None
                raise exc
            return
        items = self.iterate(v)
        if isinstance(v, (DictV, SetV)) and not isinstance(v, LiveDictV):
            size = (lambda: len(v.pairs)) if isinstance(v, DictV) else (lambda: len(v.items))
            n0 = size()
            for x in items:
                if size() != n0:
                    raise Raised(self.w.B.mkexc("RuntimeError", ("dictionary" if isinstance(v, DictV) else "Set") + " changed size during iteration"))
                yield x
            if size() != n0:       # the check is made at every step, the one that would end the iteration included
                raise Raised(self.w.B.mkexc("RuntimeError", ("dictionary" if isinstance(v, DictV) else "Set") + " changed size during iteration"))
            return
        if isinstance(v, Seq) and v.kind == "deque":
            snap = list(v.items)
            for x in items:
                if len(v.items) != len(snap) or any(a is not b for a, b in zip(v.items, snap)):
                    raise Raised(self.w.B.mkexc("RuntimeError", "deque mutated during iteration"))
                yield x
            return
        yield from items

    def st_For(self, st, fr):
        it = self.live_iter(self.ev(st.iter, fr))
        broke = False
        for v in it:
            self.assign(st.target, v, fr)
            try:
                self.exec_block(st.body, fr)
            except _Continue:
                continue
            except _Break:
                broke = True
                break
        if not broke and st.orelse:
            self.exec_block(st.orelse, fr)

    def st_Return(self, st, fr):
        raise _Return(self.ev(st.value, fr) if st.value is not None else None)

    def st_Continue(self, st, fr):
        raise _Continue()

    def st_Break(self, st, fr):
        raise _Break()

    def st_Raise(self, st, fr):
        if st.exc is None:
            if fr.cur_exc is None:
                raise Raised(self.w.B.mkexc("RuntimeError", "No active exception to reraise"))
            raise Raised(fr.cur_exc)
        v = self.ev(st.exc, fr)
        if isinstance(v, ClassV):
            v = self.call(v, [], {})
        if not (isinstance(v, Obj) and v.cls.issub(self.w.B.EXC["BaseException"])):
            raise Raised(self.w.B.mkexc("TypeError", "exceptions must derive from BaseException"))
        if st.cause is not None:
            v.fields["__cause__"] = self.ev(st.cause, fr)
        raise Raised(v)

    def st_If(self, st, fr):
        if self.truth(self.ev(st.test, fr)):
            self.exec_block(st.body, fr)
        else:
            self.exec_block(st.orelse, fr)

    def st_Assign(self, st, fr):
        v = self.ev(st.value, fr)
        for tg in st.targets:
            self.assign(tg, v, fr)

    def st_AnnAssign(self, st, fr):
        if st.value is not None:
            self.assign(st.target, self.ev(st.value, fr), fr)

    def st_AugAssign(self, st, fr):
        tg = st.target
        if isinstance(tg, ast.Name):
            cur = self.ex_Name(tg, fr)
            new = self.binop(st.op, cur, self.ev(st.value, fr), inplace=True)
            self._store_name(tg.id, new, fr)
        elif isinstance(tg, ast.Attribute):
            o = self.ev(tg.value, fr)
            name = mangle(tg.attr, fr.cls)
            cur = self.getattr(o, name)
            new = self.binop(st.op, cur, self.ev(st.value, fr), inplace=True)
            self.setattr(o, name, new)
        elif isinstance(tg, ast.Subscript):
            c = self.ev(tg.value, fr)
            k = self.ev_slice(tg.slice, fr)
            cur = self.getitem(c, k)
            new = self.binop(st.op, cur, self.ev(st.value, fr), inplace=True)
            self.setitem(c, k, new)
        else:
            raise Unknown("augassign target")

    def make_func(self, node, fr, name=None):
        a = node.args
        env = fr
        while env is not None and env.is_class:
            env = env.env
        defaults = [self.ev(d, fr) for d in a.defaults]
        kwdefaults = {p.arg: self.ev(d, fr) for p, d in zip(a.kwonlyargs, a.kw_defaults) if d is not None}
        cls = fr.cls
        qual = (fr.cls.name + "." if fr.is_class and fr.cls else "") + (name or getattr(node, "name", "<lambda>"))
        if fr.func is not None and not fr.is_class:
            qual = fr.func.qual + ".<locals>." + qual
        elif fr.is_class and fr.func is not None:
            qual = fr.func.qual + ".<locals>." + qual
        return Func(node, fr.module, cls, env if (env is not None and env.func is not None) else None, defaults, kwdefaults, qual)

    def st_FunctionDef(self, st, fr):
        f = self.make_func(st, fr)
        for d in reversed(st.decorator_list):
            dv = self.ev(d, fr)
            f = self.call(dv, [f], {})
            if isinstance(f, ExtV) and not f.methods.get("__strict__"):
                raise Unknown(f"function {st.name} is wrapped by the unmodelled decorator {ast.unparse(d)}")
        self._store_name(st.name, f, fr)

    def st_ClassDef(self, st, fr):
        bases = [self.ev(b, fr) for b in st.bases]
        for i, b in enumerate(bases):
            if isinstance(b, ExtV):
                # a base class from another package: modelled ones only (a stand-in installed by the harness, enum, abc, typing);
                # deriving from anything else is not evaluated (the names the statement binds are poisoned: UNDECIDED on use)
                if not (b.name in MODELLED_EXTERN_BASES or b.name in self.w.ext_overrides or b.name.startswith(("typing.", "abc.", "collections.abc."))):
                    raise Unknown(f"class {st.name} derives from the unmodelled external class {b.name}")
                bases[i] = b = self.w.B.extern_class(b)
            if not isinstance(b, ClassV):
                raise Unknown(f"class {st.name}: base is not a class value ({b!r})")
        if not bases:
            bases = [self.w.B.OBJECT]
        meta = None
        for k in st.keywords:
            if k.arg == "metaclass":
                meta = self.ev(k.value, fr)
            else:
                raise Unknown("class keyword " + str(k.arg))
        qual = st.name if fr.func is None else fr.func.qual + ".<locals>." + st.name
        c = ClassV(st.name, bases, fr.module, st, meta=meta, qual=qual)
        c.dict["__module__"] = fr.module.name
        c.dict["__qualname__"] = qual
        cfr = Frame(fr.module, c.dict, cls=c, func=fr.func, env=fr, is_class=True)
        for s in st.body:
            self.exec_stmt(s, cfr)
        if any(getattr(b, "extern", False) and getattr(b, "qual", "") in ("enum.Enum", "enum.IntEnum", "enum.StrEnum") for b in c.mro):
            self._make_enum(c)
        # class creation hooks, in CPython's order: __init_subclass__ of the nearest base that defines one (an implicit class method,
        # called from type.__new__), then the metaclass's own __init__; a user __new__ / __prepare__ on the metaclass is not modelled
        for b in c.mro[1:]:
            f = b.dict.get("__init_subclass__") if isinstance(b, ClassV) else None
            if f is not None:
                f = getattr(f, "func", f) if not isinstance(f, Func) else f
                if not isinstance(f, Func):
                    raise Unknown(f"class {st.name}: __init_subclass__ of {b.name} is not a plain function")
                self.call(f, [c], {})
                break
        meta_eff = getattr(c, "meta", None) or meta
        if isinstance(meta_eff, ClassV):
            for hook in ("__new__", "__prepare__"):
                if isinstance(meta_eff.lookup(hook)[0], Func):
                    raise Unknown(f"class {st.name}: metaclass {meta_eff.name} defines {hook} (not modelled)")
            mi = meta_eff.lookup("__init__")[0]
            if isinstance(mi, Func):
                self.call(mi, [c, st.name, Seq(list(bases) if st.bases else [], "tuple"), DictV([[k_, v_] for k_, v_ in c.dict.items()])], {})
        if st.decorator_list:
            v = c
            for d in reversed(st.decorator_list):
                v = self.call(self.ev(d, fr), [v], {})
                if isinstance(v, ExtV) and not v.methods.get("__strict__"):
                    raise Unknown(f"class {st.name} is wrapped by the unmodelled decorator {ast.unparse(d)}")
            c = v
        self._store_name(st.name, c, fr)

    def _make_enum(self, c):
        """enum.Enum subclass: every plain class attribute becomes a member object (singleton per name, .name/.value), the class is
        iterable over its members in definition order and callable with a value."""
        B = self.w.B
        members = []
        is_int = any(getattr(b, "extern", False) and getattr(b, "qual", "") == "enum.IntEnum" for b in c.mro)
        for k, v in list(c.dict.items()):
            if k.startswith("_") or isinstance(v, (Func, Prop, ClassMethod, StaticMethod, Builtin, ClassV)):
                continue
            if is_int:
                if not isinstance(v, int) or isinstance(v, bool):
                    raise Unknown("IntEnum member with a non-integer value")
                m = next((x for x in members if int(x) == v), None)
                if m is None:
                    m = EnumInt(v, k, c)
                    members.append(m)
                c.dict[k] = m
                continue
            m = next((x for x in members if keq(x.fields["_value_"], v)), None)     # an alias of an earlier member
            if m is None:
                m = Obj(c, f"{c.name}.{k}")
                m.fields["_name_"], m.fields["_value_"] = k, v
                m.fields["name"], m.fields["value"] = k, v
                members.append(m)
            c.dict[k] = m
        c.dict["_enum_members_"] = members

        def construct(I, cls, value=MISSING, *a, **k):
            for m in cls.dict.get("_enum_members_", []):
                if (isinstance(m, EnumInt) and isinstance(value, int) and int(m) == value) or (not isinstance(m, EnumInt) and I.eq(m.fields["_value_"], value)):
                    return m
            raise Raised(B.mkexc("ValueError", f"{value!r} is not a valid {cls.name}"))
        c.dict["__construct__"] = Builtin(c.name + ".__call__", construct)
        c.builtin_construct = True

    def st_Try(self, st, fr):
        try:
            try:
                self.exec_block(st.body, fr)
            except Raised as r:
                for h in st.handlers:
                    if h.type is None:
                        match = True
                    else:
                        hc = self.ev(h.type, fr)
                        hcs = hc.items if isinstance(hc, Seq) else [hc]
                        match = any(isinstance(x, ClassV) and r.exc.cls.issub(x) for x in hcs)
                    if match:
                        if h.name:
                            fr.locals[h.name] = r.exc
                        saved = fr.cur_exc
                        fr.cur_exc = r.exc
                        try:
                            self.exec_block(h.body, fr)
                        finally:
                            fr.cur_exc = saved
                            if h.name and h.name in fr.locals:
                                del fr.locals[h.name]
                        break
                else:
                    raise
            else:
                self.exec_block(st.orelse, fr)
        finally:
            if st.finalbody and not isinstance(sys.exc_info()[1], _GenAbandon):
                # NB: a Python-level exception in flight (Raised/_Return/...) is preserved unless
                # the finally block itself transfers control.
                self.exec_block(st.finalbody, fr)

    def st_With(self, st, fr):
        mgrs = []
        for item in st.items:
            cm = self.ev(item.context_expr, fr)
            enter = self.getattr(cm, "__enter__")
            v = self.call(enter, [], {})
            if item.optional_vars is not None:
                self.assign(item.optional_vars, v, fr)
            mgrs.append(cm)
        try:
            self.exec_block(st.body, fr)
        except Raised as r:
            swallow = False
            for cm in reversed(mgrs):
                res = self.call(self.getattr(cm, "__exit__"), [r.exc.cls, r.exc, None], {})
                if self.truth(res):
                    swallow = True
            if not swallow:
                raise
        except (_Return, _Break, _Continue):
            for cm in reversed(mgrs):
                self.call(self.getattr(cm, "__exit__"), [None, None, None], {})
            raise
        else:
            for cm in reversed(mgrs):
                self.call(self.getattr(cm, "__exit__"), [None, None, None], {})

    # ---- match statement (literal, capture, wildcard, or, sequence, mapping-free class patterns)
    def st_Match(self, st, fr):
        subject = self.ev(st.subject, fr)
        for case in st.cases:
            if self._match(case.pattern, subject, fr) and (case.guard is None or self.truth(self.ev(case.guard, fr))):
                self.exec_block(case.body, fr)
                return

    def _match(self, p, v, fr):
        if isinstance(p, ast.MatchValue):
            return self.eq(v, self.ev(p.value, fr))
        if isinstance(p, ast.MatchSingleton):
            return v is p.value
        if isinstance(p, ast.MatchAs):
            if p.pattern is not None and not self._match(p.pattern, v, fr):
                return False
            if p.name is not None:
                self._store_name(p.name, v, fr)
            return True
        if isinstance(p, ast.MatchOr):
            return any(self._match(q, v, fr) for q in p.patterns)
        if isinstance(p, ast.MatchSequence):
            if not isinstance(v, Seq) or v.has_seg():
                if isinstance(v, Seq):
                    raise Unknown("sequence pattern on an opaque sequence")
                return False
            pats = p.patterns
            star = [i for i, q in enumerate(pats) if isinstance(q, ast.MatchStar)]
            if not star:
                return len(pats) == len(v.items) and all(self._match(q, x, fr) for q, x in zip(pats, v.items))
            i = star[0]
            after = len(pats) - i - 1
            if len(v.items) < len(pats) - 1:
                return False
            ok = all(self._match(q, x, fr) for q, x in zip(pats[:i], v.items[:i])) and all(self._match(q, x, fr) for q, x in zip(pats[i + 1:], v.items[len(v.items) - after:]))
            if ok and pats[i].name:
                self._store_name(pats[i].name, Seq(v.items[i:len(v.items) - after], "list"), fr)
            return ok
        if isinstance(p, ast.MatchClass):
            c = self.ev(p.cls, fr)
            if not isinstance(c, ClassV) or not self.w.B.typeof(v).issub(c):
                return False
            if p.patterns:
                raise Unknown("positional class pattern")
            for name, q in zip(p.kwd_attrs, p.kwd_patterns):
                try:
                    x = self.getattr(v, name)
                except Raised:
                    return False
                if not self._match(q, x, fr):
                    return False
            return True
        raise Unknown(f"unsupported match pattern {type(p).__name__}")

    # ================================================================ assignment
    def _store_name(self, name, v, fr):
        name = mangle(name, fr.cls)      # identifiers of the form __x are mangled everywhere inside a class body (methods, class attributes, locals)
        if fr.globals_decl and name in fr.globals_decl:
            fr.module.globals[name] = v
            return
        if fr.nonlocal_decl and name in fr.nonlocal_decl:
            e = fr.env
            while e is not None:
                if name in e.locals:
                    e.locals[name] = v
                    return
                e = e.env
            raise Unknown("nonlocal target not found")
        fr.locals[name] = v

    def assign(self, tg, v, fr):
        if isinstance(tg, ast.Name):
            self._store_name(tg.id, v, fr)
        elif isinstance(tg, ast.Attribute):
            o = self.ev(tg.value, fr)
            self.setattr(o, mangle(tg.attr, fr.cls), v)
        elif isinstance(tg, ast.Subscript):
            c = self.ev(tg.value, fr)
            k = self.ev_slice(tg.slice, fr)
            self.setitem(c, k, v)
        elif isinstance(tg, (ast.Tuple, ast.List)):
            vs = list(self.iterate(v))
            star = [i for i, t in enumerate(tg.elts) if isinstance(t, ast.Starred)]
            if star:
                i = star[0]
                after = len(tg.elts) - i - 1
                if len(vs) < len(tg.elts) - 1:
                    raise Raised(self.w.B.mkexc("ValueError", "not enough values to unpack"))
                for t, x in zip(tg.elts[:i], vs[:i]):
                    self.assign(t, x, fr)
                self.assign(tg.elts[i].value, Seq(vs[i : len(vs) - after], "list"), fr)
                for t, x in zip(tg.elts[i + 1 :], vs[len(vs) - after :]):
                    self.assign(t, x, fr)
            else:
                if len(vs) != len(tg.elts):
                    raise Raised(self.w.B.mkexc("ValueError", "unpack length mismatch"))
                for t, x in zip(tg.elts, vs):
                    self.assign(t, x, fr)
        elif isinstance(tg, ast.Starred):
            self.assign(tg.value, v, fr)
        else:
            raise Unknown("assign target " + type(tg).__name__)

    # ================================================================ attribute protocol
    def getattr(self, o, name, default=MISSING):
        try:
            return self._getattr(o, name)
        except Raised as r:
            if default is not MISSING and r.exc.cls.issub(self.w.B.EXC["AttributeError"]):
                return default
            raise

    def attr_error(self, o, name):
        return Raised(self.w.B.mkexc("AttributeError", f"{self.w.B.typename(o)} object has no attribute {name!r}"))

    def uover(self, c, name):
        """the user-defined method `name` of a container value whose class derives from a built-in container, if any"""
        uc = getattr(c, "ucls", None)
        if uc is None:
            return None
        d, owner = uc.lookup(name)
        return d if d is not None and not owner.builtin else None

    def _getattr(self, o, name):
        B = self.w.B
        if isinstance(o, EnumInt):
            if name in ("name", "_name_"):
                return o.enum_name
            if name in ("value", "_value_"):
                return int(o)
            if name == "__class__":
                return o.enum_cls
            d, owner = o.enum_cls.lookup(name)
            if d is not None and not owner.builtin:
                return self._bind(d, o, o.enum_cls)
        uc = getattr(o, "ucls", None)
        if uc is not None and isinstance(o, (DictV, Seq, SetV)):
            if name in o.ufields:
                return o.ufields[name]
            d, owner = uc.lookup(name)
            if d is not None and not owner.builtin:
                return self._bind(d, o, uc)
            if name == "__class__":
                return uc
            if name == "__dict__":
                return DictV([(k, v) for k, v in o.ufields.items()])
        if isinstance(o, Obj):
            d, owner = o.cls.lookup(name)
            if isinstance(d, Prop):
                if d.fget is None:
                    raise self.attr_error(o, name)
                return self.call(d.fget, [o], {})
            if name in o.fields:
                return o.fields[name]
            if d is None:
                if name == "__class__":
                    return o.cls
                if name == "__dict__":
                    return B.obj_dict(o)
                ga, _ = o.cls.lookup("__getattr__")
                if ga is not None:
                    return self.call(ga, [o, name], {})
                if any(getattr(c, "extern", False) for c in o.cls.mro):
                    return B.extern_member(o, name)
                raise self.attr_error(o, name)
            return self._bind(d, o, o.cls)
        if isinstance(o, SuperV):
            return self._super_getattr(o, name)
        if isinstance(o, ClassV):
            d, owner = o.lookup(name)
            if d is not None:
                if isinstance(d, (Func, Builtin)) and not (isinstance(d, Builtin) and d.cls is None and not owner.builtin):
                    if isinstance(d, Builtin) and owner.builtin:
                        return d
                    return d
                if isinstance(d, ClassMethod):
                    return Bound(d.f, o)
                if isinstance(d, StaticMethod):
                    return d.f
                if isinstance(d, Poison):
                    raise Unknown(d.why)
                return d
            meta = o.meta or B.TYPE
            d, owner = meta.lookup(name)
            if d is not None:
                if isinstance(d, Prop):
                    return self.call(d.fget, [o], {})
                return self._bind(d, o, meta)
            if name == "__name__":
                return o.name
            if name == "__qualname__":
                return o.qual
            if name == "__mro__":
                return Seq(o.mro, "tuple")
            if name == "__bases__":
                return Seq(o.bases, "tuple")
            if name == "__base__":
                return o.bases[0] if o.bases else None
            if name == "__dict__":
                return ProxyV(DictV([(k, v) for k, v in o.dict.items()]))
            if name == "__class__":
                return meta
            if any(getattr(c, "extern", False) for c in o.mro):
                return B.extern_member(o, name)
            if o.builtin and o.name in ("list", "dict", "set", "frozenset", "str", "tuple", "deque"):
                if o.name == "dict" and name == "fromkeys":
                    return Builtin("dict.fromkeys", lambda I, *a: B.dict_method(I, DictV(), "fromkeys", a, {}))
                return Builtin(f"{o.name}.{name}", lambda I, recv, *a, _n=name, **k: I.call(I.getattr(recv, _n), list(a), k))
            raise self.attr_error(o, name)
        if isinstance(o, ModuleV):
            if o.ext:
                return B.ext_attr(o, name)
            if name in o.globals:
                v = o.globals[name]
                if isinstance(v, Poison):
                    raise Unknown(v.why)
                return v
            sub = o.name + "." + name
            if self.w.src.relpath_of(sub):
                return self.w.load(sub)
            raise self.attr_error(o, name)
        if o is None:
            raise self.attr_error(o, name)
        if isinstance(o, Func):
            if name == "__name__":
                return o.name
            if name == "__qualname__":
                return o.qual
            if name in o.attrs:
                return o.attrs[name]
            if name == "__code__":
                # one code object per function definition: closures created from the same `def`/lambda share it
                code = getattr(o.node, "_verif_code", None)
                if code is None:
                    code = o.node._verif_code = Tok(("code", getattr(o.node, "lineno", 0), getattr(o.node, "col_offset", 0), o.module.name), f"<code {o.qual}>")
                return code
            if name == "__module__":
                return o.module.name
            if name in ("__doc__",):
                return None
            raise self.attr_error(o, name)
        if isinstance(o, Builtin):
            at = getattr(o, "attrs", None)
            if at and name in at:
                return at[name]
            if name == "__name__":
                return o.name.rsplit(".", 1)[-1]
        if isinstance(o, Prop):
            if name == "setter":
                return Builtin("property.setter", lambda I, f, _p=o: Prop(_p.fget, f, _p.fdel))
            if name == "getter":
                return Builtin("property.getter", lambda I, f, _p=o: Prop(f, _p.fset, _p.fdel))
            if name == "deleter":
                return Builtin("property.deleter", lambda I, f, _p=o: Prop(_p.fget, _p.fset, f))
            if name in ("fget", "fset", "fdel"):
                return getattr(o, name)
            raise self.attr_error(o, name)
        if isinstance(o, Bound):
            if name == "__self__":
                return o.self_obj
            if name == "__func__":
                return o.func
            return self._getattr(o.func, name)
        if isinstance(o, Poison):
            raise Unknown(o.why)
        return B.value_attr(self, o, name)

    def _bind(self, d, o, cls):
        if isinstance(d, Func):
            return Bound(d, o)
        if isinstance(d, Builtin):
            return Bound(d, o) if d.cls is not None else d
        if isinstance(d, ClassMethod):
            return Bound(d.f, cls if isinstance(o, Obj) else o)
        if isinstance(d, StaticMethod):
            return d.f
        if isinstance(d, Prop):
            return self.call(d.fget, [o], {})
        if isinstance(d, Poison):
            raise Unknown(d.why)
        return d

    def _super_getattr(self, s, name):
        B = self.w.B
        obj = s.obj
        if isinstance(obj, Obj):
            mro = obj.cls.mro
        elif isinstance(obj, ClassV):
            # super(Meta, cls): search the metaclass MRO; or classmethod context
            meta = obj.meta or B.TYPE
            if s.cls in meta.mro:
                mro = meta.mro
            else:
                mro = obj.mro
        elif getattr(obj, "ucls", None) is not None:
            mro = obj.ucls.mro
        else:
            raise Unknown("super() object")
        if s.cls not in mro:
            raise Unknown("super(): class not in MRO")
        for c in mro[mro.index(s.cls) + 1 :]:
            if c.builtin and c.name in ("dict", "list", "set", "deque") and getattr(obj, "ucls", None) is not None:
                return Builtin(f"{c.name}.{name}", lambda I, *a, _o=obj, _n=name, _k=c.name, **k: I._raw_container_call(_o, _k, _n, a, k))
            if name in c.dict:
                d = c.dict[name]
                if isinstance(d, Prop):
                    return self.call(d.fget, [obj], {})
                return self._bind(d, obj, c)
        raise self.attr_error(s, name)

    def _raw_container_call(self, obj, kind, name, a, k):
        """built-in container behaviour of a value whose class overrides it (reached through super())"""
        saved, obj.ucls = obj.ucls, None
        try:
            if name == "__init__":
                if a or k:
                    self.call(self.getattr(obj, {"dict": "update", "list": "extend", "set": "update", "deque": "extend"}[kind]), list(a), k)
                return None
            if name == "__contains__":
                return self.contains(obj, a[0])
            if name == "__getitem__":
                return self.getitem(obj, a[0])
            if name == "__setitem__":
                return self.setitem(obj, a[0], a[1])
            if name == "__delitem__":
                return self.delitem(obj, a[0])
            if name == "__len__":
                return self.w.B.f_len(self, obj)
            if name == "__iter__":
                return IterV(self.iterate(obj))
            return self.call(self.getattr(obj, name), list(a), k)
        finally:
            obj.ucls = saved

    def setattr(self, o, name, v):
        B = self.w.B
        if isinstance(o, Obj):
            d, _ = o.cls.lookup(name)
            if isinstance(d, Prop):
                if d.fset is None:
                    raise Raised(B.mkexc("AttributeError", f"property {name!r} of {o.cls.name!r} object has no setter"))
                self.call(d.fset, [o, v], {})
                return
            sa, owner = o.cls.lookup("__setattr__")
            if sa is not None and not owner.builtin:
                self.call(sa, [o, name, v], {})
                return
            if o.cls.builtin and not o.cls.issub(B.EXC["BaseException"]):
                raise Raised(B.mkexc("AttributeError", f"{o.cls.name} object has no attribute {name!r}"))
            o.fields[name] = v
        elif isinstance(o, ClassV):
            if o.builtin:
                raise Raised(B.mkexc("TypeError", "cannot set attribute of built-in type"))
            o.dict[name] = v
        elif isinstance(o, ExtV):
            o.attrs[name] = v
            o.log.append(("set", name, v))
        elif isinstance(o, Func):
            o.attrs[name] = v
        elif isinstance(o, ModuleV) and not o.ext:
            o.globals[name] = v
        elif isinstance(o, SuperV):
            raise Raised(B.mkexc("AttributeError", f"'super' object has no attribute {name!r}"))
        elif getattr(o, "ucls", None) is not None and isinstance(o, (Seq, DictV, SetV)):
            d, _ = o.ucls.lookup(name)
            if isinstance(d, Prop):
                if d.fset is None:
                    raise Raised(B.mkexc("AttributeError", f"property {name!r} of {o.ucls.name!r} object has no setter"))
                self.call(d.fset, [o, v], {})
                return
            o.ufields[name] = v
        elif o is None or isinstance(o, (int, str, float, Seq, DictV, SetV, SymStr)):
            raise Raised(B.mkexc("AttributeError", f"{B.typename(o)} object has no attribute {name!r}"))
        else:
            raise Unknown(f"setattr on {o!r}")

    def delattr(self, o, name):
        B = self.w.B
        if isinstance(o, Obj):
            d, _ = o.cls.lookup(name)
            if isinstance(d, Prop):
                if d.fdel is None:
                    raise Raised(B.mkexc("AttributeError", f"property {name!r} has no deleter"))
                self.call(d.fdel, [o], {})
                return
            if name in o.fields:
                del o.fields[name]
                return
            raise self.attr_error(o, name)
        if isinstance(o, ClassV):
            if name in o.dict:
                del o.dict[name]
                return
            raise self.attr_error(o, name)
        if isinstance(o, ExtV):
            if name in o.attrs:
                del o.attrs[name]
                o.log.append(("del", name))
                return
            raise self.attr_error(o, name)
        if o is None:
            raise self.attr_error(o, name)
        raise Unknown(f"delattr on {o!r}")

    # ================================================================ truth / compare
    def truth(self, v):
        if v is True or v is False:
            return v
        if getattr(v, "ucls", None) is not None:
            for dn in ("__bool__", "__len__"):
                f = self.uover(v, dn)
                if f is not None:
                    return self.truth(self.call(f, [v], {}))
        if v is None:
            return False
        if isinstance(v, (int, float, str, bytes, bytearray)):
            return bool(v)
        if isinstance(v, Seq):
            if any(type(i) is not Seg for i in v.items):
                return True
            if not v.items:
                return False
            raise Unknown("truth value of an opaque sequence")
        if isinstance(v, Obj):
            d, owner = v.cls.lookup("__bool__")
            if d is not None:
                return self.truth(self.call(d, [v], {}))
            d, owner = v.cls.lookup("__len__")
            if d is not None:
                n = self.call(d, [v], {})
                return self.truth(n)
            return True
        if isinstance(v, SetV):
            if v.opaque and not v.items:
                raise Unknown("truth value of an opaque set")
            return len(v.items) > 0
        if isinstance(v, DictV):
            if v.opaque and not v.pairs:
                raise Unknown("truth value of an opaque dict")
            return len(v.pairs) > 0
        if isinstance(v, ProxyV):
            return self.truth(v.d)
        if isinstance(v, SymStr):
            return True  # at least one atom or literal; atoms may be empty only if literal-free
        if isinstance(v, ClassV) and v.meta is not None:
            # a class is an instance of its metaclass: __bool__ / __len__ defined there decide its truth value
            for dn in ("__bool__", "__len__"):
                d, owner = v.meta.lookup(dn)
                if d is not None and not owner.builtin:
                    return self.truth(self.call(d, [v], {}))
        if isinstance(v, ExtV) and getattr(v, "opaque_result", False):
            raise Unknown(f"truth value of the result of the unmodelled external call {v.name}")
        if isinstance(v, (ClassV, Func, Bound, Builtin, Callback, ExtV, ModuleV, Prop, Tok)):
            return True
        if isinstance(v, Opaque) and v.truthy is not None:
            return v.truthy
        if isinstance(v, (Opaque, Digest)):
            raise Unknown(f"truth value of opaque {v!r}")
        if type(v).__name__ == "LenV":
            if v.lo > 0:
                return True
            raise Unknown("truth value of the length of an opaque sequence")
        if isinstance(v, Poison):
            raise Unknown(v.why)
        if isinstance(v, (IterV, GenV)):
            return True
        raise Unknown("truth " + repr(v))

    def eq(self, a, b):
        """Abstract == with user __eq__ and forking on hash collisions."""
        if isinstance(a, Seq) and isinstance(b, Seq) and not a.has_seg() and not b.has_seg() and getattr(a, "ucls", None) is None and getattr(b, "ucls", None) is None:
            # sequences compare element-wise, each pair with its own (possibly user-defined) equality
            if (a.kind == "tuple") != (b.kind == "tuple") or len(a.items) != len(b.items):
                return False
            return all(x is y or self.eq(x, y) for x, y in zip(a.items, b.items))
        for x, y in ((a, b), (b, a)):
            k = x.cls if isinstance(x, Obj) else (x.meta if isinstance(x, ClassV) else None)     # a class compares through its metaclass
            if k is not None:
                d, owner = k.lookup("__eq__")
                if d is not None and not owner.builtin:
                    r = self.call(d, [x, y], {})
                    if not (isinstance(r, Obj) and r.cls.name == "NotImplementedType"):
                        return self.truth(r)
        if isinstance(a, float) and isinstance(b, float) and (a != a or b != b):
            return False        # a NaN is equal to nothing, itself included (== has no identity short-cut; containers' `in` has)
        try:
            return keq(a, b)
        except UndecidedCond as u:
            return self.w.choose(2, u.why) == 1

    def heq(self, a, b):
        """== as a hashed container (set, dict) applies it: elements whose hashes differ are never compared.  Matters for classes
        whose __eq__ and __hash__ disagree (value equality next to an inherited identity hash)."""
        if a is b:
            return True
        if isinstance(a, Seq) and isinstance(b, Seq) and a.kind == "tuple" and b.kind == "tuple" and not a.has_seg() and not b.has_seg():
            return len(a.items) == len(b.items) and all(self.heq(x, y) for x, y in zip(a.items, b.items))     # a tuple's hash combines its elements' hashes
        for x in (a, b):
            k = x.cls if isinstance(x, Obj) else (x.meta if isinstance(x, ClassV) else None)
            if k is not None:
                d, owner = k.lookup("__eq__")
                if d is not None and not owner.builtin:
                    try:
                        ha, hb = self._hv(a), self._hv(b)
                    except Unknown:
                        break
                    if ha != hb:
                        return False
                    break
        return self.eq(a, b)

    def _hv(self, x):
        r = self.w.B.f_hash(self, x)
        if isinstance(r, Digest):
            return _model_hash(r.payload)
        if isinstance(r, (int, bool)):
            return _model_hash(r)
        raise Unknown("hash value")

    def contains(self, c, x):
        f = self.uover(c, "__contains__")
        if f is not None:
            return self.truth(self.call(f, [c, x], {}))
        if isinstance(c, Seq):
            for i in c.items:
                if type(i) is Seg:
                    if type(x) is Obj and x.cls.name == "Anon":
                        raise Unknown("membership of a generic element in an opaque segment")
                    continue
                if i is x or self.eq(i, x):
                    return True
            return False
        if isinstance(c, SetV):
            self.w.B.check_hashable(x)          # `x in a_set` / `x in a_dict` hash x first: TypeError for an unhashable x, even when the container is empty
            return any(i is x or self.heq(i, x) for i in c.items)
        if isinstance(c, DictV):
            self.w.B.check_hashable(x)
            return any(k is x or self.heq(k, x) for k, _ in c.pairs)
        if isinstance(c, ProxyV):
            return self.contains(c.d, x)
        if isinstance(c, (str, SymStr)):
            if isinstance(c, str) and isinstance(x, str):
                return x in c
            raise Unknown("substring test on symbolic string")
        if isinstance(c, Obj):
            d, _ = c.cls.lookup("__contains__")
            if d is not None:
                return self.truth(self.call(d, [c, x], {}))
            d, _ = c.cls.lookup("__iter__")
            if d is not None:
                return any(i is x or self.eq(i, x) for i in self.iterate(c))
            raise Raised(self.w.B.mkexc("TypeError", f"argument of type {c.cls.name!r} is not iterable"))
        if isinstance(c, (GenV, IterV)):
            return any(i is x or self.eq(i, x) for i in self.iterate(c))
        if c is None or isinstance(c, (int, float)):
            raise Raised(self.w.B.mkexc("TypeError", "argument is not iterable"))
        raise Unknown("contains on " + repr(c))

    def compare(self, op, l, r):
        if isinstance(op, ast.Is):
            return self.identical(l, r)
        if isinstance(op, ast.IsNot):
            return not self.identical(l, r)
        if isinstance(op, ast.In):
            return self.contains(r, l)
        if isinstance(op, ast.NotIn):
            return not self.contains(r, l)
        if isinstance(op, ast.Eq):
            return self.eq(l, r)
        if isinstance(op, ast.NotEq):
            return not self.eq(l, r)
        return self.w.B.order(self, op, l, r)

    def identical(self, a, b):
        if a is b:
            return True
        if isinstance(a, bool) or isinstance(b, bool) or a is None or b is None:
            return False
        if isinstance(a, int) and isinstance(b, int):
            if a == b and -5 <= a <= 256:
                return True
            if a != b:
                return False
            raise Unknown("identity of equal large ints")
        if isinstance(a, str) and isinstance(b, str):
            if a != b:
                return False
            if isinstance(a, UserStr) or isinstance(b, UserStr):
                return False  # an equal string of the caller's own is another object
            return True  # interned literals: the library only ever compares constants this way
        if isinstance(a, Opaque) or isinstance(b, Opaque):
            if isinstance(a, _ATOMS) and not isinstance(a, Opaque) or isinstance(b, _ATOMS) and not isinstance(b, Opaque):
                return False
            raise Unknown("identity of opaque scalars")
        return False

    # ================================================================ expressions
    def ev(self, e, fr):
        m = _EX.get(type(e))
        if m is None:
            raise Unknown(f"unsupported expression {type(e).__name__}")
        return m(self, e, fr)

    def ev_slice(self, s, fr):
        if isinstance(s, ast.Slice):
            return slice(
                self.ev(s.lower, fr) if s.lower is not None else None,
                self.ev(s.upper, fr) if s.upper is not None else None,
                self.ev(s.step, fr) if s.step is not None else None,
            )
        return self.ev(s, fr)

    def ex_Constant(self, e, fr):
        return e.value

    def ex_JoinedStr(self, e, fr):
        parts = []
        for v in e.values:
            if isinstance(v, ast.Constant):
                parts.append(v.value)
            else:
                x = self.ev(v.value, fr)
                if v.format_spec is not None:
                    spec = self.ev(v.format_spec, fr)
                    if spec != "":
                        parts.append(SAtom("Format", x, spec))
                        continue
                if v.conversion == ord("r"):
                    parts.append(self.w.B.to_repr(self, x))
                elif v.conversion == ord("a"):
                    parts.append(self.w.B.to_repr(self, x))
                else:
                    parts.append(self.w.B.to_str(self, x))
        return mkstr(parts)

    def ex_Name(self, e, fr):
        if e.id == "__debug__":
            return not OPTIMIZE
        n = mangle(e.id, fr.cls)
        f = fr
        if fr.globals_decl and n in fr.globals_decl:
            f = None
        first = True
        while f is not None:
            if (first or not f.is_class) and n in f.locals:
                v = f.locals[n]
                if isinstance(v, Poison):
                    raise Unknown(v.why)
                return v
            first = False
            f = f.env
        g = fr.module.globals
        if n in g:
            v = g[n]
            if isinstance(v, Poison):
                raise Unknown(v.why)
            return v
        v = self.w.B.names.get(n, MISSING)
        if v is not MISSING:
            return v
        if n == "__class__" and fr.cls is not None:
            return fr.cls
        import builtins as _bi
        if hasattr(_bi, n):
            # a real built-in that the evaluator has no model of: no verdict, never an exception of the interpreted program
            raise Unknown(f"built-in `{n}` is not modelled")
        raise Raised(self.w.B.mkexc("NameError", f"name {n!r} is not defined"))

    def ex_NamedExpr(self, e, fr):
        v = self.ev(e.value, fr)
        self.assign(e.target, v, fr)
        return v

    def ex_Attribute(self, e, fr):
        return self.getattr(self.ev(e.value, fr), mangle(e.attr, fr.cls))

    def _elts(self, elts, fr):
        items = []
        for x in elts:
            if isinstance(x, ast.Starred):
                v = self.ev(x.value, fr)
                if isinstance(v, Seq):
                    items.extend(v.items)  # keeps opaque segments
                else:
                    items.extend(self.iterate(v))
            else:
                items.append(self.ev(x, fr))
        return items

    def ex_List(self, e, fr):
        return Seq(self._elts(e.elts, fr), "list")

    def ex_Tuple(self, e, fr):
        return Seq(self._elts(e.elts, fr), "tuple")

    def ex_Set(self, e, fr):
        return SetV(self.w.B._uniq(self, self._elts(e.elts, fr)))

    def ex_Dict(self, e, fr):
        d = DictV()
        for k, v in zip(e.keys, e.values):
            if k is None:
                src = self.ev(v, fr)
                for kk, vv in self.w.B.dict_pairs(self, src):
                    self.w.B.dict_set(self, d, kk, vv)
            else:
                self.w.B.dict_set(self, d, self.ev(k, fr), self.ev(v, fr))
        return d

    def _comp(self, e, fr, emit):
        """Comprehensions.  An opaque segment of the (single, outermost) source sequence is
        treated through one generic anonymous element."""
        cfr = Frame(fr.module, {}, cls=fr.cls, self_obj=fr.self_obj, func=fr.func, env=fr)
        if fr.is_class:
            cfr.env = fr.env
        gens = e.generators

        def rec(i):
            if i == len(gens):
                emit(cfr, None)
                return
            g = gens[i]
            if g.is_async:
                raise Unknown("async comprehension")
            src = self.ev(g.iter, cfr if i else fr)
            if isinstance(src, Seq) and src.has_seg():
                if i != 0 or len(gens) != 1:
                    raise Unknown("nested comprehension over an opaque segment")
                for x in src.items:
                    if type(x) is Seg:
                        gen = self._generic(x)
                        self.assign(g.target, gen, cfr)
                        keep = all(self.truth(self.ev(c, cfr)) for c in g.ifs)
                        if keep:
                            emit(cfr, (x, gen))
                    else:
                        self.assign(g.target, x, cfr)
                        if all(self.truth(self.ev(c, cfr)) for c in g.ifs):
                            emit(cfr, None)
                return
            for x in self.live_iter(src):
                self.assign(g.target, x, cfr)
                if all(self.truth(self.ev(c, cfr)) for c in g.ifs):
                    rec(i + 1)

        rec(0)

    def _generic(self, seg):
        if seg.generic is None:
            seg.generic = Obj(self.w.B.ANON, f"elem_of_{seg.name}")
        return seg.generic

    def ex_ListComp(self, e, fr):
        out = []

        def emit(cfr, seginfo):
            v = self.ev(e.elt, cfr)
            if seginfo is not None:
                seg, gen = seginfo
                if v is gen:
                    out.append(seg)
                else:
                    raise Unknown("comprehension transforms the elements of an opaque segment")
            else:
                out.append(v)

        self._comp(e, fr, emit)
        return Seq(out, "list")

    def ex_GeneratorExp(self, e, fr):
        """A generator expression is a generator: its first iterable is evaluated at once, everything else when the consumer asks for
        the next element (a consumer that stops early never evaluates the rest; one that changes state between two elements sees the
        change).  Evaluated as the generator function CPython compiles it to.  Over a list with an opaque segment (inductive
        harnesses only) the eager evaluation through the generic element is kept."""
        if any(g.is_async for g in e.generators):
            raise Unknown("async comprehension")
        if any(isinstance(n, ast.NamedExpr) for n in ast.walk(e)):
            s = self.ex_ListComp(e, fr)         # a walrus inside binds in the enclosing scope: evaluated eagerly
            return IterV(s.items) if not s.has_seg() else s
        src = self.ev(e.generators[0].iter, fr)
        if isinstance(src, Seq) and src.has_seg():
            s = self.ex_ListComp(e, fr)
            return IterV(s.items) if not s.has_seg() else s
        cfr = Frame(fr.module, {}, cls=fr.cls, self_obj=fr.self_obj, func=fr.func, env=fr)
        if fr.is_class:
            cfr.env = fr.env
        gens = e.generators

        def rec(i):
            g_ = gens[i]
            it = src if i == 0 else self.ev(g_.iter, cfr)
            for x in self.live_iter(it):
                self.assign(g_.target, x, cfr)
                if all(self.truth(self.ev(c, cfr)) for c in g_.ifs):
                    if i + 1 < len(gens):
                        yield from rec(i + 1)
                    else:
                        yield self.ev(e.elt, cfr)

        gv = GenV(None, cfr)
        gv.pygen = rec(0)
        return gv

    def ex_SetComp(self, e, fr):
        out = []

        def emit(cfr, seginfo):
            if seginfo is not None:
                raise Unknown("set comprehension over opaque segment")
            out.append(self.ev(e.elt, cfr))

        self._comp(e, fr, emit)
        return SetV(out)

    def ex_DictComp(self, e, fr):
        d = DictV()

        def emit(cfr, seginfo):
            if seginfo is not None:
                raise Unknown("dict comprehension over opaque segment")
            k = self.ev(e.key, cfr)
            v = self.ev(e.value, cfr)
            self.w.B.dict_set(self, d, k, v)

        self._comp(e, fr, emit)
        return d

    def ex_BoolOp(self, e, fr):
        isand = isinstance(e.op, ast.And)
        v = None
        for x in e.values:
            v = self.ev(x, fr)
            t = self.truth(v)
            if isand and not t:
                return v
            if not isand and t:
                return v
        return v

    def ex_UnaryOp(self, e, fr):
        v = self.ev(e.operand, fr)
        if isinstance(e.op, ast.Not):
            return not self.truth(v)
        if isinstance(v, (int, float)) and not isinstance(v, bool) or isinstance(v, bool):
            if isinstance(e.op, ast.USub):
                return -v
            if isinstance(e.op, ast.UAdd):
                return +v
            if isinstance(e.op, ast.Invert) and isinstance(v, int):
                return ~v
        raise Unknown("unary operator on " + repr(v))

    def ex_BinOp(self, e, fr):
        return self.binop(e.op, self.ev(e.left, fr), self.ev(e.right, fr))

    def binop(self, op, a, b, inplace=False):
        return self.w.B.binop(self, op, a, b, inplace)

    def ex_IfExp(self, e, fr):
        return self.ev(e.body, fr) if self.truth(self.ev(e.test, fr)) else self.ev(e.orelse, fr)

    def ex_Compare(self, e, fr):
        l = self.ev(e.left, fr)
        for op, r in zip(e.ops, e.comparators):
            r = self.ev(r, fr)
            if not self.compare(op, l, r):
                return False
            l = r
        return True

    def ex_Lambda(self, e, fr):
        return self.make_func(e, fr, "<lambda>")

    def ex_Subscript(self, e, fr):
        return self.getitem(self.ev(e.value, fr), self.ev_slice(e.slice, fr))

    def ex_Starred(self, e, fr):
        raise Unknown("starred expression outside call/display")

    def _yield_value(self, fr, v):
        if fr.yields is None:
            raise Unknown("yield outside generator evaluation")
        fr.yields.append(v)
        self.w.events.append(("yield", fr.func.qual if fr.func else "?", v))
        g = fr.gen
        if g is None:
            return None         # a frame evaluated as a plain block by a harness: the yields are just collected
        # hand control back to the consumer and wait for the next request
        w = self.w
        g.inner_depth = w.depth - g.resume_depth
        w.depth = g.resume_depth
        g.event = ("yield",)
        g.to_cons.release()
        g.to_gen.acquire()
        if g.event == ("close",):
            raise _GenClose()
        if g.event == ("abandon",):
            raise _GenAbandon()
        return None

    def ex_Yield(self, e, fr):
        if fr.yields is None:
            raise Unknown("yield outside generator evaluation")
        return self._yield_value(fr, self.ev(e.value, fr) if e.value is not None else None)

    def ex_YieldFrom(self, e, fr):
        if fr.yields is None:
            raise Unknown("yield from outside generator evaluation")
        src = self.ev(e.value, fr)
        try:
            for x in self.live_iter(src):
                self._yield_value(fr, x)
        except _GenClose:
            if isinstance(src, GenV):
                self.gen_close(src)        # closing the outer generator closes the one it delegates to first
            raise
        except _GenAbandon:
            if isinstance(src, GenV):
                self.gen_abandon(src)
            raise
        return src.ret if isinstance(src, GenV) else None

    def ex_Call(self, e, fr):
        fe = e.func
        if isinstance(fe, ast.Name) and fe.id == "super" and not e.args and "super" not in fr.locals and "super" not in fr.module.globals:
            f = fr
            while f is not None and f.func is None:
                f = f.env
            if fr.cls is None or fr.self_obj is None:
                raise Raised(self.w.B.mkexc("RuntimeError", "super(): no arguments"))
            return SuperV(fr.cls, fr.self_obj)
        f = self.ev(fe, fr)
        args = []
        for a in e.args:
            if isinstance(a, ast.Starred):
                v = self.ev(a.value, fr)
                args.extend(self.iterate(v))
            else:
                args.append(self.ev(a, fr))
        kw = {}
        for k in e.keywords:
            if k.arg is None:
                src = self.ev(k.value, fr)
                for kk, vv in self.w.B.dict_pairs(self, src):
                    if not isinstance(kk, str):
                        raise Raised(self.w.B.mkexc("TypeError", "keywords must be strings"))
                    if kk in kw:
                        raise Raised(self.w.B.mkexc("TypeError", f"multiple values for keyword argument {kk!r}"))
                    kw[kk] = vv
            else:
                kw[k.arg] = self.ev(k.value, fr)
        return self.call(f, args, kw)

    # ================================================================ calls
    def call(self, f, args, kw):
        B = self.w.B
        if isinstance(f, Bound):
            return self.call(f.func, [f.self_obj] + list(args), kw)
        if isinstance(f, Func):
            return self.call_func(f, args, kw)
        if isinstance(f, Builtin):
            return f.fn(self, *args, **kw)
        if isinstance(f, ClassV):
            return self.call_class(f, args, kw)
        if isinstance(f, Callback):
            n = len(f.calls)
            f.calls.append((list(args), dict(kw)))
            self.w.events.append(("callback", f.name, n, list(args), dict(kw)))
            if f.script is None:
                return True
            return f.script(self, n, list(args), dict(kw))
        if isinstance(f, ExtV):
            return B.ext_call(self, f, args, kw)
        if isinstance(f, Obj):
            d, _ = f.cls.lookup("__call__")
            if d is not None:
                return self.call(d, [f] + list(args), kw)
            raise Raised(B.mkexc("TypeError", f"{f.cls.name!r} object is not callable"))
        if isinstance(f, StaticMethod):
            return self.call(f.f, args, kw)
        if isinstance(f, Poison):
            raise Unknown(f.why)
        if f is None or isinstance(f, (int, str, float, Seq, DictV, SetV, SymStr, Tok)):
            raise Raised(B.mkexc("TypeError", f"{B.typename(f)!r} object is not callable"))
        raise Unknown("call " + repr(f))

    def call_class(self, c, args, kw):
        B = self.w.B
        if c.builtin and "__construct__" in c.dict:
            return c.dict["__construct__"].fn(self, c, *args, **kw)
        meta = c.meta
        if meta is not None and meta is not B.TYPE:
            d, owner = meta.lookup("__call__")
            if d is not None and not owner.builtin:
                return self.call(d, [c] + list(args), kw)
        return self.default_construct(c, args, kw)

    def default_construct(self, c, args, kw):
        B = self.w.B
        if getattr(c, "builtin_construct", False) or any(getattr(k_, "builtin_construct", False) for k_ in c.mro):
            owner = next(k_ for k_ in c.mro if "__construct__" in k_.dict)
            return owner.dict["__construct__"].fn(self, c, *args, **kw)
        for k in c.mro:
            if k.builtin and "__construct__" in k.dict and k is not B.OBJECT:
                # subclass of a modelled built-in (exceptions, type ...)
                init, owner = c.lookup("__init__")
                user_init = init is not None and not owner.builtin
                if k.name in ("dict", "list", "set", "deque") and not c.builtin:
                    # a user class deriving from a built-in container: the container value carries its class and instance attributes
                    o = k.dict["__construct__"].fn(self, c, *([] if user_init else args), **({} if user_init else kw))
                    o.ucls, o.ufields = c, {}
                    if user_init:
                        self.call(init, [o] + list(args), kw)
                    return o
                o = k.dict["__construct__"].fn(self, c, *args, **kw)
                if user_init:
                    self.call(init, [o] + list(args), kw)
                return o
        new, owner = c.lookup("__new__")
        if new is not None and not owner.builtin:
            f = new.f if isinstance(new, StaticMethod) else new
            o = self.call(f, [c] + list(args), kw)
            if not (isinstance(o, Obj) and o.cls.issub(c)):
                return o
        else:
            o = Obj(c)
            self.w.alloc.append(o)
            o.name = f"new{len(self.w.alloc)}:{c.name}"
        init, owner = c.lookup("__init__")
        if init is not None and not owner.builtin:
            r = self.call(init, [o] + list(args), kw)
            if r is not None:
                raise Raised(B.mkexc("TypeError", "__init__() should return None"))
        elif (args or kw) and (new is None or owner.builtin):
            raise Raised(B.mkexc("TypeError", f"{c.name}() takes no arguments"))
        return o

    def bind_args(self, f, args, kw):
        B = self.w.B
        a = f.node.args
        loc = {}
        kw = dict(kw)
        pos = [p.arg for p in a.posonlyargs]
        reg = [p.arg for p in a.args]
        params = pos + reg
        nd = len(f.defaults)
        for i, p in enumerate(params):
            if i < len(args):
                if p in kw and i >= len(pos):
                    raise Raised(B.mkexc("TypeError", f"{f.name}() got multiple values for argument {p!r}"))
                loc[p] = args[i]
            elif p in kw and i >= len(pos):
                loc[p] = kw.pop(p)
            elif i >= len(params) - nd:
                loc[p] = f.defaults[i - (len(params) - nd)]
            else:
                raise Raised(B.mkexc("TypeError", f"{f.name}() missing required argument {p!r}"))
        if len(args) > len(params):
            if a.vararg:
                loc[a.vararg.arg] = Seq(args[len(params) :], "tuple")
            else:
                raise Raised(B.mkexc("TypeError", f"{f.name}() takes {len(params)} positional arguments but {len(args)} were given"))
        elif a.vararg:
            loc[a.vararg.arg] = Seq([], "tuple")
        for p in a.kwonlyargs:
            if p.arg in kw:
                loc[p.arg] = kw.pop(p.arg)
            elif p.arg in f.kwdefaults:
                loc[p.arg] = f.kwdefaults[p.arg]
            else:
                raise Raised(B.mkexc("TypeError", f"{f.name}() missing required keyword-only argument {p.arg!r}"))
        if a.kwarg:
            loc[a.kwarg.arg] = DictV([(k, v) for k, v in kw.items()])
        elif kw:
            raise Raised(B.mkexc("TypeError", f"{f.name}() got an unexpected keyword argument {next(iter(kw))!r}"))
        return loc

    def call_func(self, f, args, kw):
        w = self.w
        loc = self.bind_args(f, args, kw)
        fr = Frame(f.module, loc, cls=f.cls, self_obj=(args[0] if args else None), func=f, env=f.env)
        if f.is_gen:
            return GenV(f, fr)
        if isinstance(f.node, ast.Lambda):
            return self.ev(f.node.body, fr)
        w.depth += 1
        if w.depth > w.max_depth:
            w.max_depth = w.depth
        if w.depth > w.depth_budget:
            w.depth -= 1
            e = w.B.mkexc("RecursionError", "maximum recursion depth exceeded (abstract call depth budget)")
            raise Raised(e)
        try:
            self.exec_block(f.node.body, fr)
        except _Return as r:
            return r.v
        finally:
            w.depth -= 1
        return None

    def _gen_main(self, g: GenV):
        w = self.w
        w.depth += 1
        try:
            if w.depth > w.depth_budget:
                raise Raised(w.B.mkexc("RecursionError", "maximum recursion depth exceeded (abstract call depth budget)"))
            self.exec_block(g.func.node.body, g.frame)
            ev = ("return", None)
        except _Return as r:
            ev = ("return", r.v)
        except _GenClose:
            ev = ("return", None)
        except _GenAbandon:
            g.event = ("return", None)
            g.to_cons.release()
            return
        except BaseException as e:  # noqa: BLE001 - handed to the consumer, which re-raises it
            ev = ("raise", e)
        w.depth = g.resume_depth
        g.event = ev
        g.to_cons.release()

    def gen_step(self, g: GenV):
        """Run the generator up to its next yield.  -> True when a new element was appended to g.trace, False when it finished
        (g.ret / g.exc hold how)."""
        if g.done:
            return False
        if g.pygen is not None:
            if g.trace is None:
                g.trace = []
            try:
                g.trace.append(next(g.pygen))
                return True
            except StopIteration:
                g.done, g.pygen = True, None
                return False
            except Raised as e:
                g.done, g.pygen = True, None
                g.exc = e
                return False
        w = self.w
        g.resume_depth = w.depth
        if g.thread is None:
            import threading
            _ensure_thread_stack()
            g.trace = []
            g.frame.yields = g.trace
            g.frame.gen = g
            g.to_gen, g.to_cons = threading.Semaphore(0), threading.Semaphore(0)
            g.thread = threading.Thread(target=self._gen_main, args=(g,), daemon=True)
            g.thread.start()
            w.live_gens.append(g)
        else:
            w.depth += g.inner_depth
            g.event = None
            g.to_gen.release()
        g.to_cons.acquire()
        ev = g.event
        if ev[0] == "yield":
            return True
        g.done = True
        g.thread = None
        if ev[0] == "return":
            g.ret = ev[1]
            return False
        e = ev[1]
        if isinstance(e, Raised):
            g.exc = e
            return False
        raise e

    def gen_close(self, g: GenV):
        """generator.close(): GeneratorExit is raised at the yield the generator is suspended at, so its finally / with blocks run
        now; a generator that was never started, or has finished, is just marked closed"""
        if g.done:
            return
        if g.pygen is not None:
            g.pygen.close()
            g.pygen = None
        if g.thread is None:
            g.done = True
            if g.trace is None:
                g.trace = []
            return
        w = self.w
        g.resume_depth = w.depth
        w.depth += g.inner_depth
        g.event = ("close",)
        g.to_gen.release()
        g.to_cons.acquire()
        ev = g.event
        g.done = True
        g.thread = None
        if ev[0] == "yield":
            raise Raised(w.B.mkexc("RuntimeError", "generator ignored GeneratorExit"))
        if ev[0] == "raise":
            raise ev[1]

    def gen_abandon(self, g: GenV):
        """reclaim the thread of a suspended generator of a finished run (see _GenAbandon); world state is left as it is"""
        if g.done or g.thread is None:
            return
        w = self.w
        saved = w.depth
        g.event = ("abandon",)
        g.to_gen.release()
        g.to_cons.acquire()
        w.depth = saved
        g.done = True
        g.thread = None

    def run_gen(self, g: GenV):
        """run the generator to its end (for consumers that take everything at once)"""
        while self.gen_step(g):
            pass

    def iterate(self, v):
        """Concrete list of the elements of an abstract iterable (Unknown for opaque segments)."""
        f = self.uover(v, "__iter__")
        if f is not None:
            return self.iterate(self.call(f, [v], {}))
        if isinstance(v, ClassV) and "_enum_members_" in v.dict:
            return list(v.dict["_enum_members_"])
        if isinstance(v, Seq):
            if v.has_seg():
                raise Unknown("iterating over an opaque segment")
            return list(v.items)
        if isinstance(v, GenV):
            self.run_gen(v)
            out = v.trace[v.pos :]
            v.pos = len(v.trace)
            if v.exc is not None:
                # the elements before the fault are delivered to nobody that could observe them
                # in this library (consumers are list()/yield from/for); raise at this point.
                exc, v.exc = v.exc, None
                raise _PartialIter(out, exc)
            return out
        if isinstance(v, IterV):
            out = v.items[v.pos :]
            v.pos = len(v.items)
            return out
        if isinstance(v, (SetV, DictV)) and v.opaque:
            raise Unknown("iterating over an opaque set/dict")
        if isinstance(v, SetV):
            items = list(v.items)
            if len(items) <= 1 or self.w.set_order == "insertion":
                return items
            if self.w.set_order == "reversed":
                return items[::-1]
            if len(items) > 4:
                raise Unknown("iteration order of a set with more than 4 elements")
            perms = list(itertools.permutations(range(len(items))))
            c = self.w.choose(len(perms), "set-order")
            return [items[i] for i in perms[c]]
        if isinstance(v, DictV):
            return [k for k, _ in v.pairs]
        if isinstance(v, ProxyV):
            return self.iterate(v.d)
        if isinstance(v, str):
            return list(v)
        if isinstance(v, Obj):
            d, _ = v.cls.lookup("__iter__")
            if d is not None:
                return self.iterate(self.call(d, [v], {}))
            raise Raised(self.w.B.mkexc("TypeError", f"{v.cls.name!r} object is not iterable"))
        if v is None or isinstance(v, (int, float, bool)):
            raise Raised(self.w.B.mkexc("TypeError", f"{self.w.B.typename(v)!r} object is not iterable"))
        if isinstance(v, Poison):
            raise Unknown(v.why)
        raise Unknown("iterate " + repr(v))

    # ================================================================ items
    def getitem(self, c, k):
        f = self.uover(c, "__getitem__")
        if f is not None:
            return self.call(f, [c, k], {})
        return self.w.B.getitem(self, c, k)

    def setitem(self, c, k, v):
        f = self.uover(c, "__setitem__")
        if f is not None:
            return self.call(f, [c, k, v], {})
        return self.w.B.setitem(self, c, k, v)

    def delitem(self, c, k):
        f = self.uover(c, "__delitem__")
        if f is not None:
            return self.call(f, [c, k], {})
        return self.w.B.delitem(self, c, k)


class _PartialIter(Raised):
    """A generator raised after delivering some elements."""

    def __init__(self, delivered, raised: Raised):
        Raised.__init__(self, raised.exc)
        self.delivered = delivered


def _bound_names(st):
    out = []
    if isinstance(st, (ast.FunctionDef, ast.ClassDef)):
        out.append(st.name)
    elif isinstance(st, ast.Assign):
        for t in st.targets:
            out += [n.id for n in ast.walk(t) if isinstance(n, ast.Name)]
    elif isinstance(st, (ast.AnnAssign, ast.AugAssign)):
        out += [n.id for n in ast.walk(st.target) if isinstance(n, ast.Name)]
    elif isinstance(st, (ast.Import, ast.ImportFrom)):
        for a in st.names:
            out.append((a.asname or a.name).split(".")[0])
    elif isinstance(st, (ast.If, ast.Try, ast.With, ast.For, ast.While)):
        for s in ast.walk(st):
            if s is not st and isinstance(s, ast.stmt):
                out += _bound_names(s)
    return out


_ST = {getattr(ast, n[3:]): f for n, f in vars(Interp).items() if n.startswith("st_") and hasattr(ast, n[3:])}
_EX = {getattr(ast, n[3:]): f for n, f in vars(Interp).items() if n.startswith("ex_") and hasattr(ast, n[3:])}
if hasattr(ast, "TryStar"):
    pass
