"""C20 - randgraph always returns a universe of exactly `count` well-formed vertices.

SAMPLE-BOUND / ENSURE: a bound prover over the function's AST (reaching definitions + monotone transfer rules for
min/max/int/*,/ randint, the range loop variable, `count >= 1`, `connectivity in [0, 1]`) tries to establish
0 <= k <= len(population) (and k >= 1 under ensurelink) at random.sample for *every* count.  If it cannot, a witness
search evaluates the function abstractly (random stubbed at its extremes) for small counts; a raising count is the
witness.  Structure of the result is decided by abstract evaluation for counts in the scope."""
from __future__ import annotations
import ast
import itertools

from sa.harness import H
from sa.ae import Seq, Builtin, Unknown, Raised, Obj, Opaque
from rules import common

LEVEL = "proof"
FN = "edgegraph.builder.randgraph.randgraph"


# ----------------------------------------------------------------------------- bound prover
class Prover:
    """Proves facts of the form  expr <= count,  expr >= c  for the expression reaching random.sample's k."""

    def __init__(self, fnode, path):
        self.f = fnode
        self.path = path  # "default" (connectivity is None on entry) or "given" (connectivity in [0, 1])
        self.loopvars = {}
        self.defs = {}
        self.notes = []
        self.params = [a.arg for a in fnode.args.args + fnode.args.kwonlyargs]
        self._collect(fnode.body, [])

    def _collect(self, body, guards):
        for st in body:
            if isinstance(st, ast.Assign) and len(st.targets) == 1 and isinstance(st.targets[0], ast.Name):
                self.defs.setdefault(st.targets[0].id, []).append((st.value, list(guards), st.lineno))
            elif isinstance(st, ast.AugAssign) and isinstance(st.target, ast.Name):
                self.defs.setdefault(st.target.id, []).append((ast.BinOp(left=ast.Name(id=st.target.id + "@prev", ctx=ast.Load()), op=st.op, right=st.value), list(guards), st.lineno))
            elif isinstance(st, ast.For):
                if isinstance(st.target, ast.Name) and isinstance(st.iter, ast.Call) and isinstance(st.iter.func, ast.Name) and st.iter.func.id == "range":
                    self.loopvars[st.target.id] = st.iter.args
                elif isinstance(st.target, ast.Tuple) and isinstance(st.iter, ast.Call) and isinstance(st.iter.func, ast.Name) and st.iter.func.id == "enumerate" and isinstance(st.target.elts[0], ast.Name):
                    self.loopvars[st.target.elts[0].id] = ("enumerate", st.iter.args[0])
                self._collect(st.body, guards)
                self._collect(st.orelse, guards)
            elif isinstance(st, ast.If):
                self._collect(st.body, guards + [(st.test, True)])
                self._collect(st.orelse, guards + [(st.test, False)])
            elif isinstance(st, (ast.While, ast.With, ast.Try)):
                for fld in ("body", "orelse", "finalbody"):
                    self._collect(getattr(st, fld, []) or [], guards)

    # -- is the list `name` of length exactly count?
    def len_is_count(self, e):
        if isinstance(e, ast.Name):
            ds = self.defs.get(e.id, [])
            return len(ds) == 1 and self.len_is_count(ds[0][0])
        if isinstance(e, ast.ListComp) and len(e.generators) == 1 and not e.generators[0].ifs:
            it = e.generators[0].iter
            return isinstance(it, ast.Call) and isinstance(it.func, ast.Name) and it.func.id == "range" and len(it.args) == 1 and self.is_count(it.args[0])
        if isinstance(e, ast.Call) and isinstance(e.func, ast.Name) and e.func.id == "list" and len(e.args) == 1:
            return self.len_is_count(e.args[0])
        return False

    def is_count(self, e):
        if isinstance(e, ast.Name) and e.id == "count":
            return True
        if isinstance(e, ast.Call) and isinstance(e.func, ast.Name) and e.func.id == "len" and len(e.args) == 1:
            return self.len_is_count(e.args[0])
        return False

    def const(self, e):
        if isinstance(e, ast.Constant) and isinstance(e.value, (int, float)) and not isinstance(e.value, bool):
            return e.value
        if isinstance(e, ast.UnaryOp) and isinstance(e.op, ast.USub):
            c = self.const(e.operand)
            return -c if c is not None else None
        return None

    def name_defs(self, name, depth):
        if depth > 12:
            return None
        return self.defs.get(name)

    # -- e <= count ?
    def le_count(self, e, d=0):
        c = self.const(e)
        if c is not None:
            return c <= 1
        if self.is_count(e):
            return True
        if isinstance(e, ast.Name):
            if e.id.endswith("@prev"):
                return self.le_count(ast.Name(id=e.id[:-5], ctx=ast.Load()), d + 1)
            if e.id in self.loopvars:
                lv = self.loopvars[e.id]
                if isinstance(lv, list) and len(lv) == 1:
                    return self.le_count(lv[0], d + 1)  # i <= stop - 1 <= stop
                if isinstance(lv, tuple):
                    return self.len_is_count(lv[1])
                return False
            if e.id == "connectivity":
                return self.conn_in_unit()
            ds = self.name_defs(e.id, d)
            if not ds:
                return False
            return self._defs_all(e.id, ds, lambda v: self.le_count(v, d + 1))
        if isinstance(e, ast.Call):
            fn = ast.unparse(e.func)
            if fn == "max":
                return all(self.le_count(a, d + 1) for a in e.args)
            if fn == "min":
                return any(self.le_count(a, d + 1) for a in e.args)
            if fn in ("int", "round", "math.floor", "floor"):
                return self.le_count(e.args[0], d + 1) or self.le_zero(e.args[0], d + 1)
            if fn in ("math.ceil", "ceil"):
                return self.le_count(e.args[0], d + 1)  # count is an integer
            if fn in ("random.randint",):
                return self.le_count(e.args[1], d + 1)
            if fn in ("random.randrange",):
                return self.le_count(e.args[-1] if len(e.args) < 3 else e.args[1], d + 1)
            if fn == "len":
                return self.is_count(e)
            if fn in ("abs",):
                return self.le_count(e.args[0], d + 1) and self.ge(e.args[0], 0, d + 1)
            return False
        if isinstance(e, ast.BinOp):
            if isinstance(e.op, ast.Mult):
                for a, b in ((e.left, e.right), (e.right, e.left)):
                    if self.le_count(a, d + 1) and self.ge(a, 0, d + 1) and self.in_unit(b, d + 1):
                        return True
                return False
            if isinstance(e.op, ast.Sub):
                return self.le_count(e.left, d + 1) and self.ge(e.right, 0, d + 1)
            if isinstance(e.op, (ast.FloorDiv, ast.Div)):
                return self.le_count(e.left, d + 1) and self.ge(e.left, 0, d + 1) and self.ge(e.right, 1, d + 1)
            if isinstance(e.op, ast.Mod):
                return self.le_count(e.right, d + 1) and self.ge(e.right, 1, d + 1)
            if isinstance(e.op, ast.Add):
                # a + c <= count when a <= count - c: only the loop variable gives slack (i <= count - 1)
                for a, b in ((e.left, e.right), (e.right, e.left)):
                    c = self.const(b)
                    if c is not None and c <= 1 and isinstance(a, ast.Name) and a.id in self.loopvars and isinstance(self.loopvars[a.id], list) and len(self.loopvars[a.id]) == 1 and self.is_count(self.loopvars[a.id][0]):
                        return True
                    if c is not None and c <= 0 and self.le_count(a, d + 1):
                        return True
                return False
        if isinstance(e, ast.IfExp):
            return self.le_count(e.body, d + 1) and self.le_count(e.orelse, d + 1)
        return False

    def le_zero(self, e, d=0):
        c = self.const(e)
        return c is not None and c <= 0

    def in_unit(self, e, d=0):
        return self.ge(e, 0, d) and self.le_one(e, d)

    def le_one(self, e, d=0):
        c = self.const(e)
        if c is not None:
            return c <= 1
        if isinstance(e, ast.Name):
            if e.id == "connectivity":
                return self.conn_in_unit()
            ds = self.name_defs(e.id, d)
            return bool(ds) and self._defs_all(e.id, ds, lambda v: self.le_one(v, d + 1))
        if isinstance(e, ast.Call):
            fn = ast.unparse(e.func)
            if fn == "min":
                return any(self.le_one(a, d + 1) for a in e.args)
            if fn == "max":
                return all(self.le_one(a, d + 1) for a in e.args)
            if fn == "random.random":
                return True
        if isinstance(e, ast.BinOp) and isinstance(e.op, ast.Div):
            # c / count <= 1 needs count >= c
            c = self.const(e.left)
            if c is not None and self.is_count(e.right):
                return c <= 1
        if isinstance(e, ast.BinOp) and isinstance(e.op, ast.Mult):
            return self.in_unit(e.left, d + 1) and self.in_unit(e.right, d + 1)
        return False

    def conn_in_unit(self):
        """`connectivity` at its use: the parameter is in [0, 1] by the statement; on the default path it is what the code assigns."""
        ds = self.defs.get("connectivity", [])
        if self.path == "given":
            # re-definitions guarded by `connectivity is None` do not apply
            live = [x for x in ds if not self._guard_is_none(x[1])]
            return all(self.in_unit(v, 1) for v, g, ln in live)
        live = [x for x in ds if self._guard_is_none(x[1])]
        if not live:
            return False  # None * number raises TypeError
        return all(self.in_unit(v, 1) for v, g, ln in live)

    def _guard_is_none(self, guards):
        for t, pol in guards:
            s = ast.unparse(t)
            if pol and s in ("connectivity is None", "connectivity == None", "not connectivity"):
                return True
            if not pol and s in ("connectivity is not None", "connectivity != None", "connectivity"):
                return True
        return False

    def _defs_all(self, name, ds, pred):
        """All definitions that may reach the use.  A later unconditional definition kills earlier ones."""
        live = []
        for v, g, ln in ds:
            if not g:
                live = [(v, g, ln)]
            else:
                live.append((v, g, ln))
        # self-referential updates (k = max(k, 1)): the referenced previous value is the other definitions
        ok = True
        for v, g, ln in live:
            others = [x for x in live if x[2] != ln] or [x for x in ds if x[2] != ln]
            prev = self.defs
            self.defs = dict(self.defs)
            self.defs[name] = [x for x in ds if x[2] < ln] or others
            try:
                ok = ok and pred(v)
            finally:
                self.defs = prev
        return ok

    # -- e >= c ?
    def ge(self, e, c, d=0):
        k = self.const(e)
        if k is not None:
            return k >= c
        if d > 12:
            return False
        if self.is_count(e):
            return c <= 1
        if isinstance(e, ast.Name):
            if e.id.endswith("@prev"):
                return self.ge(ast.Name(id=e.id[:-5], ctx=ast.Load()), c, d + 1)
            if e.id in self.loopvars:
                return c <= 0
            if e.id == "connectivity":
                return c <= 0 and self.conn_ge0()
            ds = self.name_defs(e.id, d)
            return bool(ds) and self._defs_all(e.id, ds, lambda v: self.ge(v, c, d + 1))
        if isinstance(e, ast.Call):
            fn = ast.unparse(e.func)
            if fn == "max":
                return any(self.ge(a, c, d + 1) for a in e.args)
            if fn == "min":
                return all(self.ge(a, c, d + 1) for a in e.args)
            if fn in ("int", "round", "math.floor", "floor"):
                return self.ge(e.args[0], c, d + 1) if c <= 0 else self.ge(e.args[0], c, d + 1) and float(c).is_integer()
            if fn in ("math.ceil", "ceil"):
                return self.ge(e.args[0], c, d + 1) or (c <= 1 and self.gt0(e.args[0], d + 1))
            if fn == "random.randint":
                return self.ge(e.args[0], c, d + 1)
            if fn == "random.random":
                return c <= 0
            if fn == "len":
                return c <= 0 or (c <= 1 and self.is_count(e))
            if fn == "abs":
                return c <= 0
            return False
        if isinstance(e, ast.BinOp):
            if isinstance(e.op, ast.Mult):
                if c <= 0:
                    return self.ge(e.left, 0, d + 1) and self.ge(e.right, 0, d + 1)
                return (self.ge(e.left, c, d + 1) and self.ge(e.right, 1, d + 1)) or (self.ge(e.right, c, d + 1) and self.ge(e.left, 1, d + 1))
            if isinstance(e.op, (ast.Div, ast.FloorDiv)):
                return c <= 0 and self.ge(e.left, 0, d + 1) and self.ge(e.right, 1, d + 1)
            if isinstance(e.op, ast.Add):
                return (self.ge(e.left, c, d + 1) and self.ge(e.right, 0, d + 1)) or (self.ge(e.right, c, d + 1) and self.ge(e.left, 0, d + 1))
            if isinstance(e.op, ast.Mod):
                return c <= 0 and self.ge(e.right, 1, d + 1)
        if isinstance(e, ast.IfExp):
            return self.ge(e.body, c, d + 1) and self.ge(e.orelse, c, d + 1)
        return False

    def gt0(self, e, d):
        return self.ge(e, 1, d)

    def conn_ge0(self):
        ds = self.defs.get("connectivity", [])
        if self.path == "given":
            return all(self.ge(v, 0, 1) for v, g, ln in ds if not self._guard_is_none(g))
        live = [x for x in ds if self._guard_is_none(x[1])]
        return bool(live) and all(self.ge(v, 0, 1) for v, g, ln in live)


def find_sample(fnode):
    """The random.sample(population, k) call sites of the function."""
    out = []
    for n in ast.walk(fnode):
        if isinstance(n, ast.Call) and ast.unparse(n.func) in ("random.sample", "sample") and len(n.args) + len(n.keywords) >= 2:
            pop = n.args[0]
            k = n.args[1] if len(n.args) > 1 else next((kw.value for kw in n.keywords if kw.arg == "k"), None)
            out.append((n, pop, k))
    return out


def ensure_guarded_defs(p: Prover):
    """Under ensurelink: is k >= 1 established?  The update `if ensurelink: k = max(k, 1)` is unconditional on that path."""
    q = Prover(p.f, p.path)
    for name, ds in list(q.defs.items()):
        q.defs[name] = [(v, [g for g in gs if ast.unparse(g[0]) not in ("ensurelink", "ensurelink is True", "ensurelink == True") or not g[1]], ln) for v, gs, ln in ds]
    return q


# ----------------------------------------------------------------------------- abstract evaluation with random stubbed
def eval_randgraph(h, fn, count, edge, connectivity, ensurelink, rmode, smode):
    B = h.w.B
    samples = []

    def randint(I, a, b):
        if not (isinstance(a, int) and isinstance(b, int)):
            raise Unknown("randint bounds not concrete")
        if a > b:
            raise Raised(B.mkexc("ValueError", f"empty range for randrange() ({a}, {b + 1}, {b + 1 - a})"))
        return a if rmode == "lo" else b

    def sample(I, pop, k, **kw):
        items = I.iterate(pop)
        if not isinstance(k, int) or isinstance(k, bool):
            raise Raised(B.mkexc("TypeError", "sample size must be an integer"))
        if not 0 <= k <= len(items):
            raise Raised(B.mkexc("ValueError", "Sample larger than population or is negative"))
        samples.append(k)
        if smode == "rotate":
            off = len(samples) % len(items) if items else 0
            rot = items[off:] + items[:off]
            return Seq(rot[:k], "list")
        return Seq(items[:k] if smode == "first" else items[len(items) - k:], "list")

    def choice(I, seq):
        items = I.iterate(seq)
        if not items:
            raise Raised(B.mkexc("IndexError", "Cannot choose from an empty sequence"))
        return items[0] if rmode == "lo" else items[-1]

    bits = [0]

    def getrandbits(I, k):
        bits[0] += 1
        return (bits[0] * 2654435761 + 12345) % (1 << k) if isinstance(k, int) and k > 0 else 0

    h.w.ext_overrides["random.choice"] = Builtin("random.choice", choice)
    h.w.ext_overrides["random.randint"] = Builtin("random.randint", randint)
    h.w.ext_overrides["random.sample"] = Builtin("random.sample", sample)
    h.w.ext_overrides["random.getrandbits"] = Builtin("random.getrandbits", getrandbits)
    h.reset()
    h.settle()
    kw = {"count": count, "edge": h.cls(edge), "ensurelink": ensurelink}
    if connectivity is not None:
        kw["connectivity"] = connectivity
    out = h.call(fn, **kw)
    return out, samples


def eval_reproducible(h, fn, count, edge, connectivity, ensurelink, runs=2):
    """random.seed(s); randgraph(...) - twice in one interpreter state (nothing is reset between the two runs: whatever the first run
    left in module- or class-level state is there for the second).  The random module is ONE stream: the n-th draw after seeding is a
    fixed function of n and of the draw's own arguments, whichever function makes it - so a run that consumes the stream differently
    (an extra draw, a skipped one) sees other values from then on, exactly as with the real generator."""
    B = h.w.B
    pos = [0]

    def draw():
        pos[0] += 1
        return pos[0]

    def randint(I, a, b):
        if not (isinstance(a, int) and isinstance(b, int)):
            raise Unknown("randint bounds not concrete")
        if a > b:
            raise Raised(B.mkexc("ValueError", "empty range for randrange()"))
        return a + (draw() * 7 + 3) % (b - a + 1)

    def sample(I, pop, k, **kw):
        items = I.iterate(pop)
        if not isinstance(k, int) or isinstance(k, bool):
            raise Raised(B.mkexc("TypeError", "sample size must be an integer"))
        if not 0 <= k <= len(items):
            raise Raised(B.mkexc("ValueError", "Sample larger than population or is negative"))
        off = (draw() * 5 + 1) % len(items) if items else 0
        rot = items[off:] + items[:off]
        return Seq(rot[:k], "list")

    def choice(I, seq):
        items = I.iterate(seq)
        if not items:
            raise Raised(B.mkexc("IndexError", "Cannot choose from an empty sequence"))
        return items[(draw() * 3 + 2) % len(items)]

    def getrandbits(I, k):
        return (draw() * 2654435761 + 12345) % (1 << k) if isinstance(k, int) and k > 0 else 0

    h.w.ext_overrides["random.choice"] = Builtin("random.choice", choice)
    h.w.ext_overrides["random.randint"] = Builtin("random.randint", randint)
    h.w.ext_overrides["random.sample"] = Builtin("random.sample", sample)
    h.w.ext_overrides["random.getrandbits"] = Builtin("random.getrandbits", getrandbits)
    h.reset()
    h.settle()
    kw = {"count": count, "edge": h.cls(edge), "ensurelink": ensurelink}
    if connectivity is not None:
        kw["connectivity"] = connectivity
    shapes = []
    for _ in range(runs):
        pos[0] = 0          # random.seed(s)
        h.w.steps = 0
        shapes.append(shape_of(h.call(fn, **kw)))
    return shapes


def _eval_jobs(arg):
    from sa.src import Source
    root, overlay, jobs = arg
    h = H(Source(root, overlay), ["edgegraph.builder.randgraph", "edgegraph.builder.adjlist", "edgegraph.builder.explicit"])
    fn = h.fn(FN)
    out_ = []
    for job in jobs:
        count, edge, conn, ens, rmode, smode = job
        try:
            try:
                out, samples = eval_randgraph(h, fn, count, edge, conn, ens, rmode, smode)
                why = check_result(h, out, count, edge, ens)
            except Unknown as u0:
                if "set-order" not in str(u0) and "set-pop" not in str(u0):
                    raise
                # the code iterates a set: reproducibility is decided by comparing two iteration orders under the same random draws
                shapes, why = [], None
                for order in ("insertion", "reversed"):
                    h.w.set_order = order
                    try:
                        out, samples = eval_randgraph(h, fn, count, edge, conn, ens, rmode, smode)
                        why = why or check_result(h, out, count, edge, ens)
                        shapes.append(shape_of(out))
                    finally:
                        h.w.set_order = "fork"
                if why is None and shapes[0] != shapes[1]:
                    why = f"with identical random draws the result depends on the iteration order of a set ({shapes[0]} vs {shapes[1]}): seeding the random module does not make it reproducible"
            out_.append((job, why, samples, None))
        except Unknown as u:
            out_.append((job, None, [], str(u)))
    return out_


def shape_of(out):
    if out.kind != "return" or not isinstance(out.value, Obj):
        return repr(out)
    ms = out.value.fields["_vertices"].items
    return [(m.fields.get("i"), [tuple(e.fields.get("i") if isinstance(e, Obj) else None for e in l.fields["_vertices"].items) for l in m.fields["_links"].items]) for m in ms]


def check_result(h, out, count, edge, ensurelink):
    if out.kind != "return":
        return f"raises {out.excname}"
    u = out.value
    if not (isinstance(u, Obj) and u.cls.issub(h.cls("Universe"))):
        return f"returns {out!r}, not a universe"
    members = u.fields["_vertices"].items
    if len(members) != count:
        return f"universe has {len(members)} members for count={count}"
    idx = [m.fields.get("i") for m in members]
    if sorted(idx, key=lambda x: (not isinstance(x, int), x if isinstance(x, int) else 0)) != list(range(count)):
        return f"members carry i = {idx}, expected 0..{count - 1}"
    ecls = h.cls(edge)
    for m in members:
        first_end = False
        for l in m.fields["_links"].items:
            if l.cls is not ecls:
                return f"link of class {l.cls.name}, requested {edge}"
            ends = l.fields["_vertices"].items
            if len(ends) != 2 or any(e is None or not any(e is x for x in members) for e in ends):
                return f"link with ends {ends} not inside the universe"
            if ends[0] is m:
                first_end = True
        if ensurelink and not first_end:
            return f"ensurelink set but vertex i={m.fields.get('i')} is the v1 of no link"
    return None


def run(ctx):
    res = ctx.res
    prog = common.program(ctx)
    f = prog.func(FN)
    res.analysed = common.analysed(ctx, [FN, "edgegraph.builder.adjlist.load_adj_dict"])
    res.rule_text = ("SAMPLE-BOUND / ENSURE bound obligations at every random.sample site for both connectivity paths (symbolic in count >= 1); abstract evaluation of randgraph for "
                     "count in the scope x edge type x connectivity in {default, 0, 0.5, 1} x ensurelink x random at its extremes (randint lo/hi, sample first/last/rotating window)")
    res.trusted_base = common.TRUSTED_AE + ["bound prover transfer rules (rules/c20.py): min/max/int/*,/ randint <= upper argument, loop variable of range(count) in [0, count-1], count >= 1, connectivity in [0, 1] when given"]
    res.assumptions = ["count is an int >= 1", "connectivity in [0, 1] or None", "the random module behaves as documented (sample raises when k > len(population))"]
    sites = find_sample(f.node)
    proved = True
    nob = 0
    if not sites:
        res.note("no random.sample call site found in randgraph: bound obligations not applicable, verdict from the evaluation scope only")
        proved = False
    for call, pop, k in sites:
        for path in ("given", "default"):
            p = Prover(f.node, path)
            obl = [("SAMPLE-BOUND k <= len(population)", p.len_is_count(pop) and k is not None and p.le_count(k)),
                   ("SAMPLE-BOUND k >= 0", k is not None and p.ge(k, 0))]
            q = ensure_guarded_defs(p)
            obl.append(("ENSURE k >= 1 under ensurelink", k is not None and q.ge(k, 1)))
            for name, ok in obl:
                nob += 1
                res.ob(True, sig=("bound", path, name, call.lineno))  # outcome recorded below; unproved is not a violation by itself
                if not ok:
                    proved = False
                    res.note(f"bound not established symbolically: {name} on the {path}-connectivity path at {f.rel}:{call.lineno} (witness search decides)")
    res.rule("SAMPLE-BOUND/ENSURE", nob)
    # ---- evaluation / witness search
    counts = list(range(1, 41)) if ctx.thorough else [1, 2, 3, 4, 5, 6, 7, 9, 12]
    if not proved:
        counts = sorted(set(counts) | set(range(1, 17 if not ctx.thorough else 65)))
    # counts at the sizes the tree itself names (rules/common.harvested_sizes), with fewer settings each
    big_counts = [c for c in common.scale_sizes(ctx, res) if c not in counts and c <= common.HUB_CAP + 1]
    jobs = []
    for count in big_counts:
        for conn, ens, rmode, smode in ((None, False, "lo", "first"), (None, True, "hi", "rotate"), (0, False, "lo", "first"), (1, True, "hi", "first")):
            jobs.append((count, "DirectedEdge", conn, ens, rmode, smode))
    for count in counts:
        edges = ("DirectedEdge", "UnDirectedEdge", "SymTwo", "RoadLink", "FixedEndsEdge") if count <= 4 else ("DirectedEdge",)      # incl. two user edge classes
        for edge, conn, ens, rmode, smode in itertools.product(edges, (None, 0, 0.5, 1), (True, False), ("lo", "hi"), ("first", "last", "rotate")):
            if count > 6 and (smode == "last" or conn == 0.5 and rmode == "lo"):
                continue
            jobs.append((count, edge, conn, ens, rmode, smode))
    root, overlay = str(ctx.src.root), dict(ctx.src.overlay)
    if ctx.thorough:
        import multiprocessing as mp
        import os
        nproc = min(16, os.cpu_count() or 1)
        jobs.sort(key=lambda j: -j[0])
        chunks = [jobs[i::nproc * 3] for i in range(nproc * 3)]
        with mp.get_context("fork").Pool(nproc) as pool:
            parts = pool.map(_eval_jobs, [(root, overlay, c) for c in chunks if c])
        results = [r for p_ in parts for r in p_]
    else:
        results = _eval_jobs((root, overlay, jobs))
    n = 0
    for (count, edge, conn, ens, rmode, smode), why, samples, und in results:
        if und:
            res.ob(False)
            res.undecide(f"randgraph(count={count}, {edge}, connectivity={conn}, ensurelink={ens}): {und}")
            continue
        n += 1
        res.ob(why is None, sig=(count, edge, conn, ens, rmode, smode), sample={"count": count, "edge": edge, "connectivity": conn, "ensurelink": ens, "randint": rmode, "sample_sizes": samples})
        if why:
            res.violation("RANDGRAPH", FN, f"connectivity={'default' if conn is None else 'given'},ensurelink={ens},small-count={count < 5}",
                          f"randgraph(count={count}, edge={edge}, connectivity={conn}, ensurelink={ens}) with randint at its {'upper' if rmode == 'hi' else 'lower'} end: {why}",
                          replay=f"import random\nfrom edgegraph.builder.randgraph import randgraph\nfor seed in range(200):\n    random.seed(seed)\n    u = randgraph(count={count}, connectivity={conn}, ensurelink={ens})\n    assert len(u.vertices) == {count}\nprint('ok')")
    res.rule("RANDGRAPH-EVAL", n)
    # ---- "seeding the random module makes the result reproducible": seed, build, seed again, build again - in one interpreter state
    hr = H(ctx.src, ["edgegraph.builder.randgraph", "edgegraph.builder.adjlist", "edgegraph.builder.explicit"])
    fnr = hr.fn(FN)
    nrep = 0
    for count, edge, conn, ens in itertools.product((1, 2, 3, 5, 8), ("DirectedEdge", "UnDirectedEdge"), (None, 0.5), (True, False)):
        try:
            hr.w.set_order = "insertion"
            shapes = eval_reproducible(hr, fnr, count, edge, conn, ens, runs=3 if count <= 3 else 2)
        except Unknown as u:
            res.note(f"reproducibility of randgraph(count={count}, {edge}, connectivity={conn}, ensurelink={ens}) not evaluated: {u}")
            continue
        finally:
            hr.w.set_order = "fork"
        nrep += 1
        ok = all(sh == shapes[0] for sh in shapes[1:])
        res.ob(ok, sig=("reproducible", count, edge, conn, ens))
        if not ok:
            k_ = next(i for i, sh in enumerate(shapes) if sh != shapes[0])
            res.violation("REPRODUCIBLE", FN, f"same-seed-again-in-one-interpreter,ensurelink={ens},connectivity={'default' if conn is None else 'given'}",
                          f"random.seed(s); randgraph(count={count}, edge={edge}, connectivity={conn}, ensurelink={ens}) evaluated {len(shapes)} times in one interpreter state with the random stream rewound before each run "
                          f"(the n-th draw after seeding has the same value each time): run 1 gives {shapes[0]}, run {k_ + 1} gives {shapes[k_]} - seeding the random module does not make the result reproducible",
                          replay=f"import random\nfrom edgegraph.builder.randgraph import randgraph\nfrom edgegraph.structure import {edge}\ndef shape(u): return [(v.i, [(l.v1.i, l.v2.i) for l in v.links]) for v in u.vertices]\n"
                                 f"for s in range(50):\n    random.seed(s); g1 = shape(randgraph(count={count}, edge={edge}, ensurelink={ens}))\n    random.seed(s); g2 = shape(randgraph(count={count}, edge={edge}, ensurelink={ens}))\n    assert g1 == g2, s\nprint('ok')")
    res.rule("REPRODUCIBLE", nrep)
    det(ctx, res, prog)
    res.bounded_only = not proved
    res.extra["bounds_proved_for_every_count"] = proved
    common.vacuity(res, "RANDGRAPH-EVAL", 100)
    res.explanation = ("The sample size is bounded by the population size for every count (bound prover)" if proved else "Bounds not proved symbolically; no raising count found in the evaluation scope") + \
        "; result structure evaluated abstractly with the random module at its extremes for the counts in scope; graph materialisation is decided by C11."


def det(ctx, res, prog):
    """Reproducibility: the only non-determinism sources are module-level random.* calls."""
    n = 0
    for q in (FN, "edgegraph.builder.adjlist.load_adj_dict"):
        f = prog.func(q)
        n += 1
        for node in ast.walk(f.node):
            if isinstance(node, ast.Call):
                s = ast.unparse(node.func)
                if s in ("random.Random", "random.SystemRandom", "os.urandom", "secrets.choice", "secrets.randbelow", "time.time", "uuid.uuid4", "id", "hash") or s.startswith("secrets.") or s.startswith("numpy.random"):
                    res.note(f"DET pointer: {f.rel}:{node.lineno} {q} calls {s}() - a source that seeding the random module does not control, if the result depends on it")
            if isinstance(node, (ast.For, ast.comprehension)):
                it = node.iter
                if isinstance(it, (ast.Set, ast.SetComp)) or isinstance(it, ast.Call) and ast.unparse(it.func) in ("set", "frozenset"):
                    res.note(f"DET pointer: {f.rel}:{getattr(node, 'lineno', f.node.lineno)} {q} iterates over a set (the evaluation compares two iteration orders)")
    res.rule("DET", n)
