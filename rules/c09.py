"""C09 - find_links agrees with neighbors(): decision table of find_links derived by abstract evaluation,
compared with the transcribed table (DESIGN.md A.2), with the derived neighbors() table (relational
check), and with the post-state of explicit.unlink."""
from __future__ import annotations
import itertools

from sa.harness import H, show
from sa.ae import Callback, Seq, SetV, Unknown
from rules import common, c04

LEVEL = "proof"
FN = "edgegraph.traversal.helpers.find_links"
KINDS = c04.KINDS
POS = c04.POS
UHS = c04.UHS
FILTERS = c04.FILTERS


def expected(kind, pos, joins, ds, uh, filt):
    F = not filt.startswith("reject")
    if not joins:
        return {"no", "NotImplementedError"} if (kind == "X" and uh == "ERROR" and ds) else "no"
    if not ds:
        return "yes" if F else "no"
    if kind == "U":
        return "yes" if F else "no"
    if kind == "D":
        return ("yes" if F else "no") if pos in ("v1", "both") else "no"
    if uh == "NONNEIGHBOR":
        return "no"
    if uh == "NEIGHBOR":
        return "yes" if F else "no"
    return "NotImplementedError"


def build(h, cls, pos, joins, vcls="Vertex"):
    a = h.vertex("a", vcls)
    b = a if (pos == "both" and joins) else h.vertex("b", vcls)
    other = a if pos == "both" else (b if joins else h.vertex("c", vcls))
    ends = {"v1": [a, other], "v2": [other, a], "both": [a, a]}[pos]
    if getattr(h, "aux", None):
        l = h.new(cls, "L", *ends)      # auxiliary state in this tree: the link is made by its constructor
        h.settle()
        return a, b, l
    l = h.link("L", cls, ends)
    a.fields["_links"] = Seq([l], "list")
    if other is not a:
        other.fields["_links"] = Seq([l], "list")
    h.settle()
    return a, b, l


def classify(out, l):
    if out.kind == "raise":
        return out.excname
    v = out.value
    if isinstance(v, Seq) and not v.has_seg() and len({id(x) for x in v.items}) == len(v.items):
        v = SetV(v.items)       # a duplicate-free list/tuple is as good a "set of links" as a set
    if not isinstance(v, SetV):
        return f"not a duplicate-free collection: {show(v)}"
    if not v.items:
        return "no"
    if len(v.items) == 1 and v.items[0] is l:
        return "yes"
    return "set " + show(v)


def replay(cls, pos, joins, ds, uh, filt):
    L = ["from edgegraph.structure import Vertex, TwoEndedLink, DirectedEdge, UnDirectedEdge", "from edgegraph.traversal import helpers",
         "class SymTwo(TwoEndedLink): pass", "class SymDir(DirectedEdge): pass", "class SymUnd(UnDirectedEdge): pass",
         "a = Vertex(); b = Vertex(); c = Vertex()"]
    o = "a" if pos == "both" else ("b" if joins else "c")
    L.append(f"L = {cls}({'a, ' + o if pos != 'v2' else o + ', a'})")
    f = {"none": "None", "accept": "lambda e: True", "reject": "lambda e: False",
         "accept-falsy": "type('F', (), {'__call__': lambda s, e: True, '__len__': lambda s: 0})()",
         "reject-falsy": "type('F', (), {'__call__': lambda s, e: False, '__len__': lambda s: 0})()"}[filt]
    L.append(f"print(helpers.find_links(a, {'a' if pos == 'both' and joins else 'b'}, {ds}, helpers.LNK_UNKNOWN_{uh}, {f}))")
    return "\n".join(L)


def run(ctx):
    res = ctx.res
    res.rule_text = ("decision table of helpers.find_links: link class x position of `a` x other end is `b` or not x direction flag x "
                     "unknown_handling x filter; relational comparison with the derived neighbors() table; post-state of unlink()")
    res.trusted_base = common.TRUSTED_AE
    res.assumptions = ["filter callbacks are pure", "links are two-ended"]
    common.identity_model(ctx)
    h = H(ctx.src, ["edgegraph.traversal.helpers", "edgegraph.builder.explicit"])
    fn = h.fn(FN)
    nb = h.fn(c04.FN)
    C = c04.consts(h)
    res.analysed = common.analysed(ctx, [FN, c04.FN, "edgegraph.builder.explicit.unlink"])
    derived = {}
    rows_ = [r + ("Vertex",) for r in itertools.product(KINDS, POS, (True, False), (True, False), UHS, FILTERS)]
    # the same table on distinct vertices that compare equal (a user vertex class with value equality): "the links whose two ends are a and b"
    rows_ += [r + ("EqVert",) for r in itertools.product(("DirectedEdge", "UnDirectedEdge", "SymTwo"), POS, (True, False), (True, False), UHS, ("none", "accept"))]
    for cls, pos, joins, ds, uh, filt, vcls in rows_:
        kind = KINDS[cls]
        exp = expected(kind, pos, joins, ds, uh, filt)
        h.reset()
        a, b, l = build(h, cls, pos, joins, vcls)
        try:
            cb = c04.mkfilter(filt, h=h)
            out = h.call(fn, a, b, ds, C[uh], c04.cbval(cb))
        except Unknown as u:
            res.ob(False)
            res.undecide(f"{FN} row {cls},{pos},{joins},{ds},{uh},{filt}: {u}")
            continue
        got = classify(out, l)
        if vcls == "Vertex":
            derived[(cls, pos, joins, ds, uh, filt)] = got
        ok = got in exp if isinstance(exp, set) else got == exp
        if ok and cb is not None:
            for args, kw in cb.calls:
                if not (len(args) == 1 and not kw and args[0] is l):
                    ok, got = False, f"filter called with {show(Seq(args))} {kw}"
        res.ob(ok, sig=(cls, pos, joins, ds, uh, filt, vcls),
               sample={"link": cls, "a_is": pos, "other_end_is_b": joins, "direction_sensitive": ds, "unknown": uh, "filter": filt, "derived": got, "specified": sorted(exp) if isinstance(exp, set) else exp})
        if not ok:
            res.violation("TABLE", FN, f"kind={kind},joins={joins},sensitive={ds},unknown={uh},filter={filt}" + (",vertices-compare-equal" if vcls != "Vertex" else ""),
                          f"find_links() gives {got!r} for a {kind}-kind link where the statement requires {exp!r}" + (" (a, b and the third vertex are distinct objects of a class with value equality)" if vcls != "Vertex" else ""),
                          detail=f"link class {cls}, a is {pos}; filter calls {cb.calls if cb else None}", replay=replay(cls, pos, joins, ds, uh, filt))
    # ---- a one-argument filter written as a lambda with a defaulted second parameter: it is still asked about the link alone
    ndp = 0
    for cls, pos, ds, uh, answer in itertools.product(("DirectedEdge", "UnDirectedEdge", "SymTwo"), ("v1", "v2"), (True, False), UHS[:2], (True, False)):
        exp = expected(KINDS[cls], pos, True, ds, uh, "accept" if answer else "reject")
        try:
            h.reset()
            a, b, l = build(h, cls, pos, True)
            flt = h.I.call(h.sym["make_default_param_filter"], [answer], {})
            got = classify(h.call(fn, a, b, ds, C[uh], flt), l)
        except Unknown as u:
            res.ob(False)
            res.undecide(f"{FN} row {cls},{pos},{ds},{uh},lambda-with-defaulted-parameter: {u}")
            continue
        ndp += 1
        ok = got in exp if isinstance(exp, set) else got == exp
        res.ob(ok, sig=("defaulted-parameter", cls, pos, ds, uh, answer))
        if not ok:
            res.violation("TABLE", FN, f"kind={KINDS[cls]},joins=True,sensitive={ds},unknown={uh},filter={'accept' if answer else 'reject'},filter-is-a-lambda-with-a-defaulted-second-parameter",
                          f"find_links() gives {got!r} for a {KINDS[cls]}-kind link where the statement requires {exp!r}; the filter is `lambda e, _answer={answer}: _answer`",
                          replay=replay(cls, pos, True, ds, uh, "accept" if answer else "reject").replace("filterfunc", "filterfunc  # use: lambda e, _answer=%s: _answer" % answer))
    res.rule("TABLE", len(rows_) + ndp)
    # ---- relational check against the derived neighbors() table
    nrel = 0
    for (cls, pos, joins, ds, uh, filt), got in derived.items():
        if not joins:
            continue
        try:
            ngot = c04.derive_single(h, C, nb, cls, pos, "FORWARD" if ds else "ANY", uh, filt)
        except Unknown as u:
            res.undecide(f"relational check: neighbors row {cls},{pos},{uh},{filt}: {u}")
            continue
        if got not in ("yes", "no") or ngot not in ("OE", "nothing"):
            continue  # one of the calls does not return: the statement only relates returning calls
        nrel += 1
        ok = (got == "yes") == (ngot == "OE")
        res.ob(ok, sig=("rel", cls, pos, ds, uh, filt))
        if not ok:
            res.violation("RELATION", FN, f"kind={KINDS[cls]},sensitive={ds},unknown={uh},filter={filt}",
                          f"find_links says {got!r} but neighbors() {'lists' if ngot == 'OE' else 'does not list'} the other end for the same link and settings",
                          detail=f"link class {cls}, a is {pos}", replay=replay(cls, pos, True, ds, uh, filt))
    # link classes deriving from *both* edge classes: the statement does not say which rule applies to them, but whichever neighbors()
    # applies, find_links must apply the same one (its size equals the number of times b occurs in neighbors(a))
    for cls, pos, ds, uh in itertools.product(("SymBothDU", "SymBothUD"), ("v1", "v2"), (True, False), UHS[:2]):
        try:
            h.reset()
            a, b, l = build(h, cls, pos, True)
            got = classify(h.call(fn, a, b, ds, C[uh], None), l)
            ngot = c04.derive_single(h, C, nb, cls, pos, "FORWARD" if ds else "ANY", uh, "none")
        except Unknown as u:
            res.undecide(f"relational check on {cls},{pos}: {u}")
            continue
        if got not in ("yes", "no") or ngot not in ("OE", "nothing"):
            continue
        nrel += 1
        ok = (got == "yes") == (ngot == "OE")
        res.ob(ok, sig=("rel-both", cls, pos, ds, uh))
        if not ok:
            res.violation("RELATION", FN, f"kind=both-edge-classes,sensitive={ds},unknown={uh},filter=none",
                          f"a link of a class deriving from DirectedEdge and UnDirectedEdge ({cls}, a is {pos}): find_links says {got!r} but neighbors() {'lists' if ngot == 'OE' else 'does not list'} the other end under the corresponding settings")
    res.rule("RELATION", nrel)
    # ---- several links at once: the result is exactly the set of joining links that qualify one by one, and its size equals the
    # number of times b occurs in neighbors(a) under the corresponding settings
    rows = [(c, p_) for c in ("DirectedEdge", "UnDirectedEdge", "SymTwo") for p_ in ("v1", "v2")]
    ncomp = 0
    for r1, r2 in itertools.product(rows, rows):
        for ds, uh, filt in itertools.product((True, False), UHS[:2], ("none", "selective", "none/equal-vertices")):
            vcls = "Vertex"
            if filt.endswith("/equal-vertices"):
                filt, vcls = "none", "EqVert"
            try:
                h.reset()
                a, b, c = h.vertex("a", vcls), h.vertex("b", vcls), h.vertex("c", vcls)
                ls = []
                if getattr(h, "aux", None):
                    (c0, p0), (c1, p1) = r1, r2
                    ls.append(h.new(c0, "L0", *([a, b] if p0 == "v1" else [b, a])))
                    other = h.new("DirectedEdge", "K", a, c)
                    ls.append(h.new(c1, "L1", *([a, b] if p1 == "v1" else [b, a])))
                else:
                    for i, (cls, pos) in enumerate((r1, r2)):
                        ls.append(h.link(f"L{i}", cls, [a, b] if pos == "v1" else [b, a]))
                    other = h.link("K", "DirectedEdge", [a, c])
                    a.fields["_links"] = Seq([ls[0], other, ls[1]], "list")
                    b.fields["_links"] = Seq(list(ls), "list")
                    c.fields["_links"] = Seq([other], "list")
                h.settle()
                cb = None if filt == "none" else c04.mkfilter("selective", (ls[1],))
                out = h.call(fn, a, b, ds, C[uh], cb)
                nbcb = None if filt == "none" else c04.mkfilter("selective", (ls[1],))
                nbo = h.call(nb, a, C["FORWARD"] if ds else C["ANY"], C[uh], nbcb)
            except Unknown as u:
                res.ob(False)
                res.undecide(f"find_links with two joining links {r1},{r2}: {u}")
                continue
            ncomp += 1
            want = []
            for i, (cls, pos) in enumerate((r1, r2)):
                f = "none" if cb is None else ("reject" if i == 1 else "accept")
                if expected(KINDS[cls], pos, True, ds, uh, f) == "yes":
                    want.append(ls[i])
            v = out.value if out.kind == "return" else None
            items = v.items if isinstance(v, (SetV, Seq)) else None
            ok = items is not None and len(items) == len(want) and all(any(x is w for x in items) for w in want)
            why = None if ok else f"returns {out!r}; the joining links that qualify one by one are {[w.name for w in want]}"
            if ok and nbo.kind == "return":
                cnt = sum(1 for x in nbo.value.items if x is b)
                if cnt != len(want):
                    ok, why = False, f"size {len(want)} but b occurs {cnt} time(s) in neighbors(a) under the corresponding settings"
            res.ob(ok, sig=("multi", r1, r2, ds, uh, filt, vcls))
            if not ok:
                res.violation("COMPOSE", FN, f"kinds={KINDS[r1[0]]}+{KINDS[r2[0]]},sensitive={ds},unknown={uh},filter={filt}" + (",vertices-compare-equal" if vcls != "Vertex" else ""),
                              f"two links {r1},{r2} between a and b plus an unrelated a->c" + (" (distinct vertices of a class with value equality)" if vcls != "Vertex" else "") + f": {why}")
    res.rule("COMPOSE", ncomp)
    # ---- the size relation along a history of queries with throw-away filters and caching on (a dropped filter's address is re-used)
    from rules import c05
    for mk5 in ("make_reject", "RejectUnhashable"):
        try:
            h5 = H(ctx.src, ["edgegraph.traversal.helpers"])
            got, a5, others5, links5, f2 = c05.lifetime_scenario(h5, True, maker=mk5)
            fl5 = h5.fn(FN)
            for i, b5 in enumerate(others5):
                sel = Callback("filterfunc", lambda I, n_, a_, k_, _f2=f2, _b=b5: bool(h5.I.truth(h5.I.call(_f2, [a_[0], _b], {}))))
                fo = h5.call(fl5, a5, b5, False, c04.consts(h5)["NEIGHBOR"], sel)
                cnt = got.count(b5.name) if isinstance(got, list) else None
                ok = fo.kind == "return" and cnt is not None and len(fo.value.items) == cnt
                res.ob(ok, sig=("lifetime", i, mk5))
                if not ok:
                    res.violation("RELATION-LIFETIME", FN, "caching-on,second-filter-allocated-where-the-first-one-lived" + (",filters-are-unhashable-objects" if mk5 != "make_reject" else ""),
                                  f"caching on; neighbors(a, ANY, NEIGHBOR, f1) with a throw-away filter, then neighbors(a, ANY, NEIGHBOR, f2) with a new filter allocated at the dropped one's address lists "
                                  f"{b5.name} {cnt} time(s) ({got}), but find_links(a, {b5.name}) under the corresponding settings and filter finds {len(fo.value.items) if fo.kind == 'return' else fo!r} link(s)")
            res.rule("RELATION-LIFETIME", len(others5))
        except Unknown as u:
            res.undecide(f"RELATION-LIFETIME ({mk5}): {u}")
    # ---- unlink: afterwards find_links(a, b, *) is empty for every setting; other pairs still found
    unlink = h.fn("edgegraph.builder.explicit.unlink")
    nun = 0
    pairs = [((c,), p) for c in KINDS for p in (("v1",), ("v2",), ("both",))] + [(("DirectedEdge", "UnDirectedEdge"), ("v1", "v2")), (("SymTwo", "DirectedEdge"), ("v2", "v2"))]
    pairs = [(c_, p_, "Vertex") for c_, p_ in pairs] + [(("DirectedEdge",), ("v1",), "EqVert"), (("UnDirectedEdge",), ("v2",), "EqVert"), (("SymTwo", "DirectedEdge"), ("v2", "v2"), "EqVert")]
    # vertices of a user class that can be iterated (a cluster yielding its member c): still one vertex each
    pairs += [(("DirectedEdge",), ("v1",), "ClusterVert"), (("UnDirectedEdge", "DirectedEdge"), ("v2", "v1"), "ClusterVert")]
    for classes, poss, vcls in pairs:
        def thunk():
            a = h.vertex("a", vcls)
            selfloop = poss[0] == "both"
            b = a if selfloop else h.vertex("b", vcls)
            c = h.vertex("c", vcls)
            if vcls == "ClusterVert":
                b.fields["members"] = Seq([c], "tuple")
                a.fields["members"] = Seq([], "tuple")
            ls = []
            if getattr(h, "aux", None):
                keep = h.new("DirectedEdge", "K", a, c)
                for i, (cls, pos) in enumerate(zip(classes, poss)):
                    ls.append(h.new(cls, f"L{i}", *{"v1": [a, b], "v2": [b, a], "both": [a, a]}[pos]))
            else:
                for i, (cls, pos) in enumerate(zip(classes, poss)):
                    ends = {"v1": [a, b], "v2": [b, a], "both": [a, a]}[pos]
                    ls.append(h.link(f"L{i}", cls, ends))
                keep = h.link("K", "DirectedEdge", [a, c])
                a.fields["_links"] = Seq([keep] + ls, "list")
                if b is not a:
                    b.fields["_links"] = Seq(list(ls), "list")
                c.fields["_links"] = Seq([keep], "list")
            h.settle()
            o = h.call(unlink, a, b)
            rows = []
            if o.kind == "return":
                for ds, uh, filt in itertools.product((True, False), UHS[:2], ("none", "accept")):
                    rows.append(((ds, uh, filt), h.call(fn, a, b, ds, C[uh], c04.mkfilter(filt))))
                rows.append((("other-pair",), h.call(fn, a, c, False, C["NEIGHBOR"], None)))
            return o, rows, keep
        h.w.set_order = "fork"
        try:
            for choices, log, (o, rows, keep) in h.w.explore(thunk):
                nun += 1
                ok = o.kind == "return"
                why = f"unlink raised {o!r}" if not ok else ""
                for key, r in rows:
                    coll = r.kind == "return" and isinstance(r.value, (SetV, Seq)) and not (isinstance(r.value, Seq) and r.value.has_seg())
                    if key == ("other-pair",):
                        good = coll and len(r.value.items) == 1 and r.value.items[0] is keep
                    else:
                        good = coll and not r.value.items
                    if not good:
                        ok, why = False, f"after unlink(a, b): find_links{key} -> {r!r}"
                res.ob(ok, sig=("unlink", classes, poss, tuple(choices), vcls))
                if not ok:
                    res.violation("UNLINK-EMPTY", "edgegraph.builder.explicit.unlink", f"links={'+'.join(KINDS[c] for c in classes)},a_is={'+'.join(poss)}" + (",vertices-compare-equal" if vcls == "EqVert" else (",vertices-can-be-iterated" if vcls == "ClusterVert" else "")), why)
        except Unknown as u:
            res.undecide(f"unlink post-state {classes},{poss}: {u}")
    res.rule("UNLINK-EMPTY", nun)
    from rules import structural
    structural.filter_mpt(ctx, FN)
    from rules import hist
    hist.run(ctx, res, 'C09')       # composition: histories through the public API against the reference model (rules/hist.py)
    from rules import scale
    scale.run(ctx, res, 'C09')      # the same on graphs whose collections have the sizes the tree names (rules/scale.py)
    hist.run_sequences(ctx, res, "C09", "links", 4 if ctx.thorough else 3)
    common.vacuity(res, "SEQUENCE", 5000)
    common.vacuity(res, "HISTORY", 9000)
    common.vacuity(res, "TABLE", 900)
    common.vacuity(res, "RELATION", 100)
    res.explanation = ("All 540 abstract input classes of find_links() were evaluated on the current source and compared with the specified table; "
                       "each returning row was related to the derived neighbors() row for the same link and settings; unlink() was evaluated on "
                       "every link class/orientation (all set iteration orders) and find_links re-evaluated on the post-state.")
