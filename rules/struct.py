"""Inductive-step engine shared by C01 (invariant I1), C03 (transformer equivalence with the
reference model, frame included) and C05 clause 2 (memo invalidation as ghost state).

For every abstract pre-state satisfying I1 and every association entry point, the current source is
evaluated abstractly; the post-state is projected to (vertex -> ordered link atoms, link -> ordered
end atoms) and compared with the invariant / the reference model of DESIGN.md A.5."""
from __future__ import annotations
import copy
import itertools

from sa.harness import H, show, names
from sa.ae import Seq, Seg, DictV, Obj, Unknown, Raised, Callback, Tok, SetV
from rules import c04

VROLES = ("a", "b", "c")
LCLASSES = ("DirectedEdge", "UnDirectedEdge", "SymTwo", "SymLink")
TWO_ENDED = ("DirectedEdge", "UnDirectedEdge", "SymTwo")
FLAG = "edgegraph.structure.vertex.Vertex"
MEMO = "_Vertex__qa_nb_cache"


def warm_memo(h, v, ghost):
    """put a ghost entry into the vertex's memo *as the tree represents it* (the dictionary object the constructor made is kept:
    it may be an instance of a private dict subclass)"""
    memo = h.field(v, MEMO)
    pair = [Seq([Tok(1, "some-key")], "tuple"), ghost]
    if isinstance(memo, DictV):
        memo.pairs = [pair]
    else:
        h.field(v, MEMO, DictV([pair]))


# ------------------------------------------------------------------------------- model heap
class Model:
    def __init__(self):
        self.vlinks = {}   # vertex name -> [atom names]
        self.lverts = {}   # link name -> [vertex name | None]
        self.lclass = {}
        self.nnew = 0

    def copy(self):
        return copy.deepcopy(self)

    def as_dict(self):
        return {"vlinks": self.vlinks, "lverts": self.lverts}

    def new_link(self, cls):
        self.nnew += 1
        n = f"new{self.nnew}:{cls}"
        self.lverts[n] = []
        self.lclass[n] = cls
        return n


DONTCARE = object()


def m_attach(m, v, l):
    if v is not None and l not in m.vlinks[v]:
        m.vlinks[v].append(l)


def m_add_vertex(m, l, x):
    m.lverts[l].append(x)
    m_attach(m, x, l)


def m_unlink_from(m, l, x):
    ends = m.lverts[l]
    if x not in ends:
        return None
    if ends.count(x) > 1:
        return DONTCARE  # the statement does not say how many occurrences leave; only I1 is required
    ends.remove(x)
    if x is not None and l in m.vlinks[x]:
        m.vlinks[x].remove(l)
    return None


def m_add_to_link(m, v, l):
    if l not in m.vlinks[v]:
        m.vlinks[v].append(l)
        if v not in m.lverts[l]:
            m.lverts[l].append(v)
    return None


def m_remove_from_link(m, v, l):
    if l not in m.vlinks[v]:
        return None
    if m.lverts[l].count(v) > 1:
        return DONTCARE
    m.vlinks[v].remove(l)
    if v in m.lverts[l]:
        m.lverts[l].remove(v)
    return None


def m_set_end(m, l, i, n):
    ends = m.lverts[l]
    if len(ends) < 2:
        return DONTCARE  # an edge that lost an end: raising (state unchanged) or I1-preserving completion
    old = ends[i]
    ends[i] = n
    if old is not None and old not in ends and l in m.vlinks[old]:
        m.vlinks[old].remove(l)
    m_attach(m, n, l)
    return None


def m_create(m, cls, x, y):
    e = m.new_link(cls)
    m.lverts[e] = [x, y]
    m_attach(m, x, e)
    m_attach(m, y, e)
    return e


def m_other(m, l, v):
    ends = m.lverts[l]
    if len(ends) < 2:
        return DONTCARE
    if v == ends[0]:
        return ends[1]
    if v == ends[1]:
        return ends[0]
    return None


# ------------------------------------------------------------------------------- projection
def other_fields(objs, skip):
    """Everything else a named individual holds (universes, uid, user attributes ...), for the frame comparison."""
    from rules.c13 import proj
    out = {}
    for n, o in objs.items():
        out[n] = {k: proj(v) for k, v in sorted(o.fields.items()) if k not in skip}
    return out


def project(verts, links):
    """AE heap -> the same shape as the model heap."""
    d = {"vlinks": {}, "lverts": {}}
    for n, v in verts.items():
        d["vlinks"][n] = names(v.fields["_links"])
    for n, l in links.items():
        d["lverts"][n] = names(l.fields["_vertices"])
    return d


def i1_violations(state):
    bad = []
    for v, ls in state["vlinks"].items():
        for l, ends in state["lverts"].items():
            k = ls.count(l)
            mcount = ends.count(v)
            if k > 1:
                bad.append(f"{v}.links lists {l} {k} times")
            elif (k == 1) != (mcount >= 1):
                bad.append(f"{l} in {v}.links: {k == 1}, but {v} in {l}.vertices: {mcount >= 1}")
    return bad


# ------------------------------------------------------------------------------- neighbour signature (C05)
def nbsig(state, lclass, v):
    """Everything neighbors(v, *) can depend on, restricted to named links: order of v.links with, for each
    named link, its class kind and (v1, v2)-relative position data.  Equal signature => equal answers for
    every (direction, unknown_handling, filter)."""
    out = []
    for atom in state["vlinks"][v]:
        if atom in state["lverts"]:
            ends = state["lverts"][atom]
            kind = c04.KINDS.get(lclass.get(atom, atom.split(":")[-1]), "L")
            if len(ends) < 2:
                out.append((atom, kind, "short", tuple(ends)))
            else:
                other = ends[1] if ends[0] == v else (ends[0] if ends[1] == v else None)
                if kind == "D":
                    out.append((atom, kind, ends[0] == v, ends[1] == v, other))
                else:
                    out.append((atom, kind, other))     # for undirected / other two-ended links only the opposite end matters
        else:
            out.append(atom)
    return tuple(out)


# ------------------------------------------------------------------------------- pre-states with opaque segments
class Pre:
    """One abstract pre-state of family S: link L with the given end list; vertices a, b, c whose link lists
    are [seg, (M,) L?, seg']; bystander M = DirectedEdge(a, d)."""

    def __init__(self, h: H, lcls, ends, memo="empty", flag=False, segs=True, vcls="Vertex"):
        self.h = h
        self.lcls, self.ends = lcls, ends
        if getattr(h, "aux", None):
            self._build_through_api(lcls, ends, memo, flag, vcls)
            return
        key = ("S", lcls, vcls)
        pool = h.rollback(key)
        if pool is None:
            h.reset()
            pool = {r: h.vertex(r, vcls) for r in VROLES + ("d",)}
            pool["L"] = h.link("L", lcls, [])
            pool["M"] = h.link("M", "DirectedEdge", [])
            h.checkpoint(key, pool)
        V = {r: pool[r] for r in VROLES + ("d",)}
        L, Mk = pool["L"], pool["M"]
        L.fields["_vertices"] = Seq([V[r] if r else None for r in ends], "list")
        Mk.fields["_vertices"] = Seq([V["a"], V["d"]], "list")
        self.V, self.links = V, {"L": L, "M": Mk}
        for r in VROLES:
            items = []
            if segs:
                items.append(Seg(f"s1{r}"))
            if r == "a":
                items.append(Mk)
            if r in ends:
                items.append(L)
            if segs:
                items.append(Seg(f"s2{r}"))
            V[r].fields["_links"] = Seq(items, "list")
        V["d"].fields["_links"] = Seq([Mk], "list")
        for r in ("a", "b"):
            V[r].fields["_universes"] = Seq([Seg(f"tau_{r}")], "list")      # prior universe memberships: untouched by link operations
            V[r].fields["colour"] = Tok(50, "user-attribute")
        self.ghost = {}
        if memo == "warm":
            for r, v in V.items():
                g = Seq([Tok(0, "stale-answer")], "list")
                self.ghost[r] = g
                warm_memo(h, v, g)
        vcls = h.fn(FLAG)
        if "NEIGHBOR_CACHING" not in vcls.dict:
            from sa.src import SourceError
            raise SourceError("anchor Vertex.NEIGHBOR_CACHING vanished")
        vcls.dict["NEIGHBOR_CACHING"] = bool(flag)
        h.settle()
        self.model = Model()
        for r in V:
            self.model.vlinks[r] = names(V[r].fields["_links"])
        for n, l in self.links.items():
            self.model.lverts[n] = names(l.fields["_vertices"])
            self.model.lclass[n] = l.cls.name
        self.pre = copy.deepcopy(self.model.as_dict())
        self.skip = {h.actual["links"], h.actual["ends"], h.actual["memo"]}
        self.other_pre = other_fields({**self.V, **self.links}, self.skip)

    def _build_through_api(self, lcls, ends, memo, flag, vcls):
        """The tree keeps auxiliary state next to the role fields (h.aux): the same pre-state, but reached by the public calls that
        reach it (construct, unlink_from until empty, add_vertex per end) so that whatever else the objects keep is consistent.
        No opaque segments then: the step is decided on exactly these concrete states."""
        h = self.h
        I = h.I
        h.reset()
        V = {r: h.new(vcls, r) for r in VROLES + ("d",)}
        Mk = h.new("DirectedEdge", "M", V["a"], V["d"])
        L = h.new(lcls, "L")
        for x in list(L.fields["_vertices"].items):
            h.call(I.getattr(L, "unlink_from"), x)
        for r in ends:
            h.call(I.getattr(L, "add_vertex"), V[r] if r else None)
        want_links = {r: (["M"] if r in ("a", "d") else []) + (["L"] if r in ends else []) for r in V}
        if names(L.fields["_vertices"]) != [r for r in ends] or any(names(V[r].fields["_links"]) != want_links[r] for r in V):
            raise Unknown(f"pre-state {lcls}{list(ends)} is not reached by construct / unlink_from / add_vertex in this tree (the history engine decides)")
        for r in ("a", "b"):
            V[r].fields["colour"] = Tok(50, "user-attribute")
        self.V, self.links = V, {"L": L, "M": Mk}
        self.ghost = {}
        if memo == "warm":
            for r, v in V.items():
                g = Seq([Tok(0, "stale-answer")], "list")
                self.ghost[r] = g
                warm_memo(h, v, g)
        h.fn(FLAG).dict["NEIGHBOR_CACHING"] = bool(flag)
        h.settle()
        self.model = Model()
        for r in V:
            self.model.vlinks[r] = names(V[r].fields["_links"])
        for n, l in self.links.items():
            self.model.lverts[n] = names(l.fields["_vertices"])
            self.model.lclass[n] = l.cls.name
        self.pre = copy.deepcopy(self.model.as_dict())
        self.skip = {h.actual["links"], h.actual["ends"], h.actual["memo"]} | {k for ks in h.aux.values() for k in ks}
        self.other_pre = other_fields({**self.V, **self.links}, self.skip)

    def arg(self, r):
        return self.V[r] if r else None

    def post(self):
        links = dict(self.links)
        i = 0
        for o in self.h.w.alloc:
            if isinstance(o, Obj) and "_vertices" in o.fields:
                i += 1
                o.name = f"new{i}:{o.cls.name}"   # numbered among the links allocated by the call
                links[o.name] = o
        return project(self.V, links), links

    def frame_diff(self):
        post = other_fields({**self.V, **self.links}, self.skip)
        return [f"{n}.{k}: {self.other_pre[n].get(k, '<absent>')} -> {post[n].get(k, '<absent>')}" for n in post if n in self.other_pre
                for k in sorted(set(post[n]) | set(self.other_pre[n])) if post[n].get(k, "<absent>") != self.other_pre[n].get(k, "<absent>")]

    def memo_entries(self, r):
        m = self.V[r].fields.get(MEMO)
        return m


def shapes(maxlen):
    roles = VROLES + (None,)
    for n in range(0, maxlen + 1):
        yield from itertools.product(roles, repeat=n)


def core_ops(lcls):
    ops = []
    for r in VROLES + (None,):
        ops.append(("add_vertex", r))
        ops.append(("unlink_from", r))
        if lcls in TWO_ENDED:
            ops.append(("set_v1", r))
            ops.append(("set_v2", r))
    for r in VROLES:
        ops.append(("add_to_link", r))
        ops.append(("remove_from_link", r))
    return ops


def do_core(p: Pre, op, r):
    """Perform on the AE heap and on the model; returns (outcome, model_result)."""
    h, L, x = p.h, p.links["L"], p.arg(r)
    I = h.I
    m = p.model
    if op == "add_vertex":
        out = h.call(I.getattr(L, "add_vertex"), x)
        mr = m_add_vertex(m, "L", r)
    elif op == "unlink_from":
        out = h.call(I.getattr(L, "unlink_from"), x)
        mr = m_unlink_from(m, "L", r)
    elif op == "set_v1":
        out = h.setattr(L, "v1", x)
        mr = m_set_end(m, "L", 0, r)
    elif op == "set_v2":
        out = h.setattr(L, "v2", x)
        mr = m_set_end(m, "L", 1, r)
    elif op == "add_to_link":
        out = h.call(I.getattr(x, "add_to_link"), L)
        mr = m_add_to_link(m, r, "L")
    elif op == "remove_from_link":
        out = h.call(I.getattr(x, "remove_from_link"), L)
        mr = m_remove_from_link(m, r, "L")
    else:
        raise ValueError(op)
    return out, mr


QUAL = {
    "add_vertex": "edgegraph.structure.link.Link.add_vertex", "unlink_from": "edgegraph.structure.link.Link.unlink_from",
    "set_v1": "edgegraph.structure.twoendedlink.TwoEndedLink.v1[set]", "set_v2": "edgegraph.structure.twoendedlink.TwoEndedLink.v2[set]",
    "add_to_link": "edgegraph.structure.vertex.Vertex.add_to_link", "remove_from_link": "edgegraph.structure.vertex.Vertex.remove_from_link",
    "create": "edgegraph.structure.twoendedlink.TwoEndedLink.__init__", "vertex_links": "edgegraph.structure.vertex.Vertex.__init__",
    "link_from_to": "edgegraph.builder.explicit.link_from_to", "unlink": "edgegraph.builder.explicit.unlink",
    "link_directed": "edgegraph.builder.explicit.link_directed", "link_undirected": "edgegraph.builder.explicit.link_undirected",
}


def shape_class(ends, r=None):
    """Abstract-input class used in finding keys: length, multiplicity pattern, relation of the argument."""
    n = len(ends)
    mult = max([ends.count(x) for x in set(ends)] or [0])
    rel = "n/a"
    if r is not None or True:
        rel = "arg-None" if r is None else (f"arg-listed-{ends.count(r)}x" if r in ends else "arg-unlisted")
    return f"ends={n},maxmult={mult},{rel}"


def replay_core(lcls, ends, op, r, vcls="Vertex"):
    L = ["from edgegraph.structure import Vertex, Link, TwoEndedLink, DirectedEdge, UnDirectedEdge",
         "class SymTwo(TwoEndedLink): pass", "class SymLink(Link): pass",
         "class SymFalsyVert(Vertex):\n    def __bool__(self): return False",
         f"a, b, c = {vcls}(), {vcls}(), {vcls}()",
         f"L = {lcls}()", "for v in list(L.vertices): L.unlink_from(v)   # start from an empty end list"]
    for e in ends:
        L.append(f"L.add_vertex({e})")
    call = {"add_vertex": f"L.add_vertex({r})", "unlink_from": f"L.unlink_from({r})", "set_v1": f"L.v1 = {r}", "set_v2": f"L.v2 = {r}",
            "add_to_link": f"{r}.add_to_link(L)", "remove_from_link": f"{r}.remove_from_link(L)"}[op]
    L += ["try:", f"    {call}", "except Exception as e: print('raised', type(e).__name__)",
          "print('L.vertices =', L.vertices)", "for n, v in (('a', a), ('b', b), ('c', c)): print(n, 'lists L', v.links.count(L), 'time(s); is an end:', v in L.vertices)"]
    return "\n".join(L)


# ------------------------------------------------------------------------------- run generators
class Rec:
    """One evaluated obligation."""

    def __init__(self, **kw):
        self.__dict__.update(kw)


def core_runs(h, maxlen, memo="empty", flag=False, res=None, classes=LCLASSES, vcls="Vertex"):
    for lcls in classes:
        for ends in shapes(maxlen):
            for op, r in core_ops(lcls):
                try:
                    p = Pre(h, lcls, ends, memo, flag, vcls=vcls)
                except Unknown as u:
                    if res is not None:
                        res.note(f"pre-state skipped: {u}")
                    break
                try:
                    out, mr = do_core(p, op, r)
                except Unknown as u:
                    if res is not None:
                        res.ob(False)
                        res.undecide(f"{QUAL[op]} on {lcls}{list(ends)} arg {r}: {u}")
                    continue
                post, links = p.post()
                yield Rec(family="S", lcls=lcls, ends=ends, op=op, arg=r, out=out, mr=mr, p=p, pre=p.pre, post=post, links=links,
                          model=p.model, qual=QUAL[op], icls=shape_class(ends, r) + (",falsy-vertices" if vcls != "Vertex" else ""),
                          replay=replay_core(lcls, ends, op, r, vcls))


def ctor_runs(h, res=None, memo="empty", flag=False):
    """Edge constructors K(x, y) and Vertex(links=[...]) on family-S vertices."""
    for kcls in TWO_ENDED:
        for x, y in itertools.product(("a", "b", None), repeat=2):
            p = Pre(h, "DirectedEdge", ("a", "b"), memo, flag)
            try:
                out = h.call(h.cls(kcls), p.arg(x), p.arg(y))
            except Unknown as u:
                if res is not None:
                    res.ob(False)
                    res.undecide(f"{kcls}({x}, {y}): {u}")
                continue
            e = m_create(p.model, kcls, x, y)
            post, links = p.post()
            rp = ("from edgegraph.structure import *\nfrom edgegraph.structure import TwoEndedLink\nclass SymTwo(TwoEndedLink): pass\n"
                  f"a, b = Vertex(), Vertex()\ne = {kcls}({x}, {y})\nprint(e.vertices, a.links, b.links)")
            yield Rec(family="S", lcls=kcls, ends=("a", "b"), op="create", arg=(x, y), out=out, mr=e, p=p, pre=p.pre, post=post, links=links,
                      model=p.model, qual=f"edgegraph.structure.{kcls}.__init__" if kcls != "SymTwo" else QUAL["create"],
                      icls=f"v1={'None' if x is None else 'vertex'},v2={'None' if y is None else ('same' if y == x else 'vertex')}", replay=rp)
        # type errors precede any effect
        for bad_at in (0, 1):
            p = Pre(h, "DirectedEdge", ("a", "b"), memo, flag)
            bad = p.links["M"]  # a Link is not a Vertex
            args = [p.arg("a"), bad] if bad_at else [bad, p.arg("a")]
            try:
                out = h.call(h.cls(kcls), *args)
            except Unknown as u:
                if res is not None:
                    res.ob(False)
                    res.undecide(f"{kcls} with a non-vertex end: {u}")
                continue
            post, links = p.post()
            yield Rec(family="S", lcls=kcls, ends=("a", "b"), op="create-typeerror", arg=bad_at, out=out, mr=None, p=p, pre=p.pre, post=post, links=links,
                      model=p.model, qual=QUAL["create"], icls=f"non-vertex-at-v{bad_at + 1}", replay="")
    # Link(vertices=[...]) on a plain Link subclass: every listed vertex is associated once
    from sa.ae import IterV
    for pattern, form in [(pt, "list") for pt in (("a", "b"), ("a", "b", "a"), ("a", None))] + [(("a", "b"), "tuple"), (("a", "b"), "iterator"), (("a", "b", "a"), "iterator")]:
        p = Pre(h, "DirectedEdge", ("a", "b"), memo, flag)
        items = [p.arg(x) for x in pattern]
        try:
            out = h.call(h.cls("SymLink"), vertices=IterV(items) if form == "iterator" else Seq(items, form))
        except Unknown as u:
            if res is not None:
                res.ob(False)
                res.undecide(f"SymLink(vertices={pattern} as {form}): {u}")
            continue
        e = p.model.new_link("SymLink")
        for x in pattern:
            m_add_vertex(p.model, e, x)
        post, links = p.post()
        yield Rec(family="S", lcls="SymLink", ends=("a", "b"), op="create", arg=pattern, out=out, mr=e, p=p, pre=p.pre, post=post, links=links, model=p.model,
                  qual="edgegraph.structure.link.Link.__init__", icls=f"vertices-listed={len(pattern)},repeats={len(pattern) - len(set(pattern))}" + ("" if form == "list" else f",given-as={form}"),
                  replay=("from edgegraph.structure import *\nclass SymLink(Link): pass\na, b = Vertex(), Vertex()\n"
                          f"src = [{', '.join(str(x) for x in pattern)}]\nL = SymLink(vertices={'iter(src)' if form == 'iterator' else ('tuple(src)' if form == 'tuple' else 'src')})\nprint(L.vertices, a.links, b.links)"))
    # Vertex(links=[L]) / Vertex(links=[L, L])
    for lcls in ("DirectedEdge", "SymLink"):
        for reps in (1, 2):
            p = Pre(h, lcls, ("a", "b"), memo, flag)
            L = p.links["L"]
            try:
                out = h.call(h.cls("Vertex"), links=Seq([L] * reps, "list") if (reps, lcls) != (2, "SymLink") else IterV([L] * reps))     # the last case as a one-shot iterator
            except Unknown as u:
                if res is not None:
                    res.ob(False)
                    res.undecide(f"Vertex(links=[L]*{reps}): {u}")
                continue
            if out.kind == "return" and isinstance(out.value, Obj):
                out.value.name = "n"
                p.V["n"] = out.value
            p.model.vlinks["n"] = []
            m_add_to_link(p.model, "n", "L")
            p.pre["vlinks"]["n"] = []
            post, links = p.post()
            yield Rec(family="S", lcls=lcls, ends=("a", "b"), op="vertex_links", arg=reps, out=out, mr=None, p=p, pre=p.pre, post=post, links=links,
                      model=p.model, qual=QUAL["vertex_links"], icls=f"links-listed-{reps}x",
                      replay=f"from edgegraph.structure import *\na, b = Vertex(), Vertex()\nL = DirectedEdge(a, b)\nn = Vertex(links=[L]*{reps})\nprint(n.links, L.vertices)")


# ---- family C: concrete link lists (the explicit builders iterate over them)
JOIN_SHAPES = [
    (),
    (("DirectedEdge", "ab"),), (("DirectedEdge", "ba"),), (("UnDirectedEdge", "ab"),), (("UnDirectedEdge", "ba"),), (("SymTwo", "ab"),), (("SymTwo", "ba"),),
    (("DirectedEdge", "ab"), ("DirectedEdge", "ab")), (("DirectedEdge", "ab"), ("DirectedEdge", "ba")),
    (("DirectedEdge", "ba"), ("UnDirectedEdge", "ab")), (("SymTwo", "ab"), ("UnDirectedEdge", "ba")), (("SymUnd", "ab"), ("SymDir", "ba")),
]


class PreC:
    """Concrete pre-state: vertices a, b, c; joining links J_i between a and b (or self-loops on a when
    selfloop); one non-joining link K = DirectedEdge(a, c) placed first, between or last in a.links."""

    def __init__(self, h, joins, selfloop=False, kpos=0, memo="empty", flag=False, brev=False, half=False):
        self.h = h
        if getattr(h, "aux", None):
            self._build_through_api(joins, selfloop, kpos, memo, flag, brev, half)
            return
        key = ("C", tuple(c for c, _ in joins), half)
        pool = h.rollback(key)
        if pool is None:
            h.reset()
            pool = {r: h.vertex(r) for r in VROLES}
            for i, (cls, orient) in enumerate(joins):
                pool[f"J{i}"] = h.link(f"J{i}", cls, [])
            pool["K"] = h.link("K", "DirectedEdge", [])
            if half:
                pool["N"] = h.link("N", "DirectedEdge", [])
            h.checkpoint(key, pool)
        V = {r: pool[r] for r in VROLES}
        self.V = V
        a, b, c = V["a"], V["b"], V["c"]
        if selfloop:
            b = a
        self.b = "a" if selfloop else "b"
        self.links = {}
        js = []
        for i, (cls, orient) in enumerate(joins):
            l = pool[f"J{i}"]
            l.fields["_vertices"] = Seq([a, b] if orient == "ab" else [b, a], "list")
            self.links[l.name] = l
            js.append(l)
        K = pool["K"]
        K.fields["_vertices"] = Seq([a, c], "list")
        self.links["K"] = K
        al = list(js)
        al.insert(min(kpos, len(al)), K)
        if half:
            # a half-assigned edge a -> None sits in a.links as well (it joins a to no vertex)
            N = pool["N"]
            N.fields["_vertices"] = Seq([a, None], "list")
            self.links["N"] = N
            al.insert(0, N)
        a.fields["_links"] = Seq(al, "list")
        if not selfloop:
            V["b"].fields["_links"] = Seq(list(reversed(js)) if brev else list(js), "list")
        c.fields["_links"] = Seq([K], "list")
        self.ghost = {}
        if memo == "warm":
            for r, v in V.items():
                g = Seq([Tok(0, "stale-answer")], "list")
                self.ghost[r] = g
                warm_memo(h, v, g)
        h.fn(FLAG).dict["NEIGHBOR_CACHING"] = bool(flag)
        h.settle()
        self.model = Model()
        for r in V:
            self.model.vlinks[r] = names(V[r].fields["_links"])
        for n, l in self.links.items():
            self.model.lverts[n] = names(l.fields["_vertices"])
            self.model.lclass[n] = l.cls.name
        self.pre = copy.deepcopy(self.model.as_dict())

    def arg(self, r):
        return self.V[r] if r else None

    def post(self):
        links = dict(self.links)
        i = 0
        for o in self.h.w.alloc:
            if isinstance(o, Obj) and "_vertices" in o.fields:
                i += 1
                o.name = f"new{i}:{o.cls.name}"   # numbered among the links allocated by the call
                links[o.name] = o
        return project(self.V, links), links


def _prec_api(self, joins, selfloop, kpos, memo, flag, brev, half):
    """PreC reached through the constructors only (the tree keeps auxiliary state, h.aux); links are created in the order in
    which `a` is to list them."""
    h = self.h
    if brev:
        raise Unknown("ends listing parallel links in different orders: not built through constructors alone")
    h.reset()
    V = {r: h.new("Vertex", r) for r in VROLES}
    self.V = V
    a, b, c = V["a"], V["b"], V["c"]
    if selfloop:
        b = a
    self.b = "a" if selfloop else "b"
    self.links = {}
    plan = [("J", i) for i in range(len(joins))]
    plan.insert(min(kpos, len(plan)), ("K", None))
    if half:
        plan.insert(0, ("N", None))
    for kind, i in plan:
        if kind == "J":
            cls, orient = joins[i]
            l = h.new(cls, f"J{i}", *((a, b) if orient == "ab" else (b, a)))
        elif kind == "K":
            l = h.new("DirectedEdge", "K", a, c)
        else:
            l = h.new("DirectedEdge", "N", a, None)
        self.links[l.name] = l
    self.ghost = {}
    if memo == "warm":
        for r, v in V.items():
            g = Seq([Tok(0, "stale-answer")], "list")
            self.ghost[r] = g
            warm_memo(h, v, g)
    h.fn(FLAG).dict["NEIGHBOR_CACHING"] = bool(flag)
    h.settle()
    self.model = Model()
    for r in V:
        self.model.vlinks[r] = names(V[r].fields["_links"])
    for n, l in self.links.items():
        self.model.lverts[n] = names(l.fields["_vertices"])
        self.model.lclass[n] = l.cls.name
    self.pre = copy.deepcopy(self.model.as_dict())


PreC._build_through_api = _prec_api


def m_joining(m, a, b):
    out = []
    for l in m.vlinks[a]:
        if l in m.lverts and len(m.lverts[l]) == 2:
            o = m_other(m, l, a)
            if o == b:
                out.append(l)
    return out


def explicit_runs(h, res=None, memo="empty", flag=False, thorough=False):
    ex = "edgegraph.builder.explicit."
    fns = {n: h.fn(ex + n) for n in ("link_from_to", "unlink", "link_directed", "link_undirected")}
    h.w.set_order = "fork"
    for joins in JOIN_SHAPES:
        for selfloop in (False, True):
            for kpos in ((0, 2) if not thorough else (0, 1, 2)):
                bname = "a" if selfloop else "b"
                # ---- unlink(a, b, destroy)
                for destroy, half in ((True, False), (False, False), (False, True)):
                    for swap in (False, True):
                        def thunk():
                            p = PreC(h, joins, selfloop, kpos, memo, flag, half=half)
                            x, y = ("a", bname) if not swap else (bname, "a")
                            out = h.call(fns["unlink"], p.arg(x), p.arg(y), destroy)
                            J = m_joining(p.model, x, y)
                            for l in J:
                                for v in (x, y):
                                    while v in p.model.lverts[l]:
                                        p.model.lverts[l].remove(v)
                                    if l in p.model.vlinks[v]:
                                        p.model.vlinks[v].remove(l)
                            return p, out, (set(J) if not destroy else None)
                        try:
                            for choices, log, (p, out, mr) in h.w.explore(thunk):
                                post, links = p.post()
                                yield Rec(family="C", lcls="+".join(c04.KINDS[c] + o for c, o in joins) or "none", ends=(), op="unlink", arg=(destroy, swap), out=out, mr=mr, p=p,
                                          pre=p.pre, post=post, links=links, model=p.model, qual=QUAL["unlink"],
                                          icls=f"joining={len(joins)},selfloop={selfloop},destroy={destroy}" + (",half-assigned-link-present" if half else ""), replay="", choices=tuple(choices) + (half,))
                        except Unknown as u:
                            if res is not None:
                                res.ob(False)
                                res.undecide(f"explicit.unlink on {joins} selfloop={selfloop}: {u}")
                # ---- link_from_to / link_directed / link_undirected (+- dontdup)
                for fname, kcls in (("link_from_to", "DirectedEdge"), ("link_from_to", "UnDirectedEdge"), ("link_from_to", "SymTwo"), ("link_directed", None), ("link_undirected", None)):
                    for dontdup, brev in ((False, False), (True, False), (True, True), (True, "half")):
                        if brev is True and (len(joins) < 2 or selfloop):
                            continue   # b listing the parallel links in the opposite order (reachable by re-pointing ends)
                        if brev == "half" and fname != "link_from_to":
                            continue
                        for swap in (False, True):
                            try:
                                p = PreC(h, joins, selfloop, kpos, memo, flag, brev=(brev is True), half=(brev == "half"))
                            except Unknown as u:
                                if res is not None:
                                    res.note(f"pre-state skipped: {u}")
                                continue
                            x, y = ("a", bname) if not swap else (bname, "a")
                            try:
                                # a builder that picks "some" joining link out of a set: which one is not specified (any is accepted below),
                                # so the set is iterated in one fixed order here instead of forking
                                h.w.set_order = "insertion"
                                try:
                                    if fname == "link_from_to":
                                        out = h.call(fns[fname], p.arg(x), h.cls(kcls), p.arg(y), dontdup=dontdup)
                                    else:
                                        out = h.call(fns[fname], p.arg(x), p.arg(y), dontdup=dontdup)
                                finally:
                                    h.w.set_order = "fork"
                            except Unknown as u:
                                if res is not None:
                                    res.ob(False)
                                    res.undecide(f"explicit.{fname} on {joins}: {u}")
                                continue
                            made = kcls or {"link_directed": "DirectedEdge", "link_undirected": "UnDirectedEdge"}[fname]
                            J = m_joining(p.model, x, y)
                            if dontdup and J:
                                mr = J[0]      # the statement only says that nothing is created: any joining link may be returned
                            else:
                                mr = m_create(p.model, made, x, y)
                            post, links = p.post()
                            yield Rec(family="C", lcls="+".join(c04.KINDS[c] + o for c, o in joins) or "none", ends=(), op=fname, arg=(made, dontdup, swap), out=out, mr=mr, alts=(J if dontdup and J else [mr]), p=p,
                                      pre=p.pre, post=post, links=links, model=p.model, qual=QUAL[fname],
                                      icls=f"joining={len(joins)},selfloop={selfloop},dontdup={dontdup}" + (",ends-list-links-in-different-order" if brev else ""), replay="", choices=(brev,))


# ------------------------------------------------------------------------------- comparisons
def outcome_name(out):
    if out.kind == "raise":
        return "raise " + out.excname
    v = out.value
    if isinstance(v, Obj):
        return v.name
    if isinstance(v, SetV):
        return "{" + ",".join(sorted(x.name for x in v.items)) + "}"
    return repr(v)


def diff_states(a, b):
    out = []
    for k in ("vlinks", "lverts"):
        for n in sorted(set(a[k]) | set(b[k])):
            if a[k].get(n) != b[k].get(n):
                out.append(f"{n}.{'links' if k == 'vlinks' else 'vertices'}: derived {a[k].get(n)} vs model {b[k].get(n)}")
    return out
