"""Generator protocol of the traversal generator forms (ibft, idft_recursive, idft_iterative), on the whole stack.

A generator form is a read-only operation whose execution is spread over the consumer's next() calls: between two elements the
consumer may run another traversal, may stop for good, or may be interrupted by its own callback raising.  Scenarios (graph: a -> b,
a -> c, b -> d, c -> d, d -> a, a self-loop on c, and a separate component x -> y; universe U = [a, b, c, d]):

  SUSPENDED   k elements taken (k = 1, 2, 3), generator kept alive: the graph reads as before (C13), and a list-form traversal from
              another start - the other component, and the same component - lists the reference order (C06 / C07)
  INTERLEAVED two generators over the same graph advanced alternately: each lists the reference order
  ABANDONED   k elements taken, generator closed / dropped: graph as before, following traversals as the reference
  FAULT       ff_via raising at its j-th invocation inside the generator: graph as before, following traversals (other start,
              same start) as the reference

State a tree keeps outside the generator's own frame - a module-level work stack, marks written onto the vertices, a shared visited
record - shows in exactly these situations."""
from __future__ import annotations

from sa.harness import H, names
from sa.ae import Seq, DictV, Obj, Unknown, Raised, Callback, GenV, IterV
from rules import c04, trav, c13

MODS = ["edgegraph.traversal.helpers", "edgegraph.traversal.breadthfirst", "edgegraph.traversal.depthfirst"]
EDGES = [("a", "b"), ("a", "c"), ("b", "d"), ("c", "d"), ("d", "a"), ("c", "c"), ("x", "y")]
NB = {"a": ["b", "c"], "b": ["d"], "c": ["d", "c"], "d": ["a"], "x": ["y"], "y": []}


class G:
    def __init__(self, h, caching):
        h.reset()
        self.V = V = {n: h.new("Vertex", n, attributes=DictV([["name", n]])) for n in "abcdxy"}
        self.L = [h.new("DirectedEdge", f"e_{p}{q}", V[p], V[q]) for p, q in EDGES]
        self.U = h.new("Universe", "U", vertices=Seq([V[n] for n in "abcd"], "list"))
        self.objs = list(V.values()) + self.L + [self.U]
        h.fn("edgegraph.structure.vertex.Vertex").dict["NEIGHBOR_CACHING"] = bool(caching)
        h.settle()


def _take(h, g, k):
    """-> names of up to k elements taken with next()"""
    out = []
    for _ in range(k):
        try:
            out.append(h.w.B.f_next(h.I, g))
        except Raised as r:
            if r.exc.cls.name == "StopIteration":
                break
            raise
    return names(out)


def _drain(h, g):
    return _take(h, g, 10 ** 6)


def run(ctx, res, prop, rule="GEN-PROTOCOL"):
    h = H(ctx.src, MODS)
    C = c04.consts(h)
    n = 0
    member = {None: (lambda v: True), "U": (lambda v: v in "abcd")}

    def ref(tname, start, uni=None):
        return trav.REF[tname](NB, start, member[uni])

    def report(ok, tname, scen, caching, what, gen):
        nonlocal n
        n += 1
        res.ob(ok, sig=(rule, tname, scen, caching, what[:40]))
        if not ok:
            res.violation(rule, gen, f"scenario={scen.split(' ')[0]},caching={'on' if caching else 'off'}",
                          f"graph a->b, a->c, b->d, c->d, d->a, c->c, x->y (U = [a, b, c, d]), caching {'on' if caching else 'off'}; {scen}: {what}",
                          replay=REPLAY.format(mod=gen.rsplit('.', 1)[0].split('.')[-1], gen=gen.rsplit('.', 1)[1]))

    for tname, (mod, lst, gen, srch) in trav.TRAVS.items():
        fgen, flst = h.fn(f"{mod}.{gen}"), h.fn(f"{mod}.{lst}")
        qual = f"{mod}.{gen}"
        for caching in (False, True):
            def follow(g, scen, keep=None):
                """after the scenario: the graph reads as before and later traversals list the reference order"""
                if prop == "C13":
                    after = c13.heap(g.objs)
                    report(after == before, tname, scen, caching, "the graph no longer reads as before: " + _delta(before, after), qual)
                if prop in ("C06", "C07", "C13"):
                    for start, uni in (("x", None), ("a", None), ("b", "U")):
                        out = h.call(flst, g.U if uni else None, g.V[start])
                        got = names(out.value) if out.kind == "return" and isinstance(out.value, Seq) else repr(out)
                        want = ref(tname, start, uni)
                        ok = got == want if prop != "C06" else (isinstance(got, list) and sorted(got) == sorted(want))
                        report(ok, tname, scen, caching, f"afterwards {lst}({'U' if uni else None}, {start}) lists {got}, the reference order is {want}", qual)
            try:
                for k in (1, 2, 3):
                    g = G(h, caching)
                    before = c13.heap(g.objs)
                    it = h.I.call(fgen, [None, g.V["a"]], {})
                    if not isinstance(it, (GenV, IterV)):
                        raise Unknown(f"{gen} does not return an iterator")
                    got = _take(h, it, k)
                    want = ref(tname, "a")[:k]
                    if prop != "C13":
                        report(got == want if prop == "C07" else sorted(got) == sorted(want) or prop == "C06" and len(set(got)) == len(got) == k, tname, f"SUSPENDED after {k} element(s)", caching,
                               f"the first {k} element(s) are {got}, the reference order starts {want}", qual)
                    follow(g, f"SUSPENDED {gen}(None, a) after {k} element(s), generator still alive")
                    rest = _drain(h, it)
                    if prop != "C13":
                        whole, wantall = got + rest, ref(tname, "a")
                        report(whole == wantall if prop == "C07" else sorted(whole) == sorted(wantall), tname, f"SUSPENDED after {k}, other traversals run, then resumed", caching,
                               f"the whole listing is {whole}, the reference order is {wantall}", qual)
                    # abandoned: closed by the consumer
                    g = G(h, caching)
                    before = c13.heap(g.objs)
                    it = h.I.call(fgen, [None, g.V["a"]], {})
                    _take(h, it, k)
                    if isinstance(it, GenV):
                        h.I.gen_close(it)
                    it = None
                    follow(g, f"ABANDONED {gen}(None, a) after {k} element(s) (closed and dropped)")
                # interleaved
                g = G(h, caching)
                before = c13.heap(g.objs)
                g1 = h.I.call(fgen, [None, g.V["a"]], {})
                g2 = h.I.call(fgen, [None, g.V["a"]], {})
                l1, l2 = [], []
                for _ in range(8):
                    l1 += _take(h, g1, 1)
                    l2 += _take(h, g2, 1)
                want = ref(tname, "a")
                if prop != "C13":
                    for l in (l1, l2):
                        report(l == want if prop == "C07" else sorted(l) == sorted(want), tname, "INTERLEAVED two generators advanced alternately", caching, f"one of them lists {l}, the reference order is {want}", qual)
                follow(g, f"INTERLEAVED two {gen}(None, a) generators advanced alternately to their end")
                # fault inside the generator
                for j in (1, 2, 3):
                    g = G(h, caching)
                    before = c13.heap(g.objs)

                    def script(I, nth, a, kw, _j=j):
                        if nth == _j:
                            raise Raised(h.w.B.mkexc("ValueError", "callback fault"))
                        return True
                    cb = Callback("ff_via", script)
                    out = h.call(fgen, None, g.V["a"], ff_via=cb)
                    follow(g, f"FAULT ff_via raises at its invocation {j} inside {gen}(None, a) ({'raised ' + out.excname if out.kind == 'raise' else 'returned'})")
            except Unknown as u:
                res.ob(False)
                res.undecide(f"{rule} {gen} caching={caching}: {u}")
    res.rule(rule, n)
    return n


def _delta(a, b):
    out = []
    for k in sorted(set(a) | set(b)):
        if a.get(k) != b.get(k):
            fa, fb = a.get(k, {}), b.get(k, {})
            for f in sorted(set(fa) | set(fb)):
                if fa.get(f, "<absent>") != fb.get(f, "<absent>"):
                    out.append(f"{k}.{f}: {fa.get(f, '<absent>')!r} -> {fb.get(f, '<absent>')!r}")
    return "; ".join(out[:4]) or "(no difference)"


REPLAY = """from edgegraph.structure import *
from edgegraph.traversal import breadthfirst, depthfirst
V = {{n: Vertex(attributes={{'name': n}}) for n in 'abcdxy'}}
for p, q in [('a','b'),('a','c'),('b','d'),('c','d'),('d','a'),('c','c'),('x','y')]: DirectedEdge(V[p], V[q])
g = {mod}.{gen}(None, V['a'])
print(next(g).name, {{n: sorted(vars(v)) for n, v in V.items()}})      # suspended: the vertices carry the same attributes as before
print([v.name for v in {mod}.{gen}(None, V['x'])])                    # another traversal meanwhile: ['x', 'y']
print([v.name for v in g])
"""
