"""Scale families for the history engine: the same whole-stack histories as rules/hist.py, on graphs whose collections have a
given SIZE - a vertex with exactly n links, n parallel links between one pair, a universe with n members, an object in n
universes, a link naming n vertices, a chain n links deep - for the sizes the tree itself names (rules/common.harvested_sizes:
operands of comparisons, slice bounds, range()/islice() arguments, module-level constants ...; just below, at and just above
each) plus default sizes beyond the small scopes.  The per-function engines decide one link / one member at a time and rely on
the uniformity of the loops over `v.links`, `uni.vertices` ...; a tree that switches algorithm, cuts off, chunks or indexes once
a collection passes some size breaks exactly that uniformity, and names the size in its own source.

    build G(shape, n) through the constructors ; flag ; observe (warms every cache) ; one mutator that touches a sized collection
    (crossing n -> n + 1 or n -> n - 1, first / middle / last element) ; observe - every observation against the reference model."""
from __future__ import annotations

from sa.harness import H, Outcome
from sa.ae import Seq, DictV, Obj, Unknown, Raised
from rules import hist, struct, c04

DC = hist.DC
KCYCLE = ("out", "in", "und", "loop", "par", "out")      # kinds of the extra links of the hub `a`: a->x, x->a, a--x, a->a, a->b (parallel), a->x


class GS(hist.G):
    """hist.G (a, b, c, d, its six edges, U = [a, b, c], W = []) padded to size n.

    shape 'hub': `a` has exactly n links (extra links h1.. to bulk vertices x1.. in the kinds out / in / undirected / parallel to
    e_ab); U has exactly n members (a, b, c, x1 ..); a chain c -> y1 -> ... -> yn (n links deep, outside U); `a` belongs to exactly
    n universes (U, Z1 ..); a plain Link `Lbig` names exactly n vertices z1 .. zn.
    shape 'par': exactly n directed links a -> b (e_ab, p1 ..) and one undirected a -- b in their middle.
    shape 'deep': a chain t1 -> t2 -> ... -> tn -> a of members of U in front of the base graph: whatever a traversal started at t1 does
    with the base graph (branching, a cycle, a self-loop, the vertex d outside U) it does n levels deep."""

    def __init__(self, h, family, shape, n):
        self.h, self.family, self.shape, self.n = h, family, shape, n
        vcls, kw = hist.FAMILIES[family]
        key = ("scale", family, shape, n)
        plan = self.plan(shape, n)
        pool = h.rollback(key)
        if pool is None:
            h.reset()
            pool = {}

            def vert(name):
                pool[name] = h.new(vcls, name, attributes=DictV([["name", name], ["grp", hist.GRP.get(name, "B")]]))
            for v in "abcd":
                vert(v)
            for v in plan["verts"]:
                vert(v)
            for nme, cls, x, y in self.EDGES:
                pool[nme] = h.new(cls, nme, pool[x], pool[y])
            for nme, cls, x, y in plan["edges"]:
                pool[nme] = h.new(cls, nme, pool[x], pool[y])
            # the `vertices=` argument names `a` a second time at its end (a repeated element joins once)
            pool["U"] = h.new("Universe", "U", vertices=Seq([pool[v] for v in ["a", "b", "c"] + plan["members"] + ["a"]], "list"), attributes=DictV([["name", "U"]]))
            pool["W"] = h.new("Universe", "W", attributes=DictV([["name", "W"]]))
            for z in plan["unis"]:
                pool[z] = h.new("Universe", z, vertices=Seq([pool["a"]], "list"), attributes=DictV([["name", z]]))
            if plan["big"]:
                pool["Lbig"] = h.new("SymLink", "Lbig", vertices=Seq([pool[z] for z in plan["big"]], "list"))
            extra = {}
            for o in list(pool.values()):
                for k, v in o.fields.items():
                    if isinstance(v, Obj) and v not in pool.values() and v not in extra.values():
                        v.name = f"{o.name}.{k}"
                        extra[v.name] = v
            pool.update(extra)
            h.checkpoint(key, pool)
        self.O = {k: v for k, v in pool.items() if "." not in k}
        self.pool = pool
        h.settle()
        m = self.m = hist.GM()
        for v in ["a", "b", "c", "d", "U", "W"] + plan["verts"] + plan["unis"]:
            m.vlinks[v] = []
            m.vuni[v] = []
        for nme, cls, x, y in list(self.EDGES) + plan["edges"]:
            m.lverts[nme] = [x, y]
            m.lclass[nme] = cls
            m.vuni[nme] = []
            for v in (x, y):
                if nme not in m.vlinks[v]:
                    m.vlinks[v].append(nme)
        m.umem = {"U": ["a", "b", "c"] + plan["members"], "W": []}
        for v in m.umem["U"]:
            m.vuni[v].append("U")
        for z in plan["unis"]:
            m.umem[z] = ["a"]
            m.vuni["a"].append(z)
        if plan["big"]:
            m.lverts["Lbig"] = list(plan["big"])
            m.lclass["Lbig"] = "SymLink"
            m.vuni["Lbig"] = []
            for z in plan["big"]:
                m.vlinks[z].append("Lbig")
        if vcls == "Universe":
            for v in ["a", "b", "c", "d"] + plan["verts"]:
                m.umem[v] = []

    @staticmethod
    def plan(shape, n):
        verts, edges, members, unis, big = [], [], [], [], []
        if shape == "hub":
            k = max(0, n - 3)
            for i in range(1, k + 1):
                kind = KCYCLE[(i - 1) % len(KCYCLE)]
                x = f"x{i}"
                verts.append(x)
                members.append(x)
                if kind == "out":
                    edges.append((f"h{i}", "DirectedEdge", "a", x))
                elif kind == "in":
                    edges.append((f"h{i}", "DirectedEdge", x, "a"))
                elif kind == "und":
                    edges.append((f"h{i}", "UnDirectedEdge", "a", x))
                elif kind == "loop":
                    edges.append((f"h{i}", "DirectedEdge", "a", "a"))
                else:
                    edges.append((f"h{i}", "DirectedEdge", "a", "b"))
            prev = "c"
            for i in range(1, n + 1):
                y = f"y{i}"
                verts.append(y)
                edges.append((f"k{i}", "DirectedEdge", prev, y))
                prev = y
            unis = [f"Z{i}" for i in range(1, n)]
            big = [f"z{i}" for i in range(1, n + 1)]
            verts += big
        elif shape == "deep":
            prev = None
            for i in range(1, n + 1):
                t = f"t{i}"
                verts.append(t)
                members.append(t)
                if prev is not None:
                    edges.append((f"k{i - 1}", "DirectedEdge", prev, t))
                prev = t
            edges.append((f"k{n}", "DirectedEdge", prev, "a"))
        elif shape == "par":
            for i in range(1, n):
                edges.append((f"p{i}", "DirectedEdge", "a", "b"))
                if i == n // 2:
                    edges.append(("q", "UnDirectedEdge", "a", "b"))
        else:
            raise ValueError(shape)
        return {"verts": verts, "edges": edges, "members": members, "unis": unis, "big": big}


def scale_mutators(h, shape, n):
    hist.mutators(h, "plain")          # installs the mutator factories (h._mk)
    k = h._mk
    plan = GS.plan(shape, n)
    M = []
    if shape == "hub":
        hub = [e for e in plan["edges"] if e[0].startswith("h")]
        first, mid, last = (hub[0], hub[len(hub) // 2], hub[-1]) if hub else (None, None, None)
        M += [k["create"]("DirectedEdge", "a", "d"), k["create"]("UnDirectedEdge", "d", "a"), k["create"]("SymTwo", "a", "b"), k["setend"]("e_bd", 1, "a"), k["setend"]("e_ab", 0, "d"),
              k["ex_unlink"]("a", "b", True), k["ex_unlink"]("b", "a", False), k["ex_unlink"]("a", "a", False), k["ex_link"]("link_directed", None, "a", "d", True), k["ex_link"]("link_directed", None, "a", "b", True),
              k["ex_link"]("link_undirected", None, "a", "d", False), k["unlink_from"]("e_ab", "a"), k["remove_from_link"]("a", "e_da"),
              k["u_add"]("U", "d", "u"), k["u_add"]("U", "d", "v"), k["u_add"]("U", "a", "u"), k["u_remove"]("U", "a"), k["v_remove"]("c", "U"), k["u_remove"]("U", "d"),
              k["seq"](k["u_remove"]("U", "b"), k["u_add"]("U", "d", "u")), k["u_add"]("W", "a", "u"), k["u_add"]("W", "a", "v")]
        if hub:
            for e in {first[0], mid[0], last[0]}:
                M.append(k["unlink_from"](e, "a"))
                M.append(k["remove_from_link"]("a", e))
            M += [k["setend"](last[0], 0 if last[2] == "a" else 1, "d"), k["setend"](first[0], 0 if first[2] == "a" else 1, "c"),
                  k["seq"](k["unlink_from"](mid[0], "a"), k["create"]("DirectedEdge", "a", "d")),
                  k["u_remove"]("U", plan["members"][-1]), k["v_remove"](plan["members"][len(plan["members"]) // 2], "U"), k["ex_link"]("link_directed", None, "a", plan["members"][-1], True),
                  k["ex_unlink"]("a", plan["members"][0], False)]
        if plan["unis"]:
            M += [k["v_remove"]("a", plan["unis"][0]), k["u_remove"](plan["unis"][-1], "a"), k["seq"](k["v_remove"]("a", plan["unis"][len(plan["unis"]) // 2]), k["u_add"]("W", "a", "v"))]
        big = plan["big"]
        M += [k["unlink_from"]("Lbig", big[0]), k["unlink_from"]("Lbig", big[-1]), k["remove_from_link"](big[len(big) // 2], "Lbig"), k["add_vertex"]("Lbig", "d"), k["add_to_link"]("d", "Lbig"),
              k["seq"](k["unlink_from"]("Lbig", big[1]), k["add_vertex"]("Lbig", big[1]))]
        M += [k["unlink_from"](f"k{n}", f"y{n}"), k["setend"](f"k{max(1, n // 2)}", 1, "d"), k["ex_unlink"](f"y{n - 1}", f"y{n}", True), k["create"]("DirectedEdge", f"y{n}", "a"), k["create"]("DirectedEdge", f"y{n}", "d")]
    elif shape == "deep":
        M += [k["create"]("DirectedEdge", "c", "d"), k["create"]("UnDirectedEdge", "b", "d"), k["setend"]("e_bd", 1, "c"), k["u_add"]("U", "d", "u"), k["u_remove"]("U", "c"), k["u_remove"]("U", f"t{n}"),
              k["ex_unlink"]("b", "c", True), k["create"]("DirectedEdge", f"t{n}", "c"), k["create"]("DirectedEdge", f"t{max(1, n // 2)}", "d"), k["setend"](f"k{n}", 1, "b"), k["unlink_from"]("e_ab", "b")]
    else:
        mid = f"p{max(1, (n - 1) // 2)}" if n > 1 else "e_ab"
        last = f"p{n - 1}" if n > 1 else "e_ab"
        M += [k["ex_unlink"]("a", "b", True), k["ex_unlink"]("a", "b", False), k["ex_unlink"]("b", "a", False), k["create"]("DirectedEdge", "a", "b"), k["create"]("DirectedEdge", "b", "a"), k["create"]("UnDirectedEdge", "a", "b"),
              k["unlink_from"]("e_ab", "a"), k["unlink_from"](last, "b"), k["remove_from_link"]("b", mid), k["remove_from_link"]("a", "q") if n >= 2 and ("q" in [e[0] for e in GS.plan("par", n)["edges"]]) else k["remove_from_link"]("a", "e_ab"),
              k["setend"](last, 1, "c"), k["setend"](mid, 0, "b"), k["setend"]("e_ab", 1, "d"), k["ex_link"]("link_directed", None, "a", "b", True), k["ex_link"]("link_directed", None, "b", "a", True),
              k["ex_link"]("link_directed", None, "a", "b", False), k["seq"](k["unlink_from"](mid, "a"), k["create"]("DirectedEdge", "a", "b"))]
    return M


def replay(fam, shape, n, sch, mu, o):
    vcls, kw = hist.FAMILIES[fam]
    plan = GS.plan(shape, n)
    L = ["from edgegraph.structure import *", "from edgegraph.structure import TwoEndedLink, Link", "from edgegraph.builder import explicit", "from edgegraph.traversal import helpers, breadthfirst, depthfirst",
         "class SymTwo(TwoEndedLink): pass", "class SymLink(Link): pass",
         f"V = {{n: {vcls}(attributes={{'name': n, 'grp': {hist.GRP!r}.get(n, 'B')}}) for n in {['a', 'b', 'c', 'd'] + plan['verts']!r}}}", "globals().update(V)"]
    for nme, cls, x, y in list(hist.G.EDGES) + plan["edges"]:
        L.append(f"{nme} = {cls}({x}, {y})")
    L.append(f"U = Universe(vertices=[{', '.join(['a', 'b', 'c'] + plan['members'] + ['a'])}]); W = Universe()")
    for z in plan["unis"]:
        L.append(f"{z} = Universe(vertices=[a])")
    if plan["big"]:
        L.append(f"Lbig = SymLink(vertices=[{', '.join(plan['big'])}])")
    L += [f"# caching: {sch}", "# then every accessor and query once", f"# then: {mu.label if mu else ''}", f"# then observe: {o.name if o else ''}"]
    return "\n".join(L)


_WORLD = {}


def _job(job):
    from sa.src import Source
    root, overlay, prop, rule, fam, shape, n, sch, extra, chunk, halve = job
    key = (root, tuple(sorted(overlay.items())), extra)
    if _WORLD.get("key") != key:
        src = Source(root, overlay)
        mods = list(hist.MODS)
        xo = None
        if extra:
            import importlib
            xo = getattr(importlib.import_module(extra[0]), extra[1])
            mods += list(getattr(xo, "modules", ()))
        h = H(src, mods)
        if xo is not None and hasattr(xo, "setup"):
            xo.setup(h)
        _WORLD.update(key=key, h=h, xo=xo)
    col = hist._Collector()
    try:
        k = run_one(_WORLD["h"], col, prop, rule, fam, shape, n, sch, _WORLD["xo"], chunk, halve)
    except Unknown as u:
        col.undecide(f"scale engine, {shape} n={n} / {sch}: {u}")
        k = 0
    except Raised as r:
        col.undecide(f"scale engine, {shape} n={n} / {sch}: building the graph raises {r}")
        k = 0
    return k, col.calls


BIG = 24


def run_one(h, res, prop, rule, fam, shape, n, sch, extra_observers, chunk, halve=False):
    C = c04.consts(h)
    plan = GS.plan(shape, n)
    more, pairs, starts = [], (), ()
    if shape == "hub":
        more = ["x1", f"y{n}"] if "x1" in plan["verts"] else [f"y{n}"]
        pairs = (("a", "a"),) + ((("a", "x1"), ("x1", "a"), ("a", "x2"), ("x3", "a")) if "x3" in plan["verts"] else ())
    elif shape == "deep":
        more, starts = ["t1", f"t{n}"], ("t1",)
        h.w.depth_budget = max(h.w.depth_budget, 3 * n + 90)       # the recursive forms go n levels deep before they reach the base graph
    OBS = (extra_observers(h, C) if extra_observers else []) + hist.observers(h, C, more=more, more_unis=plan["unis"][:1] + plan["unis"][-1:], pairs=pairs, starts=starts)
    mine = [o for o in OBS if prop in o.props] if prop != "C13" else list(OBS)
    warm = [o for o in OBS if o.name.endswith((".links", ".universes", ".vertices", "vertices")) or o.name.startswith("neighbors(")]
    state = [o for o in OBS if o.name.endswith((".links", ".universes", ".vertices", "vertices")) or o.name.startswith("I1 ")]
    cnt = 0
    seen = set()

    def describe(mu):
        return (f"graph '{shape}' of size {n} ({'a has ' + str(max(n, 3)) + ' links, U ' + str(max(n, 3)) + ' members, a chain ' + str(n) + ' links deep from c, a in ' + str(n) + ' universes, a Link naming ' + str(n) + ' vertices' if shape == 'hub' else (str(n) + ' parallel directed links a -> b and one undirected a -- b' if shape == 'par' else 'a chain t1 -> ... -> t' + str(n) + ' -> a of members of U in front of the base graph')}); "
                f"caching {sch}; every accessor and query once (the caller reverses and truncates every list it is handed); {mu.label if mu else '(no mutation)'}; query")

    def observe(g, mu, check=True, mine_first=False):
        nonlocal cnt
        todo = (mine + warm if mine_first else warm + mine) + (state if prop in hist.STATE_PROPS else [])
        for idx, o in enumerate(todo):
            h.w.steps = 0
            out = o.do(g)
            if not check or prop not in o.props:
                hist.scribble(out)
                continue
            want = o.want(g.m)
            if want is DC:
                hist.scribble(out)
                continue
            got = out.value.v if out.kind == "return" and isinstance(out.value, hist._Plain) else hist.osig(out)
            hist.scribble(out)
            ok = o.cmp(got, want) if o.cmp else got == want
            cnt += 1
            res.ob(ok, sig=("scale", shape, n, sch, mu.label if mu else None, o.name, idx >= len(warm) + len(mine)))
            if not ok:
                key = (o.qual, mu.kind if mu else None, o.name.split("(")[0])
                if key in seen:
                    continue
                seen.add(key)
                res.violation(rule, o.qual, f"shape={shape},size={n},caching={sch},after={mu.kind if mu else 'construction'},observer={o.name.split('(')[0].split('.')[-1]}",
                              f"history [{describe(mu)}]: {o.name} {_diff(got, want)}", replay=replay(fam, shape, n, sch, mu, o))

    MUT = scale_mutators(h, shape, n)
    if halve:
        MUT = MUT[n % 2::2]
    todo = [None] + MUT
    if chunk is not None:
        todo = todo[chunk[0]::chunk[1]]
    for hi, mu in enumerate(todo):
        h.w.set_order = "insertion" if hi % 2 == 0 else "reversed"
        try:
            g = GS(h, fam, shape, n)
            hist.flag(h, sch == "on")
            observe(g, None, check=(mu is None))
            if mu is None:
                continue
            h.w.steps = 0
            out = mu.do(g)
            mr = mu.model(g.m)
            if mr is DC:
                if prop == "C13":
                    cnt += hist.frozen(h, g, res, warm + mine, state, (f"scale-{shape}-{n}", sch, mu), rule)
                continue
            why = hist.check_result(out, mr, g)
            if why:
                if prop == "C03" or (prop == "C02" and mu.kind.startswith("universe")):
                    cnt += 1
                    res.ob(False, sig=("scale", shape, n, sch, mu.label, "call"))
                    res.violation(rule, mu.qual, f"shape={shape},size={n},caching={sch},call={mu.kind}", f"history [{describe(mu)}]: the call {why}", replay=replay(fam, shape, n, sch, mu, None))
                if prop == "C01":
                    for o in mine:
                        r = o.do(g)
                        got = r.value.v if r.kind == "return" and isinstance(r.value, hist._Plain) else hist.osig(r)
                        cnt += 1
                        res.ob(got == [], sig=("scale", shape, n, sch, mu.label, "after-unexpected-outcome"))
                        if got != []:
                            res.violation(rule, mu.qual, f"shape={shape},size={n},caching={sch},after={mu.kind},observer=I1", f"history [{describe(mu)}]: the call {why}; afterwards {_short(got)}", replay=replay(fam, shape, n, sch, mu, o))
                continue
            observe(g, mu, mine_first=bool(hi % 2))
        except Unknown as u:
            res.undecide(f"history [{describe(mu)}]: {u}")
    return cnt


def _diff(got, want):
    if isinstance(got, list) and isinstance(want, list) and max(len(got), len(want)) > 12:
        k = next((i for i, (x, y) in enumerate(zip(got, want)) if x != y), min(len(got), len(want)))
        return (f"gives a list of {len(got)} entries, the reference model replaying the same calls one of {len(want)}; first difference at index {k}: "
                f"{_short(got[max(0, k - 2):k + 3], 160)} against {_short(want[max(0, k - 2):k + 3], 160)}")
    return f"gives {_short(got)}, the reference model replaying the same calls gives {_short(want)}"


def _short(v, limit=420):
    s_ = repr(v)
    return s_ if len(s_) <= limit else s_[:limit] + f"... ({len(s_)} characters)"


def run(ctx, res, prop, rule="SCALE", extra=None, shapes=("hub", "par", "deep"), sizes=None, schedules=("off", "on")):
    """The scale histories of property `prop`; one job per (shape, size, caching), split over the cores.  -> comparisons"""
    import multiprocessing as mp
    import os
    from rules import common
    sizes = list(sizes) if sizes is not None else common.scale_sizes(ctx, res)
    root, overlay = str(ctx.src.root), dict(ctx.src.overlay)
    from rules.common import HUB_CAP
    # beyond BIG the quick tier keeps the cost down: caching on only (a cold memo is computed, a warm one served), and the sizes c and
    # c + 1 share the mutators between them (even / odd positions)
    base = [(root, overlay, prop, rule, "plain", shape, n, sch, extra) for shape in shapes for n in sizes for sch in schedules
            if (shape == "deep" or n <= HUB_CAP + 1) and (ctx.thorough or n <= BIG or sch == "on")]
    cpus = min(os.cpu_count() or 1, 16)
    k = max(1, -(-cpus // max(1, len(base))))
    jobs = [j + ((i, k), (not ctx.thorough) and j[6] > BIG) for j in base for i in range(k)]
    nproc = min(len(jobs), cpus)
    if nproc > 1 and not os.environ.get("VERIF_HIST_SERIAL") and not mp.current_process().daemon:
        with mp.get_context("fork").Pool(nproc) as pool:
            parts = pool.map(_job, jobs, chunksize=1)
    else:
        parts = [_job(j) for j in jobs]
    total = 0
    for c, calls in parts:
        total += c
        for name, args in calls:
            if name == "ob":
                res.ob(args[0], sig=args[1])
            elif name == "violation":
                res.violation(*args[0], **args[1])
            elif name == "undecide":
                res.ob(False)
                res.undecide(*args)
            else:
                res.note(*args)
    res.rule(rule, total)
    res.extra.setdefault("histories", {})[rule] = {"shapes": list(shapes), "sizes": sizes, "caching": list(schedules), "processes": nproc, "comparisons": total}
    return total
