"""C04 - neighbors() decision rules: decision table derived from the source by abstract evaluation,
compared with the table transcribed from the property statement (DESIGN.md A.1)."""
from __future__ import annotations
import itertools

from sa.harness import H, Outcome, show, names
from sa.ae import Callback, Seq, Unknown, Raised
from rules import common

LEVEL = "proof"
FN = "edgegraph.traversal.helpers.neighbors"
# a class deriving from BOTH edge classes is an undirected edge ("every undirected edge" contributes, whatever else it is)
KINDS = {"UnDirectedEdge": "U", "SymUnd": "U", "DirectedEdge": "D", "SymDir": "D", "SymTwo": "X", "SymBothDU": "U", "SymBothUD": "U"}
POS = ("v1", "v2", "both")
DIRS = ("FORWARD", "BACKWARD", "ANY", "UNDEFINED")
UHS = ("NONNEIGHBOR", "NEIGHBOR", "ERROR")
FILTERS = ("none", "accept", "reject", "accept-falsy", "reject-falsy")


def expected(kind, pos, d, uh, filt):
    """-> 'OE' | 'nothing' | 'NotImplementedError' | set of acceptable outcomes | None (don't care)."""
    F = not filt.startswith("reject")
    if d == "UNDEFINED":
        return None
    if d == "ANY":
        return "OE" if F else "nothing"
    if kind == "U":
        return "OE" if F else "nothing"
    if kind == "D":
        leaving = pos in ("v1", "both")
        entering = pos in ("v2", "both")
        q = leaving if d == "FORWARD" else entering
        return ("OE" if F else "nothing") if q else "nothing"
    # other two-ended type
    if uh == "NONNEIGHBOR":
        return "nothing"
    if uh == "NEIGHBOR":
        return "OE" if F else "nothing"
    return "NotImplementedError"   # unknown_handling decides whether the link takes part at all; the filter only restricts links that do


def consts(h):
    mod = "edgegraph.traversal.helpers."
    c = {
        "FORWARD": h.const(mod + "DIR_SENS_FORWARD"), "BACKWARD": h.const(mod + "DIR_SENS_BACKWARD"), "ANY": h.const(mod + "DIR_SENS_ANY"),
        "NONNEIGHBOR": h.const(mod + "LNK_UNKNOWN_NONNEIGHBOR"), "NEIGHBOR": h.const(mod + "LNK_UNKNOWN_NEIGHBOR"), "ERROR": h.const(mod + "LNK_UNKNOWN_ERROR"),
    }
    used = set(c.values())
    c["UNDEFINED"] = next(i for i in range(97, 200) if i not in used)
    return c


class FalsyCB:
    """Wrapper giving a FalsyCallable / UnhashableCallable object the .calls interface of a Callback."""

    def __init__(self, h, answer, cls="FalsyCallable"):
        self.obj = h.I.call(h.sym[cls], [answer], {})

    @property
    def calls(self):
        return [(list(t.items), {}) for t in self.obj.fields["calls"].items]


def cbval(cb):
    return cb.obj if isinstance(cb, FalsyCB) else cb


def mkfilter(mode, rejects=(), h=None):
    if mode == "none":
        return None
    if mode.endswith("-falsy"):
        return FalsyCB(h, mode.startswith("accept"))
    if mode.endswith("-unhashable"):
        return FalsyCB(h, mode.startswith("accept"), "UnhashableCallable")
    if mode == "accept":
        return Callback("filterfunc", lambda I, n, a, k: True)
    if mode == "reject":
        return Callback("filterfunc", lambda I, n, a, k: False)
    # selective: rejects the listed links
    return Callback("filterfunc", lambda I, n, a, k: not any(a and a[0] is r for r in rejects))


def build(h, rows, vcls="Vertex"):
    """vertex `a` whose links are one link per row, other end b_i (or a itself for a self-loop)."""
    a = h.vertex("a", vcls)
    links, others = [], []
    api = bool(getattr(h, "aux", None))     # the tree keeps auxiliary state: links are made by their constructors, in a.links order
    for i, (cls, pos) in enumerate(rows):
        b = a if pos == "both" else h.vertex(f"b{i}", vcls)
        ends = {"v1": [a, b], "v2": [b, a], "both": [a, a]}[pos]
        l = h.new(cls, f"L{i}", *ends) if api else h.link(f"L{i}", cls, ends)
        links.append(l)
        others.append(b)
        if b is not a and not api:
            b.fields["_links"] = Seq([l], "list")
    if not api:
        a.fields["_links"] = Seq(links, "list")
    h.settle()
    return a, links, others


def contribution(exp, other):
    return [other] if exp == "OE" else []


def replay_snippet(rows, d, uh, filt):
    L = ["from edgegraph.structure import Vertex, TwoEndedLink, DirectedEdge, UnDirectedEdge",
         "from edgegraph.traversal import helpers",
         "class SymTwo(TwoEndedLink): pass", "class SymDir(DirectedEdge): pass", "class SymUnd(UnDirectedEdge): pass",
         "a = Vertex()"]
    for i, (cls, pos) in enumerate(rows):
        if pos != "both":
            L.append(f"b{i} = Vertex()")
        ends = {"v1": f"a, b{i}", "v2": f"b{i}, a", "both": "a, a"}[pos]
        L.append(f"L{i} = {cls}({ends})")
    f = {"none": "None", "accept": "lambda e, v: True", "reject": "lambda e, v: False",
         "accept-falsy": "type('F', (), {'__call__': lambda s, e, v: True, '__len__': lambda s: 0})()",
         "reject-falsy": "type('F', (), {'__call__': lambda s, e, v: False, '__len__': lambda s: 0})()"}.get(filt, "lambda e, v: e is L0")
    dd = {"FORWARD": "helpers.DIR_SENS_FORWARD", "BACKWARD": "helpers.DIR_SENS_BACKWARD", "ANY": "helpers.DIR_SENS_ANY"}.get(d, "99")
    L.append(f"print(helpers.neighbors(a, {dd}, helpers.LNK_UNKNOWN_{uh}, {f}))")
    return "\n".join(L)


def run(ctx):
    res = ctx.res
    res.rule_text = ("decision table of helpers.neighbors: link class x position of the queried vertex x direction_sensitive x "
                     "unknown_handling x filter; one abstract input per combination stands for every concrete graph whose link falls "
                     "in that class (the function inspects links only through identity, class and constant tests); distinct = rows "
                     "whose specified outcome is not a don't-care")
    res.trusted_base = common.TRUSTED_AE
    res.assumptions = ["filter callbacks are pure", "links are two-ended (have `other`)", "no user class overrides __eq__/__hash__ (identity model, checked for the repository's own classes)"]
    common.identity_model(ctx)
    h = H(ctx.src, ["edgegraph.traversal.helpers"])
    fn = h.fn(FN)
    C = consts(h)
    res.analysed = common.analysed(ctx, [FN, "edgegraph.structure.twoendedlink.TwoEndedLink.other", "edgegraph.structure.vertex.Vertex.links"])
    derived = {}
    badrows = set()
    # ---- single-link table
    for cls, pos, d, uh, filt in itertools.product(KINDS, POS, DIRS, UHS, FILTERS):
        kind = KINDS[cls]
        exp = expected(kind, pos, d, uh, filt)
        h.reset()
        a, links, others = build(h, [(cls, pos)])
        try:
            cb = mkfilter(filt, h=h)
            out = h.call(fn, a, C[d], C[uh], cbval(cb))
        except Unknown as u:
            res.ob(False)
            res.undecide(f"{FN} row {cls},{pos},{d},{uh},{filt}: {u}")
            continue
        got = classify(out, others[0], a)
        derived[(cls, pos, d, uh, filt)] = got
        ok = exp is None or (got in exp if isinstance(exp, set) else got == exp)
        # filter arguments
        if ok and cb is not None and cb.calls:
            for args, kw in cb.calls:
                if not (len(args) == 2 and not kw and args[0] is links[0] and args[1] is others[0]):
                    ok = False
                    got = f"filter called with {show(Seq(args))} {kw}"
        if ok and exp is not None and out.kind == "return" and not fresh_list(out.value, a):
            pass  # aliasing is C12's business
        res.ob(ok, sig=(cls, pos, d, uh, filt) if exp is not None else None,
               sample={"link": cls, "vert_is": pos, "direction": d, "unknown": uh, "filter": filt, "derived": got, "specified": sorted(exp) if isinstance(exp, set) else exp})
        if not ok:
            badrows.add((cls, pos, d, uh, filt))
            res.violation("TABLE", FN, f"kind={kind},dir={d},unknown={uh},filter={filt}" + (",class-derives-from-both-edge-classes" if cls.startswith("SymBoth") else ""),
                          f"neighbors() contributes {got!r} for a {kind}-kind link{' (of a class deriving from DirectedEdge and UnDirectedEdge)' if cls.startswith('SymBoth') else ''} where the statement requires {exp!r}",
                          detail=f"link class {cls}, queried vertex is {pos}; derived {out!r}; filter calls {cb.calls if cb else None}",
                          replay=replay_snippet([(cls, pos)], d, uh, filt))
    # ---- the same table on distinct vertices that compare equal (a user vertex class with value equality): the opposite end is the
    # other *object*, and v occurs among its own neighbours only for a self-loop
    neq = 0
    for cls, pos, d, uh in itertools.product(("DirectedEdge", "UnDirectedEdge", "SymTwo"), POS, DIRS[:3], UHS):
        exp = expected(KINDS[cls], pos, d, uh, "none")
        h.reset()
        a, links, others = build(h, [(cls, pos)], "EqVert")
        try:
            out = h.call(fn, a, C[d], C[uh], None)
        except Unknown as u:
            res.ob(False)
            res.undecide(f"{FN} row {cls},{pos},{d},{uh} on value-equal vertices: {u}")
            continue
        neq += 1
        got = classify(out, others[0], a)
        ok = exp is None or (got in exp if isinstance(exp, set) else got == exp)
        res.ob(ok, sig=("eq", cls, pos, d, uh))
        if not ok:
            res.violation("TABLE", FN, f"kind={KINDS[cls]},dir={d},unknown={uh},filter=none,vertices-compare-equal",
                          f"neighbors() contributes {got!r} for a {KINDS[cls]}-kind link (queried vertex is {pos}) between two distinct vertices of a class with value equality; the statement requires {exp!r} (the opposite end)",
                          replay=replay_snippet([(cls, pos)], d, uh, "none").replace("from edgegraph.traversal import helpers", "from edgegraph.traversal import helpers\nclass Vertex(Vertex):\n    __eq__ = lambda s, o: isinstance(o, Vertex)\n    __hash__ = lambda s: 0"))
    # ---- objects whose repr() / str() raise: what the call does with a link never depends on how the objects would print
    ngr = 0
    for pos, d, uh in itertools.product(POS, DIRS[:3], UHS):
        exp = expected("X", pos, d, uh, "none")
        h.reset()
        try:
            a, links, others = build(h, [("GrumpyTwo", pos)], vcls="GrumpyVert")
            out = h.call(fn, a, C[d], C[uh], None)
        except Unknown as u:
            res.ob(False)
            res.undecide(f"{FN} row GrumpyTwo,{pos},{d},{uh}: {u}")
            continue
        ngr += 1
        got = classify(out, others[0], a)
        ok = got == exp
        res.ob(ok, sig=("grumpy", pos, d, uh))
        if not ok:
            res.violation("TABLE", FN, f"kind=X,dir={d},unknown={uh},filter=none,objects-whose-repr-raises",
                          f"neighbors() gives {got!r} ({out!r}) for a link of another two-ended type (queried vertex is {pos}) when repr()/str() of the link and of the vertices raise; the statement requires {exp!r}",
                          replay="from edgegraph.structure import Vertex, TwoEndedLink\nfrom edgegraph.traversal import helpers\nclass GV(Vertex):\n    def __repr__(self): raise RuntimeError('not ready')\n    __str__ = __repr__\n"
                                 "class GT(TwoEndedLink):\n    def __repr__(self): raise RuntimeError('not ready')\n    __str__ = __repr__\na, b = GV(), GV()\nl = GT(a, b)\n"
                                 f"print(helpers.neighbors(a, helpers.DIR_SENS_{d}, helpers.LNK_UNKNOWN_{uh}))")
    # ---- the same table with Vertex.NEIGHBOR_CACHING on and a *different* query on the same vertex made just before: what
    # neighbors(v, d, uh, f) returns is a function of the graph and of its own arguments, not of what was asked earlier
    nseq = 0
    flagcls = h.fn("edgegraph.structure.vertex.Vertex")
    for cls, pos in itertools.product(("DirectedEdge", "UnDirectedEdge", "SymTwo"), POS):
        for (d1, uh1), (d2, uh2) in itertools.permutations(list(itertools.product(DIRS[:3], UHS)), 2):
            if d1 != d2 and uh1 != uh2 and not ctx.thorough:
                continue
            for filt in (("none", "accept") if ctx.thorough else ("none",)):
                exp = expected(KINDS[cls], pos, d2, uh2, filt)
                if exp is None:
                    continue
                h.reset()
                try:
                    a, links, others = build(h, [(cls, pos)])
                    flagcls.dict["NEIGHBOR_CACHING"] = True
                    cb = cbval(mkfilter(filt, h=h))
                    h.call(fn, a, C[d1], C[uh1], cb)
                    out = h.call(fn, a, C[d2], C[uh2], cb)
                except Unknown as u:
                    res.ob(False)
                    res.undecide(f"{FN} row {cls},{pos},{d2},{uh2},{filt} after a query {d1},{uh1} with caching on: {u}")
                    continue
                finally:
                    flagcls.dict["NEIGHBOR_CACHING"] = False
                nseq += 1
                got = classify(out, others[0], a)
                ok = got in exp if isinstance(exp, set) else got == exp
                res.ob(ok, sig=("after", cls, pos, d1, uh1, d2, uh2, filt))
                if not ok:
                    res.violation("TABLE", FN, f"kind={KINDS[cls]},dir={d2},unknown={uh2},filter={filt},caching-on,after-query={d1}/{uh1}",
                                  f"with Vertex.NEIGHBOR_CACHING on, neighbors(v, {d2}, {uh2}) asked right after neighbors(v, {d1}, {uh1}) contributes {got!r} for a {KINDS[cls]}-kind link (queried vertex is {pos}) where the statement requires {exp!r}",
                                  replay=replay_snippet([(cls, pos)], d2, uh2, filt).replace("from edgegraph.traversal import helpers", "from edgegraph.traversal import helpers\nVertex.NEIGHBOR_CACHING = True").replace("print(", f"helpers.neighbors(a, helpers.DIR_SENS_{d1}, helpers.LNK_UNKNOWN_{uh1}); print(", 1))
    derived_n = nseq
    res.rule("TABLE", len(derived) + neq + ngr + derived_n)
    # ---- duality (derived table maps onto itself under FORWARD<->BACKWARD, v1<->v2)
    swap = {"v1": "v2", "v2": "v1", "both": "both"}
    nd = 0
    for (cls, pos, d, uh, filt), got in derived.items():
        if d not in ("FORWARD", "BACKWARD"):
            continue
        other = derived.get((cls, swap[pos], "BACKWARD" if d == "FORWARD" else "FORWARD", uh, filt))
        nd += 1
        ok = other == got
        res.ob(ok, sig=("dual", cls, pos, d, uh, filt))
        if not ok:
            res.violation("DUALITY", FN, f"kind={KINDS[cls]},unknown={uh},filter={filt}",
                          f"FORWARD/BACKWARD are not mirror images: {cls} {pos} {d} gives {got!r} but the mirrored query gives {other!r}",
                          replay=replay_snippet([(cls, pos)], d, uh, filt))
    res.rule("DUALITY", nd)
    # ---- composition: results are concatenated in links order; an exception at l1 prevents l2
    rows = [(c, p) for c in ("UnDirectedEdge", "DirectedEdge", "SymTwo") for p in POS]
    if ctx.thorough:
        rows = [(c, p) for c in KINDS for p in POS]
    ncomp = 0
    for r1, r2 in itertools.product(rows, rows):
        for d, uh, filt in itertools.product(DIRS[:3], UHS, ("none", "selective1", "selective2")):
            h.reset()
            a, links, others = build(h, [r1, r2])
            rej = {"none": (), "selective1": (links[0],), "selective2": (links[1],)}[filt]
            cb = None if filt == "none" else mkfilter("selective", rej)
            exps = []
            tainted = False
            for i, (cls, pos) in enumerate((r1, r2)):
                f = "none" if cb is None else ("reject" if links[i] in rej else "accept")
                exps.append(expected(KINDS[cls], pos, d, uh, f))
                tainted = tainted or (cls, pos, d, uh, f) in badrows
            if tainted:
                continue  # a constituent row already failed on its own: reported there
            try:
                out = h.call(fn, a, C[d], C[uh], cb)
            except Unknown as u:
                res.ob(False)
                res.undecide(f"{FN} composition {r1},{r2},{d},{uh},{filt}: {u}")
                continue
            ncomp += 1
            ok = compose_ok(out, exps, others)
            res.ob(ok, sig=("pair", r1, r2, d, uh, filt))
            if not ok:
                res.violation("COMPOSE", FN, f"kinds={KINDS[r1[0]]}+{KINDS[r2[0]]},dir={d},unknown={uh},filter={filt}",
                              f"two links {r1},{r2}: derived {out!r}, specified per-link outcomes {exps} concatenated in links order",
                              detail=f"others={show(Seq(others))}", replay=replay_snippet([r1, r2], d, uh, "selective" if cb else "none"))
    res.rule("COMPOSE", ncomp)
    # ---- TwoEndedLink.other
    other_fn = h.fn("edgegraph.structure.twoendedlink.TwoEndedLink.other")
    for cls in ("DirectedEdge", "UnDirectedEdge", "SymTwo"):
        for case in ("v1", "v2", "both", "neither", "none-end"):
            h.reset()
            a, b, c = h.vertex("a"), h.vertex("b"), h.vertex("c")
            ends = {"v1": [a, b], "v2": [b, a], "both": [a, a], "neither": [b, c], "none-end": [a, None]}[case]
            l = h.link("L", cls, ends)
            h.settle()
            try:
                out = h.call(other_fn, l, a)
            except Unknown as u:
                res.ob(False)
                res.undecide(f"TwoEndedLink.other {cls},{case}: {u}")
                continue
            want = {"v1": b, "v2": b, "both": a, "neither": None, "none-end": None}[case]
            ok = out.kind == "return" and out.value is want
            res.ob(ok, sig=("other", cls, case))
            if not ok:
                res.violation("OTHER", "edgegraph.structure.twoendedlink.TwoEndedLink.other", f"end={case}",
                              f"other(a) on ends {show(Seq(ends))} gives {out!r}, expected {show(want)}")
    res.rule("OTHER", 15)
    from rules import structural
    structural.filter_mpt(ctx, FN)
    # ---- "in the order of v.links": a vertex class that overrides the public accessor (presents its links in the opposite order)
    for d_, u_ in (("ANY", "NEIGHBOR"), ("FORWARD", "NEIGHBOR"), ("BACKWARD", "NONNEIGHBOR")):
        try:
            h.reset()
            a_ = h.new("RevLinksVert", "a")
            bs_ = [h.new("Vertex", f"b{i}") for i in range(3)]
            ls_ = [h.new("DirectedEdge", "L0", a_, bs_[0]), h.new("UnDirectedEdge", "L1", bs_[1], a_), h.new("DirectedEdge", "L2", bs_[2], a_)]
            h.settle()
            out = h.call(fn, a_, C[d_], C[u_], None)
        except Unknown as u:
            res.undecide(f"neighbors on a vertex class overriding links: {u}")
            continue
        want = []
        for (cls_, pos_), o in reversed(list(zip((("DirectedEdge", "v1"), ("UnDirectedEdge", "v2"), ("DirectedEdge", "v2")), bs_))):
            if expected(KINDS[cls_], pos_, d_, u_, "none") == "OE":
                want.append(o.name)
        got = [x.name for x in out.value.items] if out.kind == "return" and isinstance(out.value, Seq) else repr(out)
        res.ob(got == want, sig=("links-override", d_, u_))
        if got != want:
            res.violation("TABLE", FN, f"dir={d_},unknown={u_},vertex-class-overrides-links",
                          f"a Vertex subclass whose `links` property presents the links in the opposite order: neighbors(a, {d_}, {u_}) returns {got}; in the order of a.links it is {want}",
                          replay="from edgegraph.structure import *\nfrom edgegraph.traversal import helpers\nclass R(Vertex):\n    @property\n    def links(self): return tuple(reversed(super().links))\n"
                                 "a, b0, b1 = R(), Vertex(), Vertex()\nDirectedEdge(a, b0); UnDirectedEdge(b1, a)\nprint(helpers.neighbors(a) == [b1, b0])")
    # ---- object lifetime: caching on, a throw-away filter, then a new filter allocated where the dropped one lived (see C05 KEY-LIFETIME)
    from rules import c05
    for d_, u_ in (("ANY", "NEIGHBOR"), ("FORWARD", "NEIGHBOR")):
        try:
            got, a_, others_, links_, f2_ = c05.lifetime_scenario(h, True, d_, u_)
        except Unknown as u:
            res.undecide(f"filter lifetime {d_},{u_}: {u}")
            continue
        rows_ = [("DirectedEdge", "v1"), ("DirectedEdge", "v2"), ("SymTwo", "v1"), ("UnDirectedEdge", "v2")]
        want = [o.name for (cls_, pos_), o in zip(rows_, others_) if expected(KINDS[cls_], pos_, d_, u_, "accept") == "OE" and o is not others_[3]]
        ok = got == want
        res.ob(ok, sig=("lifetime", d_, u_))
        if not ok:
            res.violation("TABLE", FN, f"dir={d_},unknown={u_},caching-on,second-filter-allocated-where-the-first-one-lived",
                          f"caching on; neighbors(a, {d_}, {u_}, f1) with a throw-away filter, then neighbors(a, {d_}, {u_}, f2) with a new filter living at the dropped one's address returns {got}; "
                          f"the links for which f2(edge, other_end) is true give {want}")
    from rules import hist
    hist.run(ctx, res, 'C04')       # composition: histories through the public API against the reference model (rules/hist.py)
    from rules import scale
    scale.run(ctx, res, 'C04')      # the same on graphs whose collections have the sizes the tree names (rules/scale.py)
    common.vacuity(res, "HISTORY", 9000)
    common.vacuity(res, "TABLE", 900)
    res.explanation = ("Every abstract input class of neighbors() (540 single-link rows, their FORWARD/BACKWARD mirror images, and ordered pairs of "
                       "rows with selective filters) was evaluated on the current source under abstract semantics and compared with the table "
                       "transcribed from the statement; the for-loop over vert.links treats each link independently (composition rows), so the "
                       "table extends to link lists of any length.")


def classify(out: Outcome, other, a):
    if out.kind == "raise":
        return out.excname
    v = out.value
    if not isinstance(v, Seq):
        return f"non-list {v!r}"
    if len(v.items) == 0:
        return "nothing"
    if len(v.items) == 1 and v.items[0] is other:
        return "OE"
    return "list " + show(v)


def fresh_list(v, a):
    return True


def compose_ok(out, exps, others):
    want = []
    for e, o in zip(exps, others):
        alts = e if isinstance(e, set) else {e}
        if alts == {"NotImplementedError"}:
            return out.kind == "raise" and out.excname == "NotImplementedError"
        if "NotImplementedError" in alts:
            if out.kind == "raise":
                return out.excname == "NotImplementedError"
            e = "nothing"
        want += [o] if e == "OE" else []
    return out.kind == "return" and isinstance(out.value, Seq) and len(out.value.items) == len(want) and all(x is y for x, y in zip(out.value.items, want))


def derive_single(h, C, fn, cls, pos, d, uh, filt):
    """Derived contribution of one link (used by C09's relational check)."""
    h.reset()
    a, links, others = build(h, [(cls, pos)])
    cb = mkfilter(filt, h=h)
    out = h.call(fn, a, C[d], C[uh], cbval(cb))
    return classify(out, others[0], a)
