"""C11 - adjacency builders build exactly the described graph; bad input rejected whole.

Transformer equivalence by abstract evaluation against a reference builder on every adjacency input of a small scope
(dicts with <= 2 keys (3 thorough) x value lists of length <= 2 over the keys and one extra vertex; matrices of size 0..2 (3)
with truthy/falsy cells of several kinds and every malformed shape of those sizes), for three link types, on vertices that carry
prior links and universes.  Malformed matrices must raise ValueError with the heap unchanged.  The loop bodies do not depend on
position (uniformity), which extends the result to larger inputs."""
from __future__ import annotations
import itertools

from sa.harness import H, show
from sa.ae import Seq, DictV, Obj, Unknown, Tok, IterV, Raised
from rules import common

LEVEL = "exploration"
DICT_FN = "edgegraph.builder.adjlist.load_adj_dict"
MAT_FN = "edgegraph.builder.adjmatrix.load_adj_matrix"
LINKTYPES = ("DirectedEdge", "UnDirectedEdge", "SymTwo")


VCLASSES = ("Vertex", "SymFalsyVert", "Universe")      # plain; truth value False; universes named as vertices (a Universe is a Vertex)


def world(h, names, vcls="Vertex"):
    """vertices with prior structure: P = DirectedEdge(first, last), universe W = [first, last]."""
    h.reset()
    V = {n: h.new(vcls, n) for n in names}
    P = W = None
    if len(names) >= 2:
        P = h.new("DirectedEdge", "P", V[names[0]], V[names[-1]])
        try:
            W = h.new("Universe", "W", vertices=Seq([V[names[0]], V[names[-1]]], "list"))
        except Raised:
            W = None      # the prior universe cannot be built in this tree (C02 decides that); the builder is evaluated without it
    h.settle()
    return V, P, W


def set_caching(h, V, on):
    """Vertex.NEIGHBOR_CACHING := on; when on, every vertex is asked for its neighbours (the settings the read-back uses, and ANY) so that
    the build meets a warm memo on every vertex it touches."""
    h.fn("edgegraph.structure.vertex.Vertex").dict["NEIGHBOR_CACHING"] = bool(on)
    if on:
        from rules import c04
        nb, C = h.fn(c04.FN), c04.consts(h)
        for v in V.values():
            for d in ("FORWARD", "ANY", "BACKWARD"):
                h.w.steps = 0
                h.call(nb, v, C[d], C["NEIGHBOR"])


def flag(h, on):
    h.fn("edgegraph.structure.vertex.Vertex").dict["NEIGHBOR_CACHING"] = bool(on)


def snapshot(V, extra_links=()):
    st = {}
    for n, v in V.items():
        st[n] = {"links": [(l.cls.name, tuple(x.name if isinstance(x, Obj) else x for x in l.fields["_vertices"].items)) for l in v.fields["_links"].items],
                 "universes": [u.name for u in v.fields["_universes"].items]}
    return st


def run_warnings_as_errors(ctx):
    """a builder that a warning-turned-error ends has built nothing: the vertices it was given are as before ("rejected whole")"""
    res = ctx.res
    h = H(ctx.src, [DICT_FN.rsplit(".", 1)[0], MAT_FN.rsplit(".", 1)[0], "edgegraph.builder.explicit", "edgegraph.traversal.helpers"])
    fdict, fmat = h.fn(DICT_FN), h.fn(MAT_FN)
    k = 0
    names = ["a", "b", "c"]
    inputs = [("matrix", cell) for cell in itertools.product((0, 1), repeat=4)] + [("dict", rows) for rows in itertools.product(((), ("a",), ("b",), ("b", "a"), ("e",)), repeat=2)]
    for lt in LINKTYPES:
        for kind, data in inputs:
            try:
                if kind == "matrix":
                    V, P, W = world(h, names[:2])
                    pre = snapshot(V)
                    out = h.call(fmat, Seq([Seq(list(data[0:2]), "list"), Seq(list(data[2:4]), "list")], "list"), Seq([V["a"], V["b"]], "list"), h.cls(lt))
                else:
                    V, P, W = world(h, ["a", "b", "e"])
                    pre = snapshot(V)
                    out = h.call(fdict, DictV([[V[kk], Seq([V[x] for x in row], "list")] for kk, row in zip(("a", "b"), data)]), h.cls(lt))
            except Unknown as u:
                res.ob(False)
                res.undecide(f"builder ({kind}, {data}, {lt}) with warnings as errors: {u}")
                continue
            if not common.warned(out):
                continue
            k += 1
            post = snapshot(V)
            ok = post == pre
            res.ob(ok, sig=("warn", kind, data, lt))
            if not ok:
                res.violation("REJECT-WHOLE", MAT_FN if kind == "matrix" else DICT_FN, f"builder={kind},linktype={lt},raises-a-warning-category",
                              f"{'load_adj_matrix(' + str([list(data[0:2]), list(data[2:4])]) + ', [a, b]' if kind == 'matrix' else 'load_adj_dict({a: ' + str(list(data[0])) + ', b: ' + str(list(data[1])) + '}'}, {lt}) raises {out.excname} "
                              "after vertices were already touched: " + "; ".join(f"{n_}: {pre[n_]} -> {post[n_]}" for n_ in pre if pre[n_] != post[n_])[:300])
    res.rule("REJECT-WHOLE/warnings-as-errors", k)


def run_optimized(ctx):
    """the same obligations with the interpreter in -O mode (validation written as assert statements does nothing there)"""
    run(ctx)


def run(ctx):
    res = ctx.res
    res.level = LEVEL
    res.rule_text = ("load_adj_dict: every dict over keys (a[, b[, c]]) with value lists of length <= 2 over the keys + one extra vertex (self entries, repeated entries, values never used as "
                     "key, empty rows) x 3 link types; load_adj_matrix: every matrix of size 0..2 (3 thorough) over truthy/falsy cells, several truthy kinds, every malformed shape (short/long row, "
                     "wrong side-array length) x link types; vertices carry a prior link and a prior universe; compared with the reference builder; malformed => ValueError and unchanged heap")
    res.trusted_base = common.TRUSTED_AE + ["reference builder in rules/c11.py (transcribed from the statement)"]
    res.assumptions = ["dict keys / matrix side array hold Vertex objects", "reading the result back with neighbors()/find_links follows from the C04/C09 tables applied to the created links"]
    res.bounded_only = True
    h = H(ctx.src, [DICT_FN.rsplit(".", 1)[0], MAT_FN.rsplit(".", 1)[0], "edgegraph.builder.explicit", "edgegraph.traversal.helpers"])
    fdict, fmat = h.fn(DICT_FN), h.fn(MAT_FN)
    n = 0
    # ---------------- load_adj_dict
    keysets = [("a",), ("a", "b")] + ([("a", "b", "c")] if ctx.thorough else [])
    nrow = 0
    for keys in keysets:
        verts = list(keys) + ["e"]
        lists = [()] + [t for k in (1, 2) for t in itertools.product(verts, repeat=k)]
        if len(keys) == 3:
            lists = [()] + [t for k in (1, 2) for t in itertools.product(verts, repeat=k) if k == 1 or t[0] != t[1] or t[0] == "a"]
        for rows in itertools.product(lists, repeat=len(keys)):
            combos = [(lt, "Vertex") for lt in (LINKTYPES if len(keys) < 3 else ("DirectedEdge",))]
            if len(keys) < 3:
                nrow += 1
                combos.append((LINKTYPES[nrow % 3], VCLASSES[1 + nrow % 2]))
            if len(keys) == 1:
                combos.append((LINKTYPES[nrow % 3], "EqVert"))      # the key and the extra vertex are distinct objects that compare equal
            if len(keys) < 3 and nrow % 4 == 1:
                combos.append((("RoadLink", "FixedEndsEdge")[nrow % 8 == 1], "Vertex"))     # user edge classes: other constructor parameter names / ends fixed at construction
            if len(keys) < 3:
                combos.append((LINKTYPES[(nrow + 1) % 3], "Vertex", True))     # caching on, every vertex asked for its neighbours before the build
                if nrow % 2 == 0:
                    combos.append((LINKTYPES[(nrow + 2) % 3], "Vertex", "off-during-build"))     # memo warmed with caching on, flag off while the builder runs, on again for the read-back
            for lt, vcls, *warm in combos:
                if len(keys) == 2 and lt != "DirectedEdge" and (len(rows[0]) + len(rows[1])) > 3 and vcls == "Vertex" and not warm:
                    continue
                try:
                    V, P, W = world(h, verts, vcls)
                    set_caching(h, V, bool(warm))
                    one_shot = lt == "DirectedEdge" and (len(rows[0]) + len(keys)) % 2 == 0     # rows given as one-shot iterators (the docstring allows any iterable)
                    adj = DictV([[V[k], (IterV([V[x] for x in row]) if one_shot else Seq([V[x] for x in row], "list"))] for k, row in zip(keys, rows)])
                    pre = snapshot(V)
                    if warm == ["off-during-build"]:
                        flag(h, False)
                    out = h.call(fdict, adj, h.cls(lt))
                    if warm == ["off-during-build"]:
                        flag(h, True)
                except Unknown as u:
                    res.ob(False)
                    res.undecide(f"{DICT_FN} keys={keys} rows={rows} {lt}: {u}")
                    continue
                n += 1
                want_members, want = [], {k: {"links": list(v["links"]), "universes": list(v["universes"])} for k, v in pre.items()}
                for k, row in zip(keys, rows):
                    if k not in want_members:
                        want_members.append(k)
                    for x in row:
                        want[k]["links"].append((lt, (k, x)))
                        if x != k:
                            want[x]["links"].append((lt, (k, x)))
                        if x not in want_members:
                            want_members.append(x)
                why = compare(out, V, want, want_members, h, links_only=(vcls == "EqVert")) or readback(h, V, want, lt) or (prior_universe(W, verts) if vcls != "EqVert" else None)
                res.ob(why is None, sig=("dict", keys, rows, lt, vcls, tuple(warm)), sample={"builder": "load_adj_dict", "adjacency": {k: list(r) for k, r in zip(keys, rows)}, "linktype": lt})
                if why:
                    feats = ("caching-on-warm," if warm else "") + ("flag-off-during-build," if warm == ["off-during-build"] else "") + ("rows-are-iterators," if one_shot else "") + (f"vertex-class={vcls}," if vcls != "Vertex" else "") + f"empty-row={any(len(r) == 0 for r in rows)},self-entry={any(k in r for k, r in zip(keys, rows))},repeated-entry={any(len(set(r)) < len(r) for r in rows)},value-not-a-key={any('e' in r for r in rows)}"
                    res.violation("BUILD-DICT", DICT_FN, feats, f"load_adj_dict({{{', '.join(k + ': ' + str(list(r)) for k, r in zip(keys, rows))}}}, {lt}) on {vcls} objects" + (" with Vertex.NEIGHBOR_CACHING on and neighbors() of every vertex asked before the build" if warm else "") + f": {why}", replay=replay_dict(keys, rows, lt, bool(warm)))
    # ---------------- a row names something that is not a vertex: however the call ends, no link exists that is not a complete link of a
    # listed pair ("exactly one new link ... per listed pair"), and a later build on the same vertices reads back normally
    nj = 0
    JUNK = "not-a-vertex"
    for lt in LINKTYPES:
        for adjn in ([("a", ["b", JUNK])], [("a", [JUNK])], [("a", [JUNK, "b"])], [("a", ["b"]), ("b", ["a", JUNK, "e"])], [("a", ["a", JUNK])]):
            try:
                V, P, W = world(h, ["a", "b", "e"])
                set_caching(h, V, False)
                pre = snapshot(V)
                out = h.call(fdict, DictV([[V[k], Seq([V.get(x, x) for x in row], "list")] for k, row in adjn]), h.cls(lt))
                post = snapshot(V)
            except Unknown as u:
                res.ob(False)
                res.undecide(f"{DICT_FN} with a non-vertex entry {adjn} {lt}: {u}")
                continue
            nj += 1
            why = None
            if out.kind == "raise":
                pairs = []
                for k, row in adjn:
                    stop = False
                    for x in row:
                        if x == JUNK:
                            stop = True
                            break
                        pairs.append((k, x))
                    if stop:
                        break
                states = []
                for cut in range(len(pairs) + 1):
                    w_ = {k: {"links": list(v["links"]), "universes": list(v["universes"])} for k, v in pre.items()}
                    for p_, q_ in pairs[:cut]:
                        w_[p_]["links"].append((lt, (p_, q_)))
                        if q_ != p_:
                            w_[q_]["links"].append((lt, (p_, q_)))
                    states.append({k: v["links"] for k, v in w_.items()})
                got = {k: v["links"] for k, v in post.items()}
                if got not in states:
                    why = (f"the call raises {out.excname} and leaves " + "; ".join(f"{k}.links = {got[k]}" for k in got if got[k] != states[-1][k] or got[k] != states[0][k])[:300]
                           + " - not the links of the pairs listed before the offending entry (nor of a prefix of them)")
                else:
                    # the caller catches the exception and builds again on the same vertices
                    want = {k: {"links": list(v["links"]), "universes": list(v["universes"])} for k, v in post.items()}
                    want["a"]["links"].append((lt, ("a", "e")))
                    want["e"]["links"].append((lt, ("a", "e")))
                    try:
                        out2 = h.call(fdict, DictV([[V["a"], Seq([V["e"]], "list")]]), h.cls(lt))
                        why = compare(out2, V, want, ["a", "e"], h, links_only=True) or readback(h, V, want, lt)
                    except Unknown as u:
                        res.ob(False)
                        res.undecide(f"{DICT_FN} after a rejected non-vertex entry {adjn} {lt}: {u}")
                        continue
                    if why:
                        why = f"the call raises {out.excname}; a later load_adj_dict({{a: [e]}}, {lt}) on the same vertices: {why}"
            res.ob(why is None, sig=("non-vertex-entry", tuple((k, tuple(r)) for k, r in adjn), lt))
            if why:
                res.violation("BUILD-DICT", DICT_FN, f"non-vertex-entry,position={[r.index(JUNK) for k, r in adjn if JUNK in r][0]},rows={len(adjn)}",
                              f"load_adj_dict({{{', '.join(k + ': ' + str(r) for k, r in adjn)}}}, {lt}): {why}",
                              replay="from edgegraph.structure import *\nfrom edgegraph.builder.adjlist import load_adj_dict\na, b, e = Vertex(), Vertex(), Vertex()\ntry:\n    load_adj_dict({a: [b, 'not-a-vertex']}, " + (lt if lt != "SymTwo" else "DirectedEdge") + ")\nexcept Exception as x: print(type(x))\nprint([(type(l).__name__, l.vertices) for l in a.links])")
    n += nj
    res.rule("BUILD-DICT", n)
    # ---------------- load_adj_matrix
    m = 0
    truthy = [True, 1, Tok(5, "weight"), "x", 2.5]
    sizes = (0, 1, 2, 3) if ctx.thorough else (0, 1, 2)
    for size in sizes:
        names = ["a", "b", "c"][:size] if size else []
        cells = list(itertools.product((0, 1), repeat=size * size))
        if size == 3:
            cells = [c for i, c in enumerate(cells) if i % 7 == 0 or sum(c) in (1, 8, 9)]
        for ci, cell in enumerate(cells):
            combos = [(lt, "Vertex") for lt in (LINKTYPES if size <= 2 and ci % 3 == 0 else ("DirectedEdge",))]
            if size <= 2 or ci % 5 == 0:
                combos.append((LINKTYPES[ci % 3], VCLASSES[1 + ci % 2]))
            if size == 2 or (size == 3 and ci % 5 == 0):
                combos.append((LINKTYPES[(ci + 1) % 3], "EqVert"))
            if size == 2 and ci % 3 == 1:
                combos.append((("RoadLink", "FixedEndsEdge")[ci % 2], "Vertex"))
            if size in (1, 2):
                combos.append((LINKTYPES[(ci + 2) % 3], "Vertex", True))
                if ci % 2 == 0:
                    combos.append((LINKTYPES[ci % 3], "Vertex", "off-during-build"))
            for lt, vcls, *warm in combos:
                try:
                    V, P, W = world(h, names + ["e"], vcls)
                    set_caching(h, V, bool(warm))
                    rows = [[(truthy[(ci + i + j) % len(truthy)] if cell[i * size + j] else (0 if (i + j) % 2 else None)) for j in range(size)] for i in range(size)]
                    kind = "tuple" if ci % 2 else "list"     # rows / side array given as tuples are as good as lists
                    mat = Seq([Seq(r, kind) for r in rows], kind)
                    vs = Seq([V[x] for x in names], kind)
                    pre = snapshot(V)
                    if warm == ["off-during-build"]:
                        flag(h, False)
                    out = h.call(fmat, mat, vs, h.cls(lt))
                    if warm == ["off-during-build"]:
                        flag(h, True)
                except Unknown as u:
                    res.ob(False)
                    res.undecide(f"{MAT_FN} size={size} cells={cell} {lt}: {u}")
                    continue
                m += 1
                want = {k: {"links": list(v["links"]), "universes": list(v["universes"])} for k, v in pre.items()}
                for i in range(size):
                    for j in range(size):
                        if cell[i * size + j]:
                            a, b = names[i], names[j]
                            want[a]["links"].append((lt, (a, b)))
                            if a != b:
                                want[b]["links"].append((lt, (a, b)))
                why = compare(out, V, want, list(names), h, links_only=(vcls == "EqVert")) or readback(h, V, want, lt)
                why = why or (prior_universe(W, names + ["e"]) if vcls != "EqVert" else None)
                res.ob(why is None, sig=("matrix", size, cell, lt, vcls, tuple(warm)), sample={"builder": "load_adj_matrix", "cells": [list(cell[i * size:(i + 1) * size]) for i in range(size)], "linktype": lt})
                if why:
                    res.violation("BUILD-MATRIX", MAT_FN, f"size={size},diagonal={any(cell[i * size + i] for i in range(size))}" + (f",vertex-class={vcls}" if vcls != "Vertex" else "") + (",caching-on-warm" if warm else ""), f"load_adj_matrix(size {size}, truthy cells {cell}, {lt}) on {vcls} objects" + (" with Vertex.NEIGHBOR_CACHING on and neighbors() of every vertex asked before the build" if warm else "") + f": {why}", replay=replay_mat(size, cell, lt))
    # malformed shapes
    for size in (1, 2, 3):
        names = ["a", "b", "c"][:size]
        shapes = []
        for bad_row in range(size):
            for delta in (-1, 1):
                shapes.append(("row", bad_row, delta))
        shapes += [("side", None, -1), ("side", None, 1)]
        if size >= 2:
            # two malformed rows whose lengths add up to the right total (one cell too many, one too few)
            shapes += [("rows-cancel", (0, size - 1), 1), ("rows-cancel", (size - 1, 0), 1)]
        shapes = [(k_, b_, d_, "list") for k_, b_, d_ in shapes] + [(k_, b_, d_, "tuple") for k_, b_, d_ in shapes if k_ == "row"]      # rows given as lists / as tuples
        for kind, bad_row, delta, rowform in shapes:
            try:
                V, P, W = world(h, names + ["e"])
                set_caching(h, V, False)
                rows = [[1] * size for _ in range(size)]
                vnames = list(names)
                if kind == "rows-cancel":
                    rows[bad_row[0]] = [1] * (size + 1)
                    rows[bad_row[1]] = [1] * (size - 1)
                elif kind == "row":
                    rows[bad_row] = [1] * (size + delta)
                else:
                    vnames = names[:size + delta] if delta < 0 else names + ["e"]
                mat = Seq([Seq(r, rowform) for r in rows], rowform)
                vs = Seq([V[x] for x in vnames], "list")
                pre = snapshot(V)
                out = h.call(fmat, mat, vs)
            except Unknown as u:
                res.ob(False)
                res.undecide(f"{MAT_FN} malformed {kind} {bad_row} {delta}: {u}")
                continue
            m += 1
            post = snapshot(V)
            why = None
            if not (out.kind == "raise" and out.excname == "ValueError"):
                why = f"gives {out!r}, ValueError required"
            elif post != pre:
                why = "ValueError raised after vertices were already touched: " + "; ".join(f"{k}: {pre[k]} -> {post[k]}" for k in pre if pre[k] != post[k])[:300]
            elif [o for o in h.w.alloc if isinstance(o, Obj) and "_vertices" in o.fields and o.fields["_vertices"].items and o.cls.name != "Universe" and not o.cls.name.endswith("Laws")]:
                pass
            res.ob(why is None, sig=("malformed", size, kind, bad_row, delta, rowform))
            if why:
                res.violation("REJECT-WHOLE", MAT_FN, f"malformed={kind},bad-row-is-first={bad_row == 0}" + (",rows-are-tuples" if rowform == "tuple" else ""), f"matrix of side {size} with {'row ' + str(bad_row) + ' of length ' + str(size + delta) if kind == 'row' else ('rows ' + str(bad_row) + ' one cell too long / too short' if kind == 'rows-cancel' else 'side array of length ' + str(size + delta))}: {why}",
                              replay=f"from edgegraph.structure import *\nfrom edgegraph.builder.adjmatrix import load_adj_matrix\nvs = [Vertex() for _ in range({size})]\nm = [[1]*{size} for _ in range({size})]\n" + (f"m[{bad_row}] = [1]*{size + delta}\n" if kind == "row" else (f"m[{bad_row[0]}] = [1]*{size + 1}; m[{bad_row[1]}] = [1]*{size - 1}\n" if kind == "rows-cancel" else f"vs = vs[:{size + delta}] if {delta} < 0 else vs + [Vertex()]\n")) + "try:\n    load_adj_matrix(m, vs)\nexcept ValueError: pass\nprint([v.universes for v in vs])")
    res.rule("BUILD-MATRIX", m)
    # ---------------- sizes the tree names (and a default one beyond the small scope): a key with n listed neighbours, n keys (some
    # with empty rows, one named by nobody), an n x n matrix with a full first row - a builder or a query underneath that switches
    # path once a collection passes some size
    k = 0
    for size in common.scale_sizes(ctx, res):
        if size > common.HUB_CAP + 1:
            continue
        names = [f"v{i}" for i in range(size + 1)]
        for lt in ("DirectedEdge", "UnDirectedEdge"):
            for shape in ("wide-row", "many-keys", "matrix"):
                try:
                    V, P, W = world(h, names)
                    set_caching(h, V, False)
                    pre = snapshot(V)
                    h.w.steps = 0
                    h.w.step_budget = max(h.w.step_budget, 4000 * size + 400000)       # an n x n matrix costs n * n steps and more
                    want_members, want = [], {kk: {"links": list(v["links"]), "universes": list(v["universes"])} for kk, v in pre.items()}
                    if shape == "matrix":
                        side = names[:size]
                        rows_ = [[1 if (i == 0 or j == (i + 1) % size or (i == j and i % 3 == 1)) else 0 for j in range(size)] for i in range(size)]
                        out = h.call(fmat, Seq([Seq(list(r), "list") for r in rows_], "list"), Seq([V[x] for x in side], "list"), h.cls(lt))
                        pairs = [(side[i], side[j]) for i in range(size) for j in range(size) if rows_[i][j]]
                        want_members = list(side)
                    else:
                        if shape == "wide-row":
                            adjn = [(names[0], names[1:size + 1])] + [(names[1], [names[0]])]      # v0 lists n neighbours; v1 points back
                        else:
                            # n keys; every third row is empty and its key is named by nobody else; the others name the key three further on
                            adjn = [(names[i], ([names[(i + 3) % size]] if i % 3 else [])) for i in range(size)]
                        out = h.call(fdict, DictV([[V[kk], Seq([V[x] for x in row], "list")] for kk, row in adjn]), h.cls(lt))
                        pairs = [(kk, x) for kk, row in adjn for x in row]
                        for kk, row in adjn:
                            for x in [kk] + list(row):
                                if x not in want_members:
                                    want_members.append(x)
                    for p_, q_ in pairs:
                        want[p_]["links"].append((lt, (p_, q_)))
                        if q_ != p_:
                            want[q_]["links"].append((lt, (p_, q_)))
                except Unknown as u:
                    res.ob(False)
                    res.undecide(f"builders at size {size} ({shape}, {lt}): {u}")
                    continue
                k += 1
                sample = None if size <= 16 else set(names[:4] + names[size // 2:size // 2 + 2] + names[-3:])
                try:
                    why = compare(out, V, want, want_members, h) or readback(h, V, want, lt, only=sample) or prior_universe(W, names)
                except Unknown as u:
                    res.ob(False)
                    res.undecide(f"builders at size {size} ({shape}, {lt}), reading the result back: {u}")
                    continue
                res.ob(why is None, sig=("scale", size, shape, lt))
                if why:
                    res.violation("BUILD-SCALE", MAT_FN if shape == "matrix" else DICT_FN, f"shape={shape},size={size},linktype={lt}",
                                  {"wide-row": f"load_adj_dict with one key listing {size} neighbours (and one of them pointing back)", "many-keys": f"load_adj_dict with {size} keys, every third row empty and its key named by no other row",
                                   "matrix": f"load_adj_matrix with a {size} x {size} matrix (full first row, a ring, some self-entries)"}[shape] + f", {lt}: {why}")
    res.rule("BUILD-SCALE", k)
    from rules import structural
    structural.validate_first(ctx, MAT_FN)
    common.vacuity(res, "BUILD-DICT", 200)
    common.vacuity(res, "BUILD-MATRIX", 40)
    res.analysed = common.analysed(ctx, [DICT_FN, MAT_FN, "edgegraph.builder.explicit.link_from_to"])
    res.explanation = "Bounded exhaustive abstract evaluation of both builders against the reference builder; every mismatch is a concrete input."


def readback(h, V, want, lt, only=None):
    """Reading the result back with neighbors() reproduces the input adjacency (its symmetric closure for an undirected type).
    only: the vertices whose answers are read (all when None; the big inputs of the scale rows read a sample)."""
    from rules import c04
    nb = h.fn(c04.FN)
    fl = h.fn("edgegraph.traversal.helpers.find_links")
    C = c04.consts(h)
    for n, v in V.items():
        if only is not None and n not in only:
            continue
        h.w.steps = 0
        exp = []
        for cls, (p, q) in want[n]["links"]:
            if cls == "UnDirectedEdge" or cls == "SymTwo":
                exp.append(q if p == n else p)
            elif p == n:
                exp.append(q)
        out = h.call(nb, v, C["FORWARD"], C["NEIGHBOR"])
        got = [x.name for x in out.value.items] if out.kind == "return" else repr(out)
        if got != exp:
            return f"reading back neighbors({n}) gives {got}, the input adjacency (plus prior links) gives {exp}"
        for m_, w in V.items():
            if only is not None and m_ not in only and m_ not in exp:
                continue
            h.w.steps = 0
            fo = h.call(fl, v, w, True, C["NEIGHBOR"])
            cnt = len(fo.value.items) if fo.kind == "return" and hasattr(fo.value, "items") else repr(fo)
            if cnt != exp.count(m_):
                return f"find_links({n}, {m_}) finds {cnt} link(s), the input adjacency (plus prior links) lists {m_} {exp.count(m_)} time(s) for {n}"
    return None


def prior_universe(W, names_):
    """pre-existing universes stay in place: W = [first, last] as built by world()"""
    if W is None:
        return None
    got = [x.name for x in W.fields["_vertices"].items]
    want = [names_[0], names_[-1]]
    return None if got == want else f"the pre-existing universe W now lists {got}, it listed {want}"


def compare(out, V, want, want_members, h, links_only=False):
    """links_only: the vertices are distinct objects of a user class with value equality; which of them a universe lists is the
    user's own doing (membership tests compare by ==), the created links are not."""
    if out.kind != "return":
        return f"raises {out.excname}"
    u = out.value
    if not (isinstance(u, Obj) and u.cls.issub(h.cls("Universe"))):
        return f"returns {out!r}"
    u.name = "new-universe"
    members = [x.name for x in u.fields["_vertices"].items]
    if members != want_members and not links_only:
        return f"universe members {members}, expected {want_members} (first-mention / side-array order)"
    post = snapshot(V)
    for n in V:
        exp_unis = want[n]["universes"] + (["new-universe"] if n in want_members else [])
        if post[n]["universes"] != exp_unis and not links_only:
            return f"{n}.universes = {post[n]['universes']}, expected {exp_unis}"
        if post[n]["links"] != want[n]["links"]:
            return f"{n}.links = {post[n]['links']}, expected {want[n]['links']}"
    return None


def replay_dict(keys, rows, lt, warm=False):
    names = sorted(set(keys) | {x for r in rows for x in r} | {"e"})
    return "\n".join(["from edgegraph.structure import *", "from edgegraph.structure import TwoEndedLink", "from edgegraph.builder.adjlist import load_adj_dict", "class SymTwo(TwoEndedLink): pass",
                      f"{', '.join(names)} = {', '.join('Vertex()' for _ in names)}",
                      *(["from edgegraph.traversal import helpers", "Vertex.NEIGHBOR_CACHING = True", f"[helpers.neighbors(x, d) for x in ({', '.join(names)},) for d in (helpers.DIR_SENS_FORWARD, helpers.DIR_SENS_ANY, helpers.DIR_SENS_BACKWARD)]"] if warm else []),
                      "adj = {" + ", ".join(f"{k}: [{', '.join(r)}]" for k, r in zip(keys, rows)) + "}",
                      f"u = load_adj_dict(adj, {lt})", f"print([x in u.vertices for x in ({', '.join(names)},)], [len(x.links) for x in ({', '.join(names)},)])"])


def replay_mat(size, cell, lt):
    return "\n".join(["from edgegraph.structure import *", "from edgegraph.builder.adjmatrix import load_adj_matrix", f"vs = [Vertex() for _ in range({size})]",
                      f"m = {[list(cell[i * size:(i + 1) * size]) for i in range(size)]}", "u = load_adj_matrix(m, vs)", "print(u.vertices == vs, [[(l.v1 is vs[i], l.v2) for l in vs[i].links] for i in range(len(vs))])"])
