"""C14 - PlantUML source shows each member vertex and each internal link once, oriented.

render_to_plantuml_src is evaluated abstractly on symbolic strings (titles are opaque atoms: hex(id(v)) or the formatted
title).  The derived text is split into lines; declaration headers and relation lines are recognised by their literal skeleton
and compared, as multisets, with what the statement requires.  The expected arrow ends / declaration types are computed by the
harness from the option table through the nearest configured class along the MRO (the specified rule), not by the code."""
from __future__ import annotations
import itertools

from sa.harness import H, show
from sa.ae import UserStr, Seq, DictV, SymStr, SAtom, Obj, Unknown, Raised, ClassV, Callback, mkstr
from rules import common
from rules.c16 import split_lines

LEVEL = "proof"
FN = "edgegraph.output.plantuml.render_to_plantuml_src"
SRC = '''
from edgegraph.structure import Vertex, DirectedEdge, UnDirectedEdge, TwoEndedLink
class SymVert(Vertex): pass
class Server(Vertex): pass
class Router(Vertex): pass
class Gateway(Server, Router): pass
class SymDir(DirectedEdge): pass
class SymUnd(UnDirectedEdge): pass
class Cable(DirectedEdge): pass
class Fibre(DirectedEdge): pass
class Trunk(Cable, Fibre): pass
class FalsyV(Vertex):
    """an empty container vertex: its truth value is False"""
    def __len__(self):
        return 0
'''

# scenario: (universe members, outside, [(link class, v1, v2)], vertex classes, option table variant)
SCENARIOS = {
    "one-directed": (["a", "b"], [], [("DirectedEdge", "a", "b")], {}, "default"),
    "one-undirected": (["a", "b"], [], [("UnDirectedEdge", "b", "a")], {}, "default"),
    "isolated-vertex": (["a", "b"], [], [], {}, "default"),
    "self-loop": (["a"], [], [("DirectedEdge", "a", "a")], {}, "default"),
    "parallel-same": (["a", "b"], [], [("DirectedEdge", "a", "b"), ("DirectedEdge", "a", "b")], {}, "default"),
    "parallel-mixed": (["a", "b"], [], [("DirectedEdge", "a", "b"), ("DirectedEdge", "b", "a"), ("UnDirectedEdge", "a", "b")], {}, "default"),
    "repeated-self-loops": (["a", "b"], [], [("UnDirectedEdge", "a", "a"), ("UnDirectedEdge", "a", "a"), ("DirectedEdge", "b", "a")], {}, "default"),
    "subclasses-default-table": (["a", "b", "c"], [], [("SymDir", "a", "b"), ("SymUnd", "b", "c")], {"a": "SymVert"}, "default"),
    "subclass-configured": (["a", "b"], [], [("SymDir", "a", "b"), ("DirectedEdge", "b", "a")], {"a": "SymVert"}, "subclass"),
    "multiple-inheritance": (["a", "b"], [], [("Trunk", "a", "b"), ("Cable", "b", "a")], {"a": "Gateway", "b": "Server"}, "secondary-base"),
    "link-leaves-universe": (["a", "b"], ["x"], [("DirectedEdge", "a", "b"), ("DirectedEdge", "a", "x")], {}, "default"),
    "title-format": (["a", "b"], [], [("DirectedEdge", "a", "b")], {}, "title-format"),
    "title-format-property": (["a", "b"], [], [("DirectedEdge", "a", "b"), ("UnDirectedEdge", "b", "b")], {}, "title-format-property"),
    "subclass-with-its-own-title": (["a", "b", "c"], [], [("DirectedEdge", "b", "a"), ("DirectedEdge", "a", "b"), ("UnDirectedEdge", "c", "a"), ("DirectedEdge", "a", "a")], {"a": "SymVert", "c": "SymVert"}, "subclass-title"),
    "title-format-with-empty-show-attrs": (["a", "b"], [], [("DirectedEdge", "a", "b")], {}, "title-format-empty-show-attrs"),
    # the title is formatted from an attribute whose value is callable (a class, a function): {tag.__name__}_{name}
    "title-format-from-a-callable-attribute": (["a", "b"], [], [("DirectedEdge", "a", "b"), ("UnDirectedEdge", "b", "a")], {}, "title-format-callable"),
    # the links themselves belong to a universe of their own (links are graph objects too); they still join two members of U
    "links-in-another-universe": (["a", "b", "c"], [], [("DirectedEdge", "a", "b"), ("UnDirectedEdge", "b", "c"), ("DirectedEdge", "c", "c")], {}, "default"),
    "falsy-vertices": (["a", "b", "c"], [], [("DirectedEdge", "a", "b"), ("UnDirectedEdge", "c", "a"), ("DirectedEdge", "c", "c")], {"a": "FalsyV", "c": "FalsyV"}, "default"),
}


def options(h, g, variant):
    base = h.w.mods["edgegraph.output.plantuml"].globals.get("PLANTUML_RENDER_OPTIONS")
    if not isinstance(base, DictV):
        raise Unknown("PLANTUML_RENDER_OPTIONS is not a literal dict")
    opts = DictV()
    for k, v in base.pairs:
        opts.pairs.append([k, DictV([[kk, (DictV(vv.pairs) if isinstance(vv, DictV) else (Seq(list(vv.items), vv.kind) if isinstance(vv, Seq) else vv))] for kk, vv in v.pairs]) if isinstance(v, DictV) else v])

    def vert_cfg(typ):
        # the caller's own option strings: equal to the tree's constants, not the same objects
        return DictV([["type", UserStr(typ)], ["show_attrs", Seq([UserStr("nomatch_.+")], "list")], ["title_format", UserStr("$id")]])

    if variant == "subclass":
        opts.pairs.append([g["SymVert"], vert_cfg("class")])
        opts.pairs.append([g["SymDir"], DictV([["v1side", "o"], ["v2side", ">>"]])])
    elif variant == "secondary-base":
        opts.pairs.append([g["Router"], vert_cfg("node")])
        opts.pairs.append([g["Fibre"], DictV([["v1side", "*"], ["v2side", "#"]])])
    elif variant == "title-format":
        for k, v in opts.pairs:
            if k is g["Vertex"]:
                for p in v.pairs:
                    if p[0] == "title_format":
                        p[1] = "T_{name}"
                    if p[0] == "show_attrs":
                        p[1] = Seq(["name"], "list")
    elif variant == "subclass-title":
        # the subclass is configured with a title format of its own; the base class keeps the default ($id)
        cfg = vert_cfg("class")
        for p in cfg.pairs:
            if p[0] == "title_format":
                p[1] = "S_{name}"
            if p[0] == "show_attrs":
                p[1] = Seq(["name"], "list")
        opts.pairs.append([g["SymVert"], cfg])
    elif variant == "title-format-empty-show-attrs":
        for k, v in opts.pairs:
            if k is g["Vertex"]:
                for p in v.pairs:
                    if p[0] == "title_format":
                        p[1] = "T_{name}"
                    if p[0] == "show_attrs":
                        p[1] = Seq([], "list")
    elif variant == "title-format-callable":
        for k, v in opts.pairs:
            if k is g["Vertex"]:
                for p in v.pairs:
                    if p[0] == "title_format":
                        p[1] = "{tag.__name__}_{name}"
                    if p[0] == "show_attrs":
                        p[1] = Seq(["name", "tag"], "list")
    elif variant == "title-format-property":
        # the title is formatted from an attribute that is a property of the class (uid), not a dynamic instance attribute
        for k, v in opts.pairs:
            if k is g["Vertex"]:
                for p in v.pairs:
                    if p[0] == "title_format":
                        p[1] = "{uid}"
                    if p[0] == "show_attrs":
                        p[1] = Seq(["uid"], "list")
    return opts


def nearest(opts, cls):
    for c in cls.mro:
        for k, v in opts.pairs:
            if k is c:
                return v
    return None


def dget(d, key, default=None):
    for k, v in d.pairs:
        if k == key:
            return v
    return default


def run(ctx):
    res = ctx.res
    res.rule_text = ("render_to_plantuml_src evaluated on symbolic strings over universes with directed/undirected/self-loop/parallel/mixed links, vertex and edge subclasses (incl. multiple "
                     "inheritance), a link leaving the universe, default and custom option tables and a custom title format; recognised declaration headers and relation lines compared as "
                     "multisets with the specified ones; empty universe -> None")
    res.trusted_base = common.TRUSTED_AE + ["line recognition by literal skeleton: `<type> <title> <<Class>> {` and `<title> <v1side>--<v2side> <title>`"]
    res.assumptions = ["titles are valid PlantUML identifiers (depends on user format strings)", "user_render_func output and render_to_image are outside the statement",
                       "a relation line for a link with an end outside the universe is neither required nor forbidden"]
    h = H(ctx.src, ["edgegraph.output.plantuml"])
    h.w.set_order = "insertion"
    h.w.unordered_sort_ok = True
    fn = h.fn(FN)
    n = 0
    g0 = h.w.load_text("verif_c14", SRC).globals     # the harness classes persist across scenarios
    h.w.snapshot()
    runs = [(name, True) for name in SCENARIOS]
    # second pass: consecutive renders in one interpreter state (no reset of module-level state between them), option tables
    # ordered from the default to the more specific ones - a render must not depend on what an earlier render configured
    order = ["subclasses-default-table", "subclass-configured", "multiple-inheritance", "one-directed", "title-format", "subclasses-default-table"]
    runs += [(name, False) for name in order]
    for name, fresh in runs:
        members, outside, links, vclasses, variant = SCENARIOS[name]
        try:
            if fresh:
                h.reset()
            g = dict(g0)
            g.update({k: h.S[k] for k in ("Vertex", "DirectedEdge", "UnDirectedEdge")})
            V = {}
            for v in members + outside:
                V[v] = h.I.call(g[vclasses.get(v, "Vertex")], [], {"attributes": DictV([["name", v]] + ([["tag", g["DirectedEdge"]]] if variant == "title-format-callable" else []))})
                V[v].name = v
            L = []
            for i, (lc, p, q) in enumerate(links):
                l = h.I.call(g[lc], [V[p], V[q]], {})
                l.name = f"L{i}"
                L.append(l)
            U = h.new("Universe", "U", vertices=Seq([V[v] for v in members], "list"))
            if name == "links-in-another-universe":
                P = h.new("Universe", "P", vertices=Seq([L[0], L[2]], "list"))      # ... through the constructor
                r_ = h.call(h.I.getattr(P, "add_vertex"), L[1])                      # ... and through add_vertex
                if r_.kind != "return":
                    raise Unknown(f"a link cannot join a universe: {r_!r}")
            opts = options(h, g, variant)
            h.settle()
            out = h.call(fn, U, opts)
        except Unknown as u:
            res.ob(False)
            res.undecide(f"{FN} scenario {name}: {u}")
            continue
        n += 1
        why = check(h, out, members, outside, links, V, L, opts, variant)
        res.ob(why is None, sig=(name, fresh), sample={"scenario": name, "members": members, "links": links, "options": variant, "after_earlier_renders": not fresh})
        if why:
            res.violation("PUML", FN, f"scenario={name}" + ("" if fresh else ",after-earlier-renders-with-other-option-tables"), f"scenario {name} (members {members}, links {links}, option table {variant}): {why}", replay=replay(name))
    # empty universe
    h.reset()
    U = h.new("Universe", "U")
    h.settle()
    try:
        out = h.call(fn, U, DictV())
        ok = out.kind == "return" and out.value is None
        n += 1
        res.ob(ok, sig=("empty",))
        if not ok:
            res.violation("PUML", FN, "scenario=empty-universe", f"empty universe gives {out!r}, None required")
    except Unknown as u:
        res.undecide(f"{FN} on an empty universe: {u}")
    res.rule("PUML", n)
    resolve_rule(ctx, h, res)
    from rules import hist
    hist.run(ctx, res, 'C14', extra=('rules.histobs', 'puml'))       # composition: histories through the public API against the reference model (rules/hist.py)
    from rules import scale
    scale.run(ctx, res, 'C14', extra=('rules.histobs', 'puml'))      # the same on graphs whose collections have the sizes the tree names (rules/scale.py)
    common.vacuity(res, "HISTORY", 250)
    common.vacuity(res, "PUML", 19)
    res.analysed = common.analysed(ctx, [FN, "edgegraph.output.plantuml._one_link_to_puml", "edgegraph.output.plantuml._one_vert_to_puml", "edgegraph.output.plantuml._resolve_options", "edgegraph.output.plantuml._vertex_title"])
    res.explanation = ("In every scenario the derived text declares each member once under its configured title and type and contains exactly one correctly oriented relation line per internal "
                       "link; the declaration loop and the relation loop treat every element alike, which extends the result to universes of any size.")


def title_atom(line_part):
    return line_part.key() if hasattr(line_part, "key") else None


def check(h, out, members, outside, links, V, L, opts, variant):
    if out.kind != "return" or not isinstance(out.value, (str, SymStr)):
        return f"gives {out!r}"
    lines = [l for l in split_lines(out.value)]
    flat = [l for l in lines if l]
    if not flat or flat[0] != ["@startuml"]:
        return f"text does not start with @startuml: {flat[:1]}"
    if flat[-1] != ["@enduml"]:
        return f"text does not end with @enduml: {flat[-1:]}"
    # titles as the code renders them: single atom per vertex (hex id or formatted)
    decl, rel = [], []
    typewords = {str(dget(v, "type")) for k, v in opts.pairs if isinstance(v, DictV) and dget(v, "type") is not None}
    for l in flat[1:-1]:
        atoms = [p for p in l if not isinstance(p, str)]
        if len(atoms) == 2 and any(isinstance(x, str) and "--" in x for x in l):
            # a relation line: two titles with an arrow between them (whatever surrounds them)
            i0 = next(i for i, x in enumerate(l) if not isinstance(x, str))
            i1 = next(i for i, x in enumerate(l) if not isinstance(x, str) and i > i0)
            mid = "".join(x for x in l[i0 + 1:i1] if isinstance(x, str))
            rel.append((tnorm(l[i0].key()), " " + mid.strip() + " ", tnorm(l[i1].key())))
        elif len(atoms) >= 1 and len(l) >= 2 and isinstance(l[0], str) and l[0].strip() in typewords and l[0].endswith(" ") and not isinstance(l[1], str):
            # a declaration: `<type> <title> ...` (the rest of the line - stereotype, alias, braces - is layout, not specified)
            rest = "".join(x for x in l[l.index(atoms[0]) + 1:] if isinstance(x, str))
            decl.append((l[0].lstrip(), tnorm(atoms[0].key()), rest))
    # expected declarations
    title = {}
    for v in members:
        cfg = nearest(opts, V[v].cls)
        if cfg is None:
            return None
        typ = dget(cfg, "type")
        mine = [d for d in decl if d[0].split(" ")[0] == str(typ)]
        # identify this vertex's title atom through the hex-id / format payload
        mine = [d for d in mine if refers_to(d[1], V[v])]
        if len(mine) != 1:
            return f"member {v} ({V[v].cls.name}) is declared {len(mine)} time(s) with type `{typ}` (nearest configured class along its MRO); declarations found: {[(d[0], d[2]) for d in decl]}"
        title[v] = mine[0][1]
    extra_decl = len(decl) - len(members)
    if extra_decl:
        return f"{len(decl)} declarations for {len(members)} members"
    for v in outside:
        title[v] = None
    want = []
    for (lc, p, q), l in zip(links, L):
        if p in members and q in members:
            cfg = nearest(opts, l.cls)
            want.append((title[p], f" {dget(cfg, 'v1side')}--{dget(cfg, 'v2side')} ", title[q]))
    remaining = list(rel)
    for w in want:
        if w in remaining:
            remaining.remove(w)
        else:
            return f"no relation line `{w[1].strip()}` from {name_of(w[0], title)} to {name_of(w[2], title)} (or fewer than required); relation lines found: {[(name_of(r[0], title), r[1], name_of(r[2], title)) for r in rel]}"
    for r in remaining:
        if r[0] in title.values() and r[2] in title.values() and r[0] is not None and r[2] is not None:
            return f"relation line `{name_of(r[0], title)}{r[1]}{name_of(r[2], title)}` corresponds to no link between those members"
    return None


def _format_kwargs(key):
    """keyword arguments of a str.format() atom inside a title key, as {name: hashable value}; None if the key holds no such atom"""
    if isinstance(key, tuple):
        if len(key) == 4 and key[0] == "StrFormat" and isinstance(key[3], tuple) and key[3][:1] == ("dict",):
            return {p[0]: p[1] for p in key[3][1:] if isinstance(p, tuple) and len(p) == 2}
        for x in key:
            r = _format_kwargs(x)
            if r is not None:
                return r
    return None


def tnorm(key):
    """a title formatted from attribute values is identified by its format string and the `name` that went in (the other keyword
    arguments - every attribute the show_attrs pattern matched - may hold freshly bound methods and differ between two renderings)"""
    kw = _format_kwargs(key)
    if kw is not None and "name" in kw:
        def fmt(k):
            if isinstance(k, tuple):
                if len(k) == 4 and k[0] == "StrFormat":
                    return k[1]
                for x in k:
                    r = fmt(x)
                    if r is not None:
                        return r
            return None
        return ("formatted-title", fmt(key), kw["name"])
    return key


def refers_to(key, obj):
    if isinstance(key, tuple) and key[:1] == ("formatted-title",):
        return key[2] == obj.name
    kw = _format_kwargs(key)
    if kw is not None and "name" in kw:
        return kw["name"] == obj.name      # a title formatted from the vertex's attributes: the vertex is the one whose `name` went in

    def walk(k):
        if isinstance(k, tuple):
            if len(k) == 2 and k[0] == "id" and k[1] == id(obj):
                return True
            return any(walk(x) for x in k)
        return False
    if walk(key):
        return True
    # formatted from a field of the vertex that is an opaque scalar (its uid)
    from sa.ae import Opaque
    for val in obj.fields.values():
        if isinstance(val, Opaque):
            hit = ("id", id(val))

            def walk2(k):
                return k == hit or (isinstance(k, tuple) and any(walk2(x) for x in k))
            if walk2(key):
                return True
    # formatted title: payload holds the attribute value of the vertex (its name)
    return any(isinstance(x, str) and x == obj.name for x in flatten(key))


def flatten(k):
    if isinstance(k, tuple):
        for x in k:
            yield from flatten(x)
    else:
        yield k


def name_of(key, title):
    for v, t in title.items():
        if t == key:
            return v
    return "?"


def resolve_rule(ctx, h, res):
    """_resolve_options: nearest configured class along the MRO; ValueError when none."""
    f = h.fn("edgegraph.output.plantuml._resolve_options")
    h.reset()
    g = h.w.mods["verif_c14"].globals
    h.settle()
    Vx = h.S["Vertex"]
    cases = [("Gateway", ["Router", "Vertex"], "Router"), ("Gateway", ["Vertex"], "Vertex"), ("Gateway", ["Server", "Router"], "Server"), ("SymVert", ["Vertex"], "Vertex"),
             ("Trunk", ["Fibre", "DirectedEdge"], "Fibre"), ("Trunk", ["DirectedEdge"], "DirectedEdge")]   # what happens for a class without any configured ancestor is not specified
    n = 0
    for cls, configured, want in cases:
        gg = dict(g)
        gg.update({k: h.S[k] for k in ("Vertex", "DirectedEdge", "UnDirectedEdge")})
        opts = DictV([[gg[c], DictV([["marker", c]])] for c in configured])
        try:
            out = h.call(f, gg[cls], opts)
            if out.kind == "raise":
                # a private helper: a tree may hand it the object instead of its class (every caller adapted).  The rows are asked
                # that way then; if the helper answers neither, its contract is another one and the rows are not evaluated (the
                # scenarios above decide the same clause through render_to_plantuml_src)
                out2 = h.call(f, h.I.call(gg[cls], [], {}), opts)
                if out2.kind == "raise":
                    res.note(f"_resolve_options answers neither (class, options) nor (object, options) for {cls}: RESOLVE rows not evaluated, the clause is decided by the scenarios")
                    continue
                out = out2
        except (Unknown, Raised) as u:
            res.note(f"_resolve_options({cls}, {configured}) not evaluated: {u}")
            continue
        n += 1
        if want is None:
            ok = True
        else:
            ok = out.kind == "return" and isinstance(out.value, DictV) and dget(out.value, "marker") == want
        res.ob(ok, sig=("resolve", cls, tuple(configured)))
        if not ok:
            res.violation("RESOLVE", "edgegraph.output.plantuml._resolve_options", f"class={'multiple-inheritance' if cls in ('Gateway', 'Trunk') else 'single'}",
                          f"options for {cls} with configured classes {configured}: {out!r}; the nearest configured class along the MRO is {want}")
    res.rule("RESOLVE", n)


def replay(name):
    members, outside, links, vclasses, variant = SCENARIOS[name]
    return f"# scenario {name}: members {members}, outside {outside}, links {links}, vertex classes {vclasses}, option table variant `{variant}`\n# build it with the public API and print(render_to_plantuml_src(uni, options))"
