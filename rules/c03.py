"""C03 - every mutation has exactly its documented effect (frame property): transformer equivalence
between the current source (abstractly evaluated) and the reference model of DESIGN.md A.5."""
from __future__ import annotations

from sa.harness import H
from sa.ae import Obj, SetV, Seq
from rules import common, struct

LEVEL = "proof"


def check(res, rec):
    sig = (rec.family, rec.lcls, rec.ends, rec.op, rec.arg, getattr(rec, "choices", ()))
    sample = {"link_class": rec.lcls, "ends": list(rec.ends), "call": rec.op, "arg": str(rec.arg), "outcome": struct.outcome_name(rec.out)}
    why = None
    if rec.op == "create-typeerror":
        if not (rec.out.kind == "raise" and rec.out.excname == "TypeError"):
            why = f"constructor with a non-vertex end gives {struct.outcome_name(rec.out)}, TypeError required"
        elif rec.post != rec.pre:
            why = "TypeError raised after the graph was already changed: " + "; ".join(struct.diff_states(rec.post, rec.pre)[:3])
    elif rec.mr is struct.DONTCARE:
        if rec.out.kind == "raise" and rec.post != rec.pre:
            why = f"call raised {rec.out.excname} but changed the graph: " + "; ".join(struct.diff_states(rec.post, rec.pre)[:3])
    else:
        model = rec.model.as_dict()
        if rec.out.kind == "raise":
            why = f"call raised {rec.out.excname}; the reference model completes it"
        else:
            d = struct.diff_states(rec.post, model)
            if d:
                why = "; ".join(d[:4])
            else:
                v = rec.out.value
                if rec.op in ("create", "link_from_to", "link_directed", "link_undirected"):
                    if not (isinstance(v, Obj) and v.name in getattr(rec, "alts", [rec.mr])):
                        why = f"returned {struct.outcome_name(rec.out)}, model returns {' or '.join(getattr(rec, 'alts', [rec.mr]))}"
                    elif rec.op != "create" and rec.arg[1] and rec.mr in rec.pre["lverts"] and any(n.startswith("new") for n in rec.post["lverts"]):
                        why = "dontdup=True allocated a link although a joining link exists"
                elif rec.op == "unlink":
                    if rec.mr is None:
                        pass   # what unlink(destroy=True) returns is not specified
                    elif not (isinstance(v, (SetV, Seq)) and not (isinstance(v, Seq) and v.has_seg()) and sorted(x.name for x in v.items if isinstance(x, Obj)) == sorted(rec.mr) and len(v.items) == len(rec.mr)):
                        why = f"unlink(destroy=False) returned {struct.outcome_name(rec.out)}, model returns exactly {sorted(rec.mr)}"
                elif rec.op == "vertex_links":
                    pass
                elif v is not None:
                    why = f"returned {struct.outcome_name(rec.out)} instead of None"
    if why is None and hasattr(rec.p, "frame_diff"):
        fd = rec.p.frame_diff()
        if fd:
            why = "fields other than the association changed: " + "; ".join(fd[:3])
    res.ob(why is None, sig=sig, sample=sample)
    if why is not None:
        res.violation("MODEL-STEP", rec.qual, rec.icls,
                      f"{rec.op}({rec.arg}) on a {rec.lcls} with ends {list(rec.ends)}: {why}",
                      detail=f"pre {rec.pre}\npost {rec.post}\nmodel {rec.model.as_dict()}", replay=rec.replay)


def run_optimized(ctx):
    """the core and constructor obligations with the interpreter in -O mode (validation written as assert statements does nothing there)"""
    res = ctx.res
    h = H(ctx.src, ["edgegraph.builder.explicit", "edgegraph.traversal.helpers"])
    n = 0
    import itertools
    for rec in itertools.chain(struct.core_runs(h, 3, res=res), struct.ctor_runs(h, res=res), struct.explicit_runs(h, res=res, thorough=False)):
        check(res, rec)
        n += 1
    res.rule("python-O", n)


def _reachable(post, pre):
    """post without the links a failed constructor allocated and attached nowhere (no vertex lists them, they name no vertex): such an object
    is garbage the caller never received, not a change of the graph"""
    listed = {l for ls in post["vlinks"].values() for l in ls}
    drop = [n for n, ends in post["lverts"].items() if n not in pre["lverts"] and n not in listed and not any(e is not None and e != "None" for e in ends)]
    if not drop:
        return post
    return {"vlinks": post["vlinks"], "lverts": {n: e for n, e in post["lverts"].items() if n not in drop}}


def run_warnings_as_errors(ctx):
    """a mutator that a warning-turned-error ends must not stop half-way: the graph is as before, or as the completed call leaves it"""
    res = ctx.res
    h = H(ctx.src, ["edgegraph.builder.explicit", "edgegraph.traversal.helpers"])
    n = 0
    import itertools
    for rec in itertools.chain(struct.core_runs(h, 3, res=res), struct.ctor_runs(h, res=res), struct.explicit_runs(h, res=res, thorough=False)):
        if not common.warned(rec.out) or rec.mr is struct.DONTCARE:
            continue
        n += 1
        model = rec.model.as_dict() if rec.model is not None else None
        done = model is not None and not struct.diff_states(rec.post, model)
        ok = _reachable(rec.post, rec.pre) == rec.pre or done
        res.ob(ok, sig=("warn", rec.family, rec.lcls, rec.ends, rec.op, rec.arg))
        if not ok:
            res.violation("MODEL-STEP", rec.qual, rec.icls, f"{rec.op}({rec.arg}) on a {rec.lcls} with ends {list(rec.ends)} raises {rec.out.excname} half-way: the graph is neither as before nor as the completed call leaves it: "
                          + "; ".join(struct.diff_states(rec.post, rec.pre)[:4]), detail=f"pre {rec.pre}\npost {rec.post}", replay=rec.replay)
    res.rule("MODEL-STEP/warnings-as-errors", n)


def run(ctx):
    res = ctx.res
    res.rule_text = ("transformer equivalence: for every abstract pre-state (as C01) and every entry point the whole projected post-heap (ordered links of "
                     "every named vertex incl. bystanders, ordered ends of every named link, allocated links) and the return value equal the reference "
                     "model's; raising calls leave the heap unchanged; all set iteration orders of unlink explored")
    res.trusted_base = common.TRUSTED_AE + ["reference model rules/struct.py (transcribed from the statement, DESIGN.md A.5)"]
    res.assumptions = ["user subclasses do not override the mutators", "arguments are Vertex/Link objects or None",
                       "where the statement is silent (how many occurrences of a multiply-listed vertex leave; end assignment on an edge with fewer than two ends) only I1 and 'raise => unchanged' are required"]
    common.identity_model(ctx)
    common.own_rule(ctx, ["Vertex._links", "Link._vertices"])
    h = H(ctx.src, ["edgegraph.builder.explicit", "edgegraph.traversal.helpers"])
    common.aux_state(h, res)
    maxlen = 4 if ctx.thorough else 3
    counts = {}
    import itertools
    for name, gen in (("core", itertools.chain(struct.core_runs(h, maxlen, res=res), struct.core_runs(h, 2, res=res, classes=("DirectedEdge",), vcls="SymFalsyVert"))), ("constructors", struct.ctor_runs(h, res=res)), ("explicit", struct.explicit_runs(h, res=res, thorough=ctx.thorough))):
        n = 0
        for rec in gen:
            check(res, rec)
            n += 1
        res.rule("MODEL-STEP/" + name, n)
    from sa import eff
    eff.check_fwd(ctx, [("edgegraph.builder.explicit.link_directed", "link_from_to", {}), ("edgegraph.builder.explicit.link_undirected", "link_from_to", {})])
    from rules import structural
    structural.validate_first(ctx, "edgegraph.structure.twoendedlink.TwoEndedLink.__init__", "RAISE-FIRST")
    from rules import hist
    hist.run(ctx, res, 'C03')       # composition: histories through the public API against the reference model (rules/hist.py)
    from rules import scale
    scale.run(ctx, res, 'C03')      # the same on graphs whose collections have the sizes the tree names (rules/scale.py)
    hist.run_sequences(ctx, res, "C03", "links", 4 if ctx.thorough else 3)
    hist.run_sequences(ctx, res, "C03", "universes", 3, small=not ctx.thorough)
    common.vacuity(res, "SEQUENCE", 30000)
    common.vacuity(res, "HISTORY", 10000)
    common.vacuity(res, "MODEL-STEP/core", 5000)
    common.vacuity(res, "MODEL-STEP/explicit", 300)
    res.analysed = common.analysed(ctx, [q for q in struct.QUAL.values() if "[" not in q])
    res.explanation = ("Every single call agrees with the reference model from an arbitrary I1 pre-state, so by induction the observable graph agrees after every history.")
