"""C07 - traversal order is the canonical BFS / DFS order induced by link order."""
from __future__ import annotations

from rules import common, trav

LEVEL = "exploration"


def run(ctx):
    res = ctx.res
    res.level = LEVEL
    n, recs, nmaps, sc = trav.run_sweep(ctx)
    res.rule_text = (f"same sweep as C06 ({nmaps} neighbour maps incl. a fixed-seed family of larger maps x universe x traversal x ff_result); compared quantity: the listed *sequence* against the reference "
                     "FIFO-BFS / recursive pre-order DFS / explicit-stack (mark-on-pop) DFS of DESIGN.md A.4; determinism: the evaluation itself is deterministic; code that iterates a set is evaluated under two iteration orders and must give the same sequence")
    res.trusted_base = common.TRUSTED_AE + ["reference search schemas rules/trav.py (DESIGN.md A.4)"]
    res.assumptions = ["finite graphs", "neighbour order = Vertex.links order (decided by C04)"]
    res.bounded_only = True
    und = [r for r in recs if r["kind"] == "undecided"]
    for r in und[:5]:
        res.undecide(f"{r['trav']} on {r['map']}: {r['got']}")
    bad = [r for r in recs if r["kind"] in ("order", "set", "repeat", "noreturn", "nonterm", "setorder")]
    res.obligations = res.evaluations = n
    res.discharged = n - len({(str(r["map"]), str(r["universe"]), r["trav"], r["ff_result"]) for r in bad}) - len(und)
    res.distinct = set(range(n))
    res.samples = [{"map": {"a": ["b", "b"], "b": ["a", "x"], "x": ["a", "b"]}, "universe": None, "traversal": "dft_iterative", "expected": ["a", "b", "x"]}]
    for r in bad:
        mod, lst, gen, _ = trav.TRAVS[r["trav"]]
        res.violation("ORDER", f"{mod}.{gen}", f"universe={'subclass-overriding-vertices' if r.get('hidden') else (('given-of-a-class-whose-truth-value-is-False' if r.get('falsy_uni') else 'given') if r['universe'] else 'None')},ff_result={'none' if r['ff_result'] == 'none' else 'filtering'}",
                      f"{r['trav']} ({r['form']} form) on neighbour map {r['map']} universe {r['universe']} ff_result={r['ff_result']}: derived sequence {r['got']}, canonical order {r.get('want')}",
                      replay=trav.replay_map(r))
    res.rule("ORDER-SWEEP", n)
    det(ctx, res)
    from rules import hist
    hist.run(ctx, res, 'C07')       # composition: histories through the public API against the reference model (rules/hist.py)
    from rules import scale
    scale.run(ctx, res, 'C07')      # the same on graphs whose collections have the sizes the tree names (rules/scale.py)
    from rules import genproto
    genproto.run(ctx, res, 'C07')      # generator protocol: suspended / interleaved / abandoned generators, a fault inside one (rules/genproto.py)
    hist.run_sequences(ctx, res, "C07", "universes", 4 if ctx.thorough else 3, small=True)
    common.vacuity(res, "SEQUENCE", 500)
    hist.lifetime_traversals(ctx, res, "C07")
    common.vacuity(res, "HISTORY", 3000)
    steps(ctx, res)
    common.vacuity(res, "ORDER-SWEEP", 3000)
    res.analysed = common.analysed(ctx, [f"{m}.{g}" for m, l, g, s in trav.TRAVS.values()])
    res.explanation = "Bounded exhaustive abstract evaluation of the traversal functions; sequence compared with the canonical orders; no unordered/random source feeds the order (DET)."


def det(ctx, res):
    """DET: no set iteration / random / id-ordering in the traversal modules (order-defining code)."""
    import ast
    prog = common.program(ctx)
    n = 0
    for f in prog.all_functions():
        if f.module.name not in (trav.BF, trav.DF):
            continue
        n += 1
        for node in ast.walk(f.node):
            if isinstance(node, ast.Call):
                s = ast.unparse(node.func)
                if s.startswith("random.") or s in ("id", "hash", "shuffle", "sample"):
                    res.note(f"DET pointer: {f.rel}:{node.lineno} {f.qual} calls {s}() (an order that depended on it would show in the sweep)")
            if isinstance(node, (ast.For, ast.comprehension)):
                it = node.iter
                if isinstance(it, ast.Call) and ast.unparse(it.func) in ("set", "frozenset") or isinstance(it, (ast.Set, ast.SetComp)):
                    res.note(f"DET pointer: {f.rel}:{getattr(node, 'lineno', f.node.lineno)} {f.qual} iterates over a set (the sweep evaluates it under two iteration orders)")
    res.rule("DET", n)


def steps(ctx, res):
    """Unbounded argument: prologue + one loop iteration / one recursive activation equal the schema step (rules/travstep.py)."""
    from rules import travstep
    try:
        sr = travstep.run_steps(ctx)
    except Exception as e:  # noqa: BLE001 - the step argument is optional; the sweep still decides
        res.note(f"step-transformer argument could not be evaluated ({type(e).__name__}: {e}); verdict rests on the sweep")
        return
    res.rule("SCHEMA-STEP", sr.n)
    res.obligations += sr.n
    res.evaluations += sr.n
    res.discharged += sr.n - len(sr.mismatches) - len(sr.undecided)
    res.extra["schema_step"] = {"obligations": sr.n, "mismatches": len(sr.mismatches), "undecided": len(sr.undecided), "proved": sr.proved}
    if sr.proved and not res.findings and not res.undecided:
        res.bounded_only = False
        res.level = "proof"
        res.explanation = ("Every traversal's prologue and single step (loop iteration / recursive activation, from an arbitrary abstract worklist state with opaque segments) equals the step of "
                           "its search schema, which by the loop-invariant argument of DESIGN.md A.4 gives the statement for graphs of every size; the small-scope sweep found no mismatch either.")
    else:
        for m in sr.mismatches[:3]:
            res.note("step differs from the search schema (not a violation by itself; the sweep decides): " + m[:300])
        for m in sr.undecided[:3]:
            res.note("step not decidable (verdict rests on the sweep): " + m[:300])
