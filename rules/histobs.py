"""Renderer observers for the history engine (rules/hist.py): the three output modules read a graph that was *reached through a
history* (flag schedules, mutators, vertex families) and are compared with what the reference model of that history requires."""
from __future__ import annotations

from sa.harness import Outcome
from sa.ae import Seq, DictV, Obj, Callback, Builtin, SymStr, Unknown
from rules import hist, c04

DC = hist.DC
PLAIN = "edgegraph.output.plaintext"
PUML = "edgegraph.output.plantuml"
PYVIS = "edgegraph.output.pyvis"


def _name_cb(kind):
    return Callback(kind, lambda I, k, a, kw: getattr(a[0], "name", None) or "?")


# ------------------------------------------------------------------------------- C16
def text(h, C):
    fn = h.fn(PLAIN + ".basic_render")
    nb = h.fn(c04.FN)
    loc = h.I.bind_args(nb, [None], {})
    d0 = next((k for k in ("FORWARD", "BACKWARD", "ANY") if C[k] == loc.get("direction_sensitive")), None)
    u0 = next((k for k in c04.UHS if C[k] == loc.get("unknown_handling")), None)

    def want(m, u="U"):
        if not m.umem[u]:
            return None
        lines = []
        for v in m.umem[u]:
            r = hist.m_neighbors(m, v, "FORWARD", u0)
            if r is DC or isinstance(r, str):
                return DC
            lines.append((v + " -> " + ", ".join(r)).rstrip())
        return lines

    def do(g, u="U"):
        out = h.call(fn, g.obj(u), _name_cb("rfunc"), None)
        if out.kind == "return" and isinstance(out.value, str):
            lines = [l.rstrip() for l in out.value.split("\n")]
            while lines and lines[-1] == "":
                lines.pop()
            return Outcome("return", hist._Plain(lines))
        if out.kind == "return" and isinstance(out.value, SymStr):
            raise Unknown("basic_render gives a symbolic string for concrete labels")
        return out
    RANK = {"a": 3, "b": 2, "c": 1, "d": 0, "U": 5, "W": 4, "?": 9}

    def rank(name):
        """sort key of a named individual; the bulk objects of the scale families (x1.., y1.., z1.., Z1..) get pairwise distinct keys"""
        if name in RANK:
            return RANK[name]
        if isinstance(name, str) and len(name) > 1 and name[0] in "xyzZ" and name[1:].isdigit():
            return {"x": 10, "y": 200, "z": 400, "Z": 600}[name[0]] + int(name[1:])
        return 9

    def want_sorted_then_plain(m):
        plain = want(m)
        if plain is DC or plain is None:
            return DC
        lines = []
        for v in sorted(m.umem["U"], key=rank):
            r = sorted(hist.m_neighbors(m, v, "FORWARD", u0), key=rank)
            lines.append((v + " -> " + ", ".join(r)).rstrip())
        return [lines, plain]

    def do_sorted_then_plain(g):
        key = Callback("sort", lambda I, k, a, kw: rank(getattr(a[0], "name", "?")))
        outs = []
        for sort in (key, None):
            out = h.call(fn, g.obj("U"), _name_cb("rfunc"), sort)
            if out.kind == "return" and isinstance(out.value, str):
                ls = [l.rstrip() for l in out.value.split("\n")]
                while ls and ls[-1] == "":
                    ls.pop()
                outs.append(ls)
            else:
                outs.append(hist.osig(out))
        return Outcome("return", hist._Plain(outs))
    return [hist.Obs("basic_render(U, rfunc=name, sort=key) then basic_render(U, rfunc=name)", ("C16", "C13"), PLAIN + ".basic_render", do_sorted_then_plain, want_sorted_then_plain),
            hist.Obs("basic_render(U, rfunc=name)", ("C16", "C13"), PLAIN + ".basic_render", do, want),
            hist.Obs("basic_render(W, rfunc=name)", ("C16", "C13"), PLAIN + ".basic_render", lambda g: do(g, "W"), lambda m: want(m, "W"))]


text.modules = ["edgegraph.traversal.helpers", PLAIN]


# ------------------------------------------------------------------------------- C14
def puml(h, C):
    from rules import c14
    fn = h.fn(PUML + ".render_to_plantuml_src")
    h.w.set_order = "insertion"
    h.w.unordered_sort_ok = True

    def do(g):
        m = g.m
        members = list(m.umem["U"])
        if not members:
            out = h.call(fn, g.obj("U"), DictV())
            return Outcome("return", hist._Plain("ok" if out.kind == "return" and out.value is None else f"empty universe gives {out!r}"))
        outside = [v for v in m.vlinks if v not in members]
        links, L = [], []
        for l in sorted(m.lverts):
            ends = m.lverts[l]
            if len(ends) != 2 or None in ends:
                return Outcome("return", hist._Plain(DC))
            links.append((m.lclass[l].split(":")[-1], ends[0], ends[1]))
            L.append(g.O[l])
        gl = {k: h.S[k] for k in ("Vertex", "DirectedEdge", "UnDirectedEdge")}
        opts = c14.options(h, gl, "default")
        if any(c14.nearest(opts, o.cls) is None for o in L + [g.O[v] for v in members]):
            return Outcome("return", hist._Plain(DC))       # a class without configured ancestor: not specified
        out = h.call(fn, g.obj("U"), opts)
        V = {v: g.O[v] for v in m.vlinks}
        why = c14.check(h, out, members, outside, links, V, L, opts, "default")
        return Outcome("return", hist._Plain("ok" if why is None else why))

    def cmp(got, want):
        return got is DC or got == "ok"
    return [hist.Obs("render_to_plantuml_src(U)", ("C14", "C13"), PUML + ".render_to_plantuml_src", do, lambda m: "ok", cmp=cmp)]


puml.modules = [PUML]


# ------------------------------------------------------------------------------- C15
def pyvis(h, C):
    from rules import c15
    rec = h._pyvis_rec
    fn = h.fn(PYVIS + ".make_pyvis_net")

    def do(g):
        m = g.m
        members = list(m.umem["U"])
        rec.events, rec.nodes = [], []
        if any(len(e) != 2 for e in m.lverts.values()):
            return Outcome("return", hist._Plain(DC))
        out = h.call(fn, g.obj("U"), _name_cb("rvfunc"), None)
        if out.kind != "return":
            return Outcome("return", hist._Plain(f"raises {out.excname}"))
        nodes = [e for e in rec.events if e[0] == "add_node"]
        if [e[1] for e in nodes] != list(range(len(members))) or [e[2] for e in nodes] != members:
            return Outcome("return", hist._Plain(f"nodes {[(e[1], e[2]) for e in nodes]}, expected ids 0..{len(members) - 1} labelled {members}"))
        idx = {v: i for i, v in enumerate(members)}
        want_dir, want_und = [], []
        for l in sorted(m.lverts):
            ends = m.lverts[l]
            if len(ends) != 2:
                return Outcome("return", hist._Plain(DC))
            if ends[0] in idx and ends[1] in idx:
                if c04.KINDS.get(m.lclass[l].split(":")[-1]) == "D":
                    want_dir.append((idx[ends[0]], idx[ends[1]]))
                else:
                    want_und.append(frozenset((idx[ends[0]], idx[ends[1]])))
        got = [e for e in rec.events if e[0] == "add_edge"]
        got_dir = sorted((e[1], e[2]) for e in got if e[3])
        got_und = [frozenset((e[1], e[2])) for e in got if not e[3]]
        if got_dir != sorted(want_dir):
            return Outcome("return", hist._Plain(f"arrowed edges {got_dir}, the directed links between members are {sorted(want_dir)}"))
        if set(got_und) != set(want_und):
            return Outcome("return", hist._Plain(f"arrow-less edges join {sorted(sorted(p) for p in set(got_und))}, the non-directed links between members join {sorted(sorted(p) for p in set(want_und))}"))
        return Outcome("return", hist._Plain("ok"))
    return [hist.Obs("make_pyvis_net(U, rvfunc=name)", ("C15", "C13"), PYVIS + ".make_pyvis_net", do, lambda m: "ok", cmp=lambda got, want: got is DC or got == "ok")]


def _pyvis_setup(h):
    from rules import c15
    rec = c15.Recorder(h)
    h.w.ext_overrides["pyvis.network.Network"] = Builtin("pyvis.network.Network", lambda I, *a, **k: rec.network(I, *a, **k))
    h.w.load(PYVIS)
    h.w.snapshot()
    h._pyvis_rec = rec


pyvis.modules = []
pyvis.setup = _pyvis_setup
