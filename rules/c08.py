"""C08 - each search returns the first match of its corresponding traversal, or None.

Sibling cross-check by abstract evaluation: on every neighbour map of the scope, the search result is compared with the
first matching vertex of the listing *derived from the corresponding traversal of the same source* (default settings).
Attribute values are abstract tokens (equal-but-not-identical to the sought value / unequal / attribute absent); vertices
are plain or falsy-valued (SymFalsyVert).  Rule OPT points at truthiness tests of optional results."""
from __future__ import annotations
import ast
import itertools
import os

from sa.ae import Tok, Unknown, Obj
from rules import common, trav

LEVEL = "exploration"
ATTR = "tag"


NAN = float("nan")


def patterns(verts):
    vs = list(verts)
    yield {v: "N" for v in vs}
    for v in vs:
        yield {w: ("M" if w == v else "N") for w in vs}
        yield {w: ("M" if w == v else "L") for w in vs}
    if len(vs) <= 4:
        for v, w in itertools.combinations(vs, 2):
            yield {x: ("M" if x in (v, w) else "N") for x in vs}
    else:
        for v, w in zip(vs, vs[2:]):
            yield {x: ("M" if x in (v, w) else "N") for x in vs}
    yield {v: "M" for v in vs}


def job(args):
    from sa.src import Source
    root, overlay, chunk, base = args
    th = trav.TH(Source(root, overlay))
    th.h.sym["ClassTagVert"].dict["tag"] = Tok(1, "class-level-equal")
    th.h.w.snapshot()
    recs, n = [], 0
    k = base
    for inner, nbmap in chunk:
        for members in (None, list(inner)):
            listings = {}
            for pat in patterns(nbmap):
                k += 1
                vcls = "SymFalsyVert" if k % 2 else "Vertex"
                none_mode = k % 5 == 0   # the sought value is None: a vertex lacking the attribute is still no match
                xtype_mode = k % 7 == 3  # stored 1 (int), sought 1.0 (float): equal (==) values of different types match
                classattr_mode = k % 11 == 4 and not none_mode and not xtype_mode   # the matching value is a class-level attribute
                stored = None if none_mode else (1 if xtype_mode else Tok(1, "stored-equal"))
                attrs = {v: ({ATTR: stored} if p == "M" else ({ATTR: Tok(2, "stored-other")} if p == "N" else {})) for v, p in pat.items()}
                sought = None if none_mode else (1.0 if xtype_mode else Tok(1, "sought"))
                uid_mode = k % 13 == 6 and not none_mode and not xtype_mode and not classattr_mode
                if uid_mode:
                    attrs = {}      # the attribute is the built-in `uid` property: exactly the 'M' vertex (first in name order) carries the sought uid
                dotted_mode = k % 17 == 8 and not (none_mode or xtype_mode or classattr_mode or uid_mode)      # the attribute's name contains a dot
                nest_mode = k % 19 == 9 and not (none_mode or xtype_mode or classattr_mode or uid_mode or dotted_mode)   # the attribute is a property that itself searches
                # stored and sought value are one and the same NaN object: identical, but not equal (==) - so it is no match
                nan_mode = k % 23 == 10 and not (none_mode or xtype_mode or classattr_mode or uid_mode or dotted_mode or nest_mode)
                if nan_mode:
                    attrs = {v: ({ATTR: NAN} if p == "M" else ({ATTR: Tok(2, "stored-other")} if p == "N" else {})) for v, p in pat.items()}
                    sought = NAN
                    pat = {v: ("N" if p == "M" else p) for v, p in pat.items()}
                attr_name = "net.role" if dotted_mode else ATTR
                if dotted_mode:
                    attrs = {v: {attr_name: a_[ATTR]} if a_ else {} for v, a_ in attrs.items()}
                if nest_mode:
                    vcls = "NestVert"
                    attrs = {v: {"_tagv": a_[ATTR]} if a_ else {} for v, a_ in attrs.items()}
                if classattr_mode:
                    vcls = "ClassTagVert"
                    pat = {v: ("N" if p == "L" else p) for v, p in pat.items()}
                    attrs = {v: ({} if p == "M" else {ATTR: Tok(2, "stored-other")}) for v, p in pat.items()}
                for tname, (mod, lst, gen, srch) in trav.TRAVS.items():
                    n += 1
                    rec = dict(map={v: list(l) for v, l in nbmap.items()}, universe=members, trav=tname, search=srch, pattern=pat, vcls=vcls, sought_none=none_mode, mode=("nan-stored-and-sought-are-one-object" if nan_mode else "sought-None" if none_mode else ("int-vs-float" if xtype_mode else ("class-level-attribute" if classattr_mode else ("uid-property" if uid_mode else ("attribute-name-with-a-dot" if (k % 17 == 8 and not (none_mode or xtype_mode or classattr_mode or uid_mode)) else ("property-that-searches" if vcls == "NestVert" else "token")))))))
                    try:
                        if tname not in listings:
                            V = th.setup(nbmap, members, "Vertex", None)
                            lo = th.h.call(th.fn[lst], th.uni, V["a"])
                            listing = [x.name for x in lo.value.items] if lo.kind == "return" else None
                            if listing is None:
                                member = (lambda v: True) if members is None else (lambda v, m=set(members): v in m)
                                listing = trav.REF[tname](nbmap, "a", member)
                            listings[tname] = listing
                        listing = listings[tname]
                        V = th.setup(nbmap, members, vcls, attrs)
                        if uid_mode:
                            target = next((v for v in sorted(pat) if pat[v] == "M"), None)
                            pat = {v: ("M" if v == target else "N") for v in pat}
                            uidv = V[target].fields.get("_uid") if target else Tok(77, "no-such-uid")
                            so = th.h.call(th.fn[srch], th.uni, V["a"], "uid", uidv)
                        else:
                            if nest_mode:
                                th.h.sym["NestVert"].dict["probe"] = th.fn[srch]
                            try:
                                so = th.h.call(th.fn[srch], th.uni, V["a"], attr_name, sought)
                            finally:
                                th.h.sym["NestVert"].dict["probe"] = None
                    except Unknown as u:
                        rec.update(kind="nonterm" if "budget" in str(u) else "undecided", got=str(u))
                        recs.append(rec)
                        continue
                    want = next((v for v in listing if pat[v] == "M"), None)
                    got = so.value.name if so.kind == "return" and isinstance(so.value, Obj) else (None if so.kind == "return" and so.value is None else repr(so))
                    rec.update(got=got, want=want, listing=listing)
                    bad_calls = [c for c in th.calls if not (c[1] == th.defaults[0] and c[2] == th.defaults[1] and c[3] is None)]
                    if got != want:
                        rec.update(kind="first-match")
                        recs.append(dict(rec))
                    elif bad_calls:
                        c = bad_calls[0]
                        rec.update(kind="settings", got=f"neighbors({c[0]!r}, {c[1]!r}, {c[2]!r}, {c[3]!r})")
                        recs.append(dict(rec))
    return n, recs


def run(ctx):
    res = ctx.res
    sc = trav.scope(ctx.thorough)
    allmaps = [(sc["inner"], m) for m in trav.maps(sc["inner"], sc["outside"], sc["maxlen"])]
    allmaps += trav.sampled_maps(6000 if ctx.thorough else 70, seed=20261005)
    if not ctx.thorough:
        allmaps = allmaps[::2]
    root, overlay = str(ctx.src.root), dict(ctx.src.overlay)
    import multiprocessing as mp
    if (ctx.thorough or len(allmaps) > 100) and not mp.current_process().daemon and (os.cpu_count() or 1) > 1:
        nproc = min(16, os.cpu_count() or 1)
        size = max(1, len(allmaps) // (nproc * 4))
        jobs = [(root, overlay, allmaps[i:i + size], i) for i in range(0, len(allmaps), size)]
        with mp.get_context("fork").Pool(nproc) as pool:
            parts = pool.map(job, jobs)
    else:
        parts = [job((root, overlay, allmaps, 0))]
    n = sum(p[0] for p in parts)
    recs = [r for p in parts for r in p[1]]
    res.rule_text = (f"{len(allmaps)} neighbour maps (exhaustive small scope + fixed-seed family) x universe in {{None, inner}} x attribute patterns (no match / each single match with others "
                     "unequal or lacking the attribute / pairs / all) x plain or falsy-valued vertex class x 3 searches; expected = first matching vertex of the listing derived from the "
                     "corresponding traversal of the same source; sought value equal but not identical to the stored one")
    res.trusted_base = common.TRUSTED_AE + ["the traversal listing derived by the same evaluator (C06/C07 decide its correctness)"]
    res.assumptions = ["finite graphs", "attribute values compare by ==", "helpers.neighbors stubbed at its interface (decided by C04)"]
    res.bounded_only = True
    for r in [r for r in recs if r["kind"] == "undecided"][:5]:
        res.undecide(f"{r['search']} on {r['map']}: {r['got']}")
    bad = [r for r in recs if r["kind"] != "undecided"]
    res.obligations = res.evaluations = n
    res.discharged = n - len(recs)
    res.distinct = set(range(n))
    res.samples = [{"map": {"a": ["b"], "b": ["a"], "x": ["a", "b"]}, "universe": None, "pattern": {"a": "N", "b": "M", "x": "N"}, "search": "bfs", "expected": "b"}]
    for r in bad:
        mod = trav.TRAVS[r["trav"]][0]
        what = {"first-match": f"returns {r['got']} but the first match of {r['trav']}'s listing {r.get('listing')} is {r.get('want')}",
                "settings": f"calls {r['got']} instead of the traversal's default settings", "nonterm": "does not terminate"}[r["kind"]]
        res.violation("FIRST-MATCH" if r["kind"] != "settings" else "SEARCH-SETTINGS", f"{mod}.{r['search']}",
                      f"vertex-class={r['vcls']},universe={'given' if r['universe'] else 'None'},match-at-start={r['pattern'].get('a') == 'M'},values={r.get('mode', 'token')}",
                      f"{r['search']} on neighbour map {r['map']} universe {r['universe']} attribute pattern {r['pattern']} ({r['vcls']}): {what}", replay=replay(r))
    res.rule("FIRST-MATCH", n)
    opt_rule(ctx, res)
    from rules import hist
    hist.run(ctx, res, "C08")       # composition: histories through the public API against the reference model (rules/hist.py)
    from rules import scale
    scale.run(ctx, res, 'C08')      # the same on graphs whose collections have the sizes the tree names (rules/scale.py)
    hist.run_sequences(ctx, res, "C08", "universes", 4 if ctx.thorough else 3, small=True)
    common.vacuity(res, "SEQUENCE", 500)
    common.vacuity(res, "HISTORY", 2500)
    steps(ctx, res)
    common.vacuity(res, "FIRST-MATCH", 3000)
    res.analysed = common.analysed(ctx, [f"{m}.{s}" for m, l, g, s in trav.TRAVS.values()])
    res.explanation = "Bounded exhaustive sibling cross-check between each search and its traversal; every mismatch is a concrete witness graph."


def replay(r):
    m = r["map"]
    L = ["from edgegraph.structure import Vertex, Universe", "from edgegraph.builder import explicit", "from edgegraph.traversal import breadthfirst, depthfirst",
         "class SymFalsyVert(Vertex):\n    def __bool__(self): return False",
         "class Val:\n    def __init__(s, k): s.k = k\n    def __eq__(s, o): return isinstance(o, Val) and s.k == o.k\n    def __hash__(s): return hash(s.k)",
         f"V = {{n: {r['vcls']}(attributes={{'name': n}}) for n in {sorted(m)}}}"]
    for v, p in r["pattern"].items():
        if p != "L":
            L.append(f"V[{v!r}].tag = Val({1 if p == 'M' else 2})")
    for v, l in m.items():
        for w in l:
            L.append(f"explicit.link_directed(V[{v!r}], V[{w!r}])")
    L.append(f"uni = {'None' if r['universe'] is None else 'Universe(vertices=[V[n] for n in ' + repr(r['universe']) + '])'}")
    mod = trav.TRAVS[r["trav"]][0].split(".")[-1]
    L.append(f"res = {mod}.{r['search']}(uni, V['a'], 'tag', Val(1)); print(res and res.name, '# expected', {r.get('want')!r})")
    return "\n".join(L)


def opt_rule(ctx, res):
    """OPT: a value produced by a search helper (Vertex | None) is never tested for truthiness."""
    prog = common.program(ctx)
    n = 0
    for f in prog.all_functions():
        if f.module.name not in (trav.BF, trav.DF):
            continue
        # names assigned from calls to functions of the same modules whose return annotation mentions None
        opt = set()
        for node in ast.walk(f.node):
            if isinstance(node, ast.Assign) and isinstance(node.value, ast.Call) and len(node.targets) == 1 and isinstance(node.targets[0], ast.Name):
                callee = ast.unparse(node.value.func).split(".")[-1]
                g = f.module.functions.get(callee)
                if g is not None and g.node.returns is not None and "None" in ast.unparse(g.node.returns):
                    opt.add(node.targets[0].id)
        for node in ast.walk(f.node):
            tests = []
            if isinstance(node, (ast.If, ast.While, ast.IfExp)):
                tests.append(node.test)
            elif isinstance(node, ast.BoolOp):
                tests.extend(node.values)
            elif isinstance(node, ast.UnaryOp) and isinstance(node.op, ast.Not):
                tests.append(node.operand)
            for t in tests:
                if isinstance(t, ast.Name) and t.id in opt:
                    n += 1
                    res.note(f"OPT: {f.rel}:{t.lineno} {f.qual}: optional vertex `{t.id}` used in a boolean context (a falsy-valued vertex would be dropped); verdict comes from the FIRST-MATCH evaluation")
    res.rule("OPT", n)


def steps(ctx, res):
    """Unbounded argument: each search's prologue and single step equal the traversal schema's step with emit replaced by the match test."""
    from rules import travstep
    try:
        sr = travstep.run_search_steps(ctx)
    except Exception as e:  # noqa: BLE001
        res.note(f"step-transformer argument could not be evaluated ({type(e).__name__}: {e}); verdict rests on the sweep")
        return
    res.rule("SCHEMA-STEP", sr.n)
    res.obligations += sr.n
    res.evaluations += sr.n
    res.discharged += sr.n - len(sr.mismatches) - len(sr.undecided)
    res.extra["schema_step"] = {"obligations": sr.n, "mismatches": len(sr.mismatches), "undecided": len(sr.undecided), "proved": sr.proved}
    if sr.proved and not res.findings and not res.undecided:
        res.bounded_only = False
        res.level = "proof"
        res.explanation = ("Every search's prologue and single step (from an arbitrary abstract worklist state in which no marked vertex matches) equals its traversal's schema step with `emit` replaced by "
                           "the match test, for falsy-valued vertices, equal-but-not-identical and None sought values; the small-scope sibling cross-check found no mismatch either.")
    else:
        for m in sr.mismatches[:3]:
            res.note("step differs from the search schema (not a violation by itself; the sweep decides): " + m[:300])
        for m in sr.undecided[:3]:
            res.note("step not decidable (verdict rests on the sweep): " + m[:300])
