"""C10 - nrpickler round trip.  NOT decided as a whole: whether the produced byte stream unpickles to an isomorphic graph is the
opcode-level behaviour of pickle/dill for every protocol (third-party code, runtime values).  Three clauses of the statement are
visible in edgegraph's own code and are decided, as necessary conditions:

* SPLICE-ORDER  - the deferred save / memoize / write operations reach the file in the order the recursive pickler would
                  produce them ("shared objects still shared", "same ordered structure" presuppose this).  Decided by abstract
                  evaluation of _NonrecursivePickler.dump with dill.Pickler replaced by a stand-in recursive pickler (written in
                  the harness) on every object tree / DAG of the scope; the recorded file events are compared with the
                  recursive order.
* NONREC        - "no RecursionError regardless of depth": the abstract call depth of dump() on chains of increasing length
                  is constant; structurally, save() reaches neither realsave nor itself.
* REGISTRY      - "usable when loaded in a fresh interpreter, caching on": the registry scripts of C05 (objects with empty
                  class-level state)."""
from __future__ import annotations
import ast
import itertools

from sa.harness import H
from sa.ae import Seq, SetV, Builtin, ExtV, Obj, Unknown, Raised, ClassV
from rules import common, c05

LEVEL = "other"
MOD = "edgegraph.output.nrpickler"
STUB = '''
import pickle
class Node:
    def __init__(self, tag, children):
        self.tag = tag
        self.children = children
class Pickler:
    \"\"\"stand-in for dill.Pickler (pickle._Pickler), with the surface a subclass may touch: write / memo / get / memoize / save /
    dispatch / save_tuple / proto / bin / _file_write.  An object (Node) is opened, memoised, its children saved, closed; bytes values
    are memoised leaves, large ones written straight to the file; tuples are saved by a transcription of pickle._Pickler.save_tuple
    (memoised after their elements, with the \"memoised meanwhile?\" test).  Every operation is a bytes token, so the file sees a byte
    stream and buffering subclasses can be evaluated.\"\"\"
    dispatch = {}
    LARGE = 65536       # pickle._Framer._FRAME_SIZE_TARGET: payloads of this size or more bypass self.write (protocol >= 4)
    def __init__(self, file, **kwargs):
        self.file = file
        self._file_write = file.write
        self.write = file.write
        p = kwargs.get("protocol")
        self.proto = 4 if p is None else p
        self.bin = self.proto >= 1
        self.memo = {}
        self.kwargs = kwargs
    def _key(self, obj):
        return obj if isinstance(obj, bytes) else id(obj)       # the bytes leaves of the harness are pairwise different values
    def get(self, i):
        return b"GET" + str(i).encode() + b";"
    def memoize(self, obj):
        assert self._key(obj) not in self.memo      # pickle.Pickler.memoize asserts that an object is memoised once
        idx = len(self.memo)
        self.write(b"PUT" + str(idx).encode() + b";")
        self.memo[self._key(obj)] = (idx, obj)
    def save(self, obj, save_persistent_id=None):
        x = self.memo.get(self._key(obj))
        if x is not None:
            self.write(self.get(x[0]))
            return
        f = self.dispatch.get(type(obj))
        if f is not None:
            f(self, obj)
            return
        self.write(b"OPEN:" + obj.tag.encode() + b";")
        self.memoize(obj)
        for c in obj.children:
            self.save(c)
        self.write(b"CLOSE:" + obj.tag.encode() + b";")
    def save_bytes(self, obj):
        if self.proto >= 4 and len(obj) >= self.LARGE:
            self._file_write(b"BYTES8:")       # pickle._Framer.write_large_bytes: header and payload go straight to the file
            self._file_write(obj)
        else:
            self.write(b"BYTES:" + obj + b";")
        self.memoize(obj)
    dispatch[bytes] = save_bytes
    def save_tuple(self, obj):
        if not obj:
            if self.bin:
                self.write(pickle.EMPTY_TUPLE)
            else:
                self.write(pickle.MARK + pickle.TUPLE)
            return
        n = len(obj)
        save = self.save
        memo = self.memo
        if n <= 3 and self.proto >= 2:
            for element in obj:
                save(element)
            if id(obj) in memo:
                get = self.get(memo[id(obj)][0])
                self.write(pickle.POP * n + get)
            else:
                self.write((pickle.EMPTY_TUPLE, pickle.TUPLE1, pickle.TUPLE2, pickle.TUPLE3)[n])
                self.memoize(obj)
            return
        write = self.write
        write(pickle.MARK)
        for element in obj:
            save(element)
        if id(obj) in memo:
            get = self.get(memo[id(obj)][0])
            if self.bin:
                write(pickle.POP_MARK + get)
            else:
                write(pickle.POP * (n + 1) + get)
            return
        write(pickle.TUPLE)
        self.memoize(obj)
    dispatch[tuple] = save_tuple
    def save_frozenset(self, obj):
        # transcription of pickle._Pickler.save_frozenset for protocol >= 4 (below that a frozenset goes through save_reduce, not modelled)
        save = self.save
        write = self.write
        write(pickle.MARK)
        for item in obj:
            save(item)
        if id(obj) in self.memo:
            write(pickle.POP_MARK + self.get(self.memo[id(obj)][0]))
            return
        write(pickle.FROZENSET)
        self.memoize(obj)
    dispatch[frozenset] = save_frozenset
    def dump(self, obj):
        self.save(obj)
        self.write(pickle.STOP)
'''
PK = {"FROZENSET": b"\x91", "MARK": b"(", "TUPLE": b"t", "POP": b"0", "POP_MARK": b"1", "TUPLE1": b"\x85", "TUPLE2": b"\x86", "TUPLE3": b"\x87", "EMPTY_TUPLE": b")", "STOP": b".", "PROTO": b"\x80"}
LARGE = 65536


def trees(maxn):
    """Shapes as nested tuples: ('t', tag, children) with sharing expressed by repeating a tag."""
    shapes = []
    # all ordered trees with n nodes, n <= maxn, tags in pre-order
    def gen(n):
        if n == 1:
            return [("leaf",)]
        out = []
        for parts in compositions(n - 1):
            for kids in itertools.product(*[gen(p) for p in parts]):
                out.append(("node",) + tuple(kids))
        return out

    def compositions(n):
        if n == 0:
            return [()]
        out = []
        for first in range(1, n + 1):
            for rest in compositions(n - first):
                out.append((first,) + rest)
        return out

    for n in range(1, maxn + 1):
        shapes += gen(n)
    return shapes


def build(h, g, shape, share=None, leaf_bytes=False, tuples=(), large=False, frozen=False):
    """-> (root, nodes).  A node is a Node object (children list), a bytes leaf (leaf_bytes: the childless nodes below the root; large:
    the first of them is a payload of 64 KiB) or - pre-order indexes in `tuples` - a real tuple of its children.  `share`: (i, j) makes
    the j-th node (an object) refer to the i-th once more, which may close a cycle; frozen: the `tuples` nodes are frozensets instead.
    A tuple cannot be extended afterwards, so a
    shape is built bottom-up and the extra reference goes into an object's children list."""
    specs = []

    def number(s_, top=False):
        idx = len(specs)
        specs.append(None)
        kids = [number(k) for k in s_[1:]]
        specs[idx] = (s_, kids, top)
        return idx

    number(shape, True)
    nodes = [None] * len(specs)
    first_leaf = [True]

    def mk(idx):
        s_, kids, top = specs[idx]
        if leaf_bytes and not top and len(s_) == 1:
            if large and first_leaf[0]:
                first_leaf[0] = False
                nodes[idx] = b"L" * LARGE
            else:
                nodes[idx] = f"leaf-{idx}".encode()
            return nodes[idx]
        if idx in tuples:
            if frozen:
                t = SetV([mk(k) for k in kids], True)
            else:
                t = Seq([mk(k) for k in kids], "tuple")
            t.name = f"n{idx}"
            nodes[idx] = t
            return t
        n = h.I.call(g["Node"], [f"n{idx}", Seq([], "list")], {})
        n.name = f"n{idx}"
        nodes[idx] = n
        for k in kids:
            n.fields["children"].items.append(mk(k))
        return n

    root = mk(0)
    if share is not None:
        i, j = share
        if i < len(nodes) and j < len(nodes) and i != j and isinstance(nodes[j], Obj):
            nodes[j].fields["children"].items.append(nodes[i])
    return root, nodes


def kids_of(x):
    if isinstance(x, Obj):
        return list(x.fields["children"].items)
    if isinstance(x, (Seq, SetV)):
        return list(x.items)
    return []


def reference(root, proto=4):
    """the byte stream of the recursive pickler (the stand-in's own algorithm, written independently on the harness side)"""
    ev, memo = [], {}
    binary = proto >= 1

    def key(n):
        return n if isinstance(n, bytes) else id(n)

    def get(i):
        return b"GET" + str(i).encode() + b";"

    def memoize(n):
        idx = len(memo)
        ev.append(b"PUT" + str(idx).encode() + b";")
        memo[key(n)] = (idx, n)

    def save(n):
        if key(n) in memo:
            ev.append(get(memo[key(n)][0]))
            return
        if isinstance(n, bytes):
            ev.append(b"BYTES8:" + n if (proto >= 4 and len(n) >= LARGE) else b"BYTES:" + n + b";")
            memoize(n)
            return
        if isinstance(n, SetV):
            ev.append(PK["MARK"])
            for c in n.items:
                save(c)
            if id(n) in memo:
                ev.append(PK["POP_MARK"] + get(memo[id(n)][0]))
                return
            ev.append(PK["FROZENSET"])
            memoize(n)
            return
        if isinstance(n, Seq):
            k = len(n.items)
            if k == 0:
                ev.append(PK["EMPTY_TUPLE"] if binary else PK["MARK"] + PK["TUPLE"])
                return
            small = k <= 3 and proto >= 2
            if not small:
                ev.append(PK["MARK"])
            for c in n.items:
                save(c)
            if id(n) in memo:
                g_ = get(memo[id(n)][0])
                ev.append(PK["POP"] * k + g_ if small else (PK["POP_MARK"] + g_ if binary else PK["POP"] * (k + 1) + g_))
                return
            ev.append((PK["EMPTY_TUPLE"], PK["TUPLE1"], PK["TUPLE2"], PK["TUPLE3"])[k] if small else PK["TUPLE"])
            memoize(n)
            return
        ev.append(b"OPEN:" + n.name.encode() + b";")
        memoize(n)
        for c in n.fields["children"].items:
            save(c)
        ev.append(b"CLOSE:" + n.name.encode() + b";")

    save(root)
    return b"".join(ev)


class _Loaded:
    def __init__(self, kind, tag=None):
        self.kind, self.tag, self.kids = kind, tag, []


def load_stream(body):
    """What an unpickler makes of the token stream (the stand-in's own vocabulary plus pickle's tuple / frozenset / stack opcodes).
    -> the reconstructed root, or raises ValueError with the reason the stream cannot be loaded."""
    stack, memo, i, n = [], {}, 0, len(body)
    MARKER = object()

    def pop_to_mark():
        items = []
        while stack:
            x = stack.pop()
            if x is MARKER:
                return list(reversed(items))
            items.append(x)
        raise ValueError("no MARK on the stack")

    def token(prefix):
        nonlocal i
        j = body.index(b";", i)
        val = body[i + len(prefix):j]
        i = j + 1
        return val

    while i < n:
        if body.startswith(b"OPEN:", i):
            o = _Loaded("obj", token(b"OPEN:").decode())
            stack.append(o)
            stack.append(MARKER)
        elif body.startswith(b"CLOSE:", i):
            tag = token(b"CLOSE:").decode()
            kids = pop_to_mark()
            if not stack or not isinstance(stack[-1], _Loaded) or stack[-1].tag != tag:
                raise ValueError(f"CLOSE {tag} does not match the object on the stack")
            stack[-1].kids = kids
        elif body.startswith(b"BYTES8:", i):
            i += 7
            stack.append(body[i:i + LARGE])
            i += LARGE
        elif body.startswith(b"BYTES:", i):
            stack.append(token(b"BYTES:"))
        elif body.startswith(b"PUT", i):
            k = int(token(b"PUT"))
            if k in memo:
                raise ValueError(f"memo slot {k} written twice")
            # an object is memoised right after it was opened: its children's marker is already on the stack
            top = stack[-1] if stack and stack[-1] is not MARKER else (stack[-2] if len(stack) >= 2 and isinstance(stack[-2], _Loaded) and stack[-2].kind == "obj" and not stack[-2].kids else None)
            if top is None or top is MARKER:
                raise ValueError("PUT with nothing on the stack")
            memo[k] = top
        elif body.startswith(b"GET", i):
            k = int(token(b"GET"))
            if k not in memo:
                raise ValueError(f"GET of memo slot {k} before it was written")
            stack.append(memo[k])
        else:
            op = body[i:i + 1]
            i += 1
            if op == PK["MARK"]:
                stack.append(MARKER)
            elif op == PK["TUPLE"] or op == PK["FROZENSET"]:
                t = _Loaded("tuple" if op == PK["TUPLE"] else "frozenset")
                t.kids = pop_to_mark()
                stack.append(t)
            elif op in (PK["TUPLE1"], PK["TUPLE2"], PK["TUPLE3"]):
                k = {PK["TUPLE1"]: 1, PK["TUPLE2"]: 2, PK["TUPLE3"]: 3}[op]
                if len(stack) < k or any(x is MARKER for x in stack[-k:]):
                    raise ValueError("short tuple opcode without enough items")
                t = _Loaded("tuple")
                t.kids = stack[-k:]
                del stack[-k:]
                stack.append(t)
            elif op == PK["EMPTY_TUPLE"]:
                stack.append(_Loaded("tuple"))
            elif op == PK["POP"]:
                if not stack:
                    raise ValueError("POP on an empty stack")
                stack.pop()
            elif op == PK["POP_MARK"]:
                pop_to_mark()
            else:
                raise ValueError(f"unknown token at byte {i - 1}: {_brief(body[i - 1:i + 20])}")
    if len(stack) != 1 or stack[0] is MARKER:
        raise ValueError(f"{len(stack)} item(s) left on the stack at STOP")
    return stack[0]


def shape_of(root, loaded):
    """canonical description (kinds, order of children, sharing) of an original (abstract values) or a loaded (_Loaded) graph"""
    seen, out = {}, []

    def walk(x):
        if isinstance(x, bytes):
            out.append(("bytes", len(x), x[:12]))
            return
        if id(x) in seen:
            out.append(("ref", seen[id(x)]))
            return
        seen[id(x)] = len(seen)
        if loaded:
            out.append((x.kind, x.tag, len(x.kids)))
            kids = x.kids
        else:
            kind = "obj" if isinstance(x, Obj) else ("frozenset" if isinstance(x, SetV) else "tuple")
            out.append((kind, x.name if kind == "obj" else None, len(kids_of(x))))
            kids = kids_of(x)
        for k in kids:
            walk(k)

    walk(root)
    return out


def _brief(b_):
    r = repr(b_)
    return r if len(r) <= 120 else r[:60] + "..." + r[-50:]


def on_cycle(node, only_tuples=False):
    """is the node reachable from itself through children references (only_tuples: through tuples alone)?"""
    def kids(x):
        return [c for c in kids_of(x) if isinstance(c, (Obj, Seq, SetV)) and (not only_tuples or isinstance(c, (Seq, SetV)))]
    seen, stack = set(), kids(node)
    while stack:
        x = stack.pop()
        if x is node:
            return True
        if id(x) in seen:
            continue
        seen.add(id(x))
        stack += kids(x)
    return False


FROZEN_REPLAY = """import pickle
from edgegraph.structure import Vertex
from edgegraph.output import nrpickler
a, b = Vertex(), Vertex()
group = frozenset({a, b})     # a frozenset shared by the vertices it contains: it lies on a reference cycle
a.group = group
b.group = group
copy = pickle.loads(pickle.dumps(a))          # the recursive pickler copes
assert copy.group is next(iter(copy.group)).group
nrpickler.dumps(a)                            # AssertionError from pickle's memoize (the frozenset is memoised twice)
"""


TUPLE_REPLAY = """import pickle
from edgegraph.structure import Vertex
from edgegraph.output import nrpickler
a, b, c = Vertex(), Vertex(), Vertex()
route = (b, c)            # a tuple shared by a vertex and by one of its own elements: the tuple lies on a reference cycle
a.route = route
b.route = route
copy = pickle.loads(pickle.dumps(a))          # the recursive pickler copes: the shared tuple stays shared
assert copy.route is copy.route[0].route
nrpickler.dumps(a)                            # AssertionError from pickle's memoize (the tuple is memoised twice)
"""


def run(ctx):
    res = ctx.res
    res.level = LEVEL
    res.rule_text = ("SPLICE-ORDER: every ordered tree with <= 4 nodes (5 thorough), each also with one shared (twice referenced) node, plus chains; file events of _NonrecursivePickler.dump "
                     "compared with the recursive pickler's order. NONREC: abstract call depth of dump on chains of length 5/10/20 must not grow; save() must not reach realsave. REGISTRY: C05's scripts.")
    res.trusted_base = common.TRUSTED_AE + ["stand-in for dill.Pickler (rules/c10.py STUB): objects = open, memoize, children, close; memoised bytes leaves, payloads of 64 KiB written straight to the file (pickle._Framer.write_large_bytes); tuples by a transcription of pickle._Pickler.save_tuple; every operation a bytes token",
                                            "dill / pickle then round-trip edgegraph objects for every protocol: trusted, not decided"]
    res.assumptions = ["round-trip isomorphism itself is NOT claimed (not applicable to static analysis): only the three necessary clauses above"]
    res.explanation = ("Necessary conditions only: the deferred operations reach the file in the recursive pickler's order on every object graph of the scope, dump() runs at constant call depth, and "
                       "loaded classes need no __init__-time registry.  Whether dill/pickle then reproduce an isomorphic graph for every protocol is third-party run-time behaviour and is not decided.")
    h = H(ctx.src, ["edgegraph.traversal.helpers", "edgegraph.builder.explicit", "edgegraph.traversal.breadthfirst"])
    stub = h.w.load_text("verif_c10_stub", STUB).globals
    h.w.ext_overrides["dill.Pickler"] = stub["Pickler"]
    files = []

    def bytesio(I, *a, **k):
        f = ExtV("io.BytesIO", methods={"write": lambda I_, f_, data: f_.attrs["events"].append(bytes(data) if isinstance(data, bytearray) else data), "getvalue": lambda I_, f_: Seq(list(f_.attrs["events"]), "list"), "__strict__": True}, attrs={"events": []})
        files.append(f)
        return f

    h.w.ext_overrides["io.BytesIO"] = Builtin("io.BytesIO", bytesio)
    h.w.load(MOD)
    h.w.snapshot()
    mod = h.w.mods[MOD].globals
    if "dumps" not in mod or "dump" not in mod:
        from sa.src import SourceError
        raise SourceError("anchor nrpickler.dumps / dump vanished")
    n = 0
    shapes = trees(5 if ctx.thorough else 4)
    cases = []
    for s in shapes:
        size = str(s).count("leaf") + str(s).count("node")
        cases.append((s, None))
        for i, j in itertools.permutations(range(size), 2):
            if ctx.thorough or (i + j) % 2 == 1 or size <= 3:
                cases.append((s, (i, j)))
    cases = [(s_, sh_, False, (), None) for s_, sh_ in cases] + [(s_, sh_, True, (), None) for s_, sh_ in cases if "leaf" in str(s_)[6:]]
    # tuples (memoised after their elements): each node in turn and all non-root ones, in trees of up to 3 (thorough 4) nodes, alone
    # and with one extra reference - which may close a cycle through the tuple; under the default protocol (short tuples have their own
    # opcodes) and under protocols 1 and 0 (MARK ... TUPLE; protocol 0 has no POP_MARK)
    tcases = []
    for s_, sh_, lb_, _, _ in list(cases):
        size = str(s_).count("leaf") + str(s_).count("node")
        if lb_ or size > (4 if ctx.thorough else 3):
            continue
        for t in range(size):
            for proto in (None, 1, 0):
                tcases.append((s_, sh_, False, (t,), proto))
        if size >= 2:
            tcases.append((s_, sh_, False, tuple(range(1, size)), None))
    cases += tcases
    # the same with frozensets (protocol >= 4: saved like a tuple - elements first, then "memoised meanwhile?", then memoise)
    cases += [(s_, sh_, "frozen", t_, None) for s_, sh_, lb_, t_, pr_ in tcases if pr_ is None and lb_ is False]
    # a payload of 64 KiB among the leaves: the recursive pickler writes it straight to the file, whatever write() has been replaced by
    cases += [(s_, sh_, "large", (), None) for s_, sh_, lb_, _, _ in list(cases) if lb_ is True and (sh_ is None or ctx.thorough)]
    h.w.set_order = "insertion"       # a frozenset is walked in one order by the stand-in and by the reference alike
    for shape, share, leaf_bytes, tuples, proto in cases:
        for entry in ("dumps", "dump"):
            try:
                h.reset()
                h.settle()
                root, nodes = build(h, stub, shape, share, leaf_bytes is True or leaf_bytes == "large", tuples, large=(leaf_bytes == "large"), frozen=(leaf_bytes == "frozen"))
                if tuples and any(on_cycle(nodes[t], only_tuples=True) for t in tuples if t < len(nodes) and isinstance(nodes[t], (Seq, SetV))):
                    continue        # a reference cycle made of tuples only cannot be built (tuples are immutable)
                kw = {} if proto is None else {"protocol": proto}
                if entry == "dumps":
                    out = h.call(mod["dumps"], root, **kw)
                    events = out.value.items if out.kind == "return" and isinstance(out.value, Seq) else ([out.value] if out.kind == "return" and isinstance(out.value, bytes) else None)
                else:
                    f = bytesio(h.I)
                    out = h.call(mod["dump"], root, f, **kw)
                    events = f.attrs["events"] if out.kind == "return" else None
            except Unknown as u:
                res.ob(False)
                res.undecide(f"SPLICE-ORDER {shape} share={share} tuples={list(tuples)} via {entry}: {u}")
                continue
            n += 1
            p_eff = 4 if proto is None else proto
            want = reference(root, p_eff)
            why = None
            if events is None:
                why = f"{entry} gives {out!r}"
            else:
                flat = []
                for e in events:   # a buffered implementation may hand several operations to the file at once
                    if isinstance(e, Seq) and e.kind == "list":
                        flat.extend(e.items)
                    else:
                        flat.append(e)
                if not all(isinstance(e, bytes) for e in flat):
                    raise_unknown = [e for e in flat if not isinstance(e, bytes)][:2]
                    res.ob(False)
                    res.undecide(f"SPLICE-ORDER {shape} share={share} via {entry}: the file received something that is not bytes: {raise_unknown!r}")
                    continue
                stream = b"".join(flat)
                header = PK["PROTO"] + bytes([p_eff]) if p_eff >= 2 else b""
                body = stream[len(header):-1] if stream.startswith(header) else stream[:-1]
                if not stream.endswith(PK["STOP"]):
                    why = f"STOP is not the last thing written: the stream ends with {_brief(stream[-24:])}"
                elif p_eff >= 2 and not stream.startswith(header):
                    why = f"the stream does not start with the protocol header: {_brief(stream[:24])}"
                    if stream.startswith(b"BYTES8:"):
                        why += (" - the payload of 64 KiB, which the recursive pickler writes straight to the file (pickle._Framer.write_large_bytes), reached the file ahead of operations that "
                                "precede it in the stream: what goes through write() is held back somewhere on its way to the file")
                elif body != want:
                    # another stream than the recursive pickler's: it may still load to the same graph (e.g. a duplicate that is built and
                    # dropped again); what counts is what an unpickler makes of it - same kinds, same order, shared objects shared
                    try:
                        back = load_stream(body)
                        if shape_of(back, True) != shape_of(root, False):
                            why = (f"the stream loads to another graph than the one pickled: {shape_of(back, True)[:8]} instead of {shape_of(root, False)[:8]} "
                                   f"(stream {_brief(body)}, the recursive pickler's {_brief(want)})")
                    except ValueError as e:
                        k = next((i for i, (x, y) in enumerate(zip(body, want)) if x != y), min(len(body), len(want)))
                        why = (f"the stream cannot be loaded ({e}): from byte {k} it reads {_brief(body[max(0, k - 12):k + 60])}, "
                               f"the recursive pickler's {_brief(want[max(0, k - 12):k + 60])}")
            res.ob(why is None, sig=(shape, share, entry, leaf_bytes, tuples, proto), sample={"shape": str(shape), "shared": share, "entry": entry, "bytes_leaves": leaf_bytes, "tuples": list(tuples), "protocol": p_eff})
            if why:
                cyc = bool(tuples) and any(on_cycle(nodes[t]) for t in tuples if t < len(nodes) and isinstance(nodes[t], (Seq, SetV)))
                res.violation("SPLICE-ORDER", MOD + "._NonrecursivePickler.dump", f"shared-object={share is not None},entry={entry}" + (",leaves-are-bytes-values" if leaf_bytes in (True, "large") else "") + (",payload-of-64KiB" if leaf_bytes == "large" else "")
                              + (f",{'frozenset' if leaf_bytes == 'frozen' else 'tuple-like-node'}-on-a-cycle={cyc}" if tuples else ""),
                              f"object graph {shape} share={share}{' (childless nodes are bytes values' + (', one of 64 KiB)' if leaf_bytes == 'large' else ')') if leaf_bytes in (True, 'large') else ''}{' with ' + ('frozensets' if leaf_bytes == 'frozen' else 'tuples') + ' at ' + str(list(tuples)) if tuples else ''}"
                              f"{'' if proto is None else ' protocol ' + str(proto)} through {entry}: {why}",
                              replay=(FROZEN_REPLAY if leaf_bytes == "frozen" else TUPLE_REPLAY) if cyc else "")
    res.rule("SPLICE-ORDER", n)
    # ---- NONREC: constant call depth on chains
    depths = {}
    for length in (5, 10, 20):
        shape = ("leaf",)
        for _ in range(length - 1):
            shape = ("node", shape)
        try:
            h.reset()
            h.settle()
            root, nodes = build(h, stub, shape)
            h.w.max_depth = 0
            out = h.call(mod["dumps"], root)
            depths[length] = (h.w.max_depth, out.kind)
        except Unknown as u:
            res.undecide(f"NONREC chain of {length}: {u}")
    if len(depths) == 3:
        ok = len({d for d, k in depths.values()}) == 1 and all(k == "return" for d, k in depths.values())
        res.ob(ok, sig=("nonrec-depth",))
        res.rule("NONREC-DEPTH", 3)
        if not ok:
            res.violation("NONREC", MOD + "._NonrecursivePickler", "call-depth-grows-with-object-depth",
                          f"abstract call depth of dumps() on chains of length 5/10/20 is {[depths[k][0] for k in (5, 10, 20)]} ({[depths[k][1] for k in (5, 10, 20)]}): serialisation recurses with the depth of the object graph")
    # the same for tuples nested in tuples (a cons list (head, (head, (...)))): elements of a tuple are deferred like everything else
    tdepths = {}
    for length in (5, 10, 20):
        try:
            h.reset()
            h.settle()
            t = Seq([b"tail"], "tuple")
            for i in range(length - 1):
                t = Seq([f"head-{i}".encode(), t], "tuple")
            h.w.max_depth = 0
            out = h.call(mod["dumps"], t)
            tdepths[length] = (h.w.max_depth, out.kind)
        except Unknown as u:
            res.undecide(f"NONREC nested tuples of depth {length}: {u}")
    if len(tdepths) == 3:
        ok = len({d for d, k in tdepths.values()}) == 1 and all(k == "return" for d, k in tdepths.values())
        res.ob(ok, sig=("nonrec-depth-tuples",))
        res.rule("NONREC-DEPTH", 3)
        if not ok:
            res.violation("NONREC", MOD + "._NonrecursivePickler", "call-depth-grows-with-tuple-nesting",
                          f"abstract call depth of dumps() on tuples nested 5/10/20 deep is {[tdepths[k][0] for k in (5, 10, 20)]} ({[tdepths[k][1] for k in (5, 10, 20)]}): serialisation recurses with the nesting depth of tuples",
                          replay="from edgegraph.structure import Vertex\nfrom edgegraph.output import nrpickler\nv = Vertex()\nt = ()\nfor i in range(5000):\n    t = (i, t)\nv.cons = t\nnrpickler.dumps(v)   # RecursionError")
    nonrec_structural(ctx, res)
    from sa import eff
    eff.check_fwd(ctx, [(MOD + ".dumps", "_NonrecursivePickler", {"obj": None}), (MOD + ".dump", "_NonrecursivePickler", {"obj": None})])
    # ---- REGISTRY (shared with C05)
    c05.registry(ctx, h, res)
    roundtrip_state(ctx, h, res)
    # ---- the copy is usable: graphs copied through the object protocol into fresh class-level state answer every structural query,
    # traversal and search like the original's reference model, before and after every public mutation, caching on or off
    from rules import hist
    hist.run(ctx, res, "C10", rule="COPY-HISTORY", schedules=("unpickled-on", "unpickled-warm-on", "unpickled-off"))
    common.vacuity(res, "COPY-HISTORY", 8000)
    common.vacuity(res, "SPLICE-ORDER", 60)
    res.analysed = common.analysed(ctx, [MOD + ".dumps", MOD + ".dump", MOD + "._NonrecursivePickler.dump", MOD + "._NonrecursivePickler.save"])
    res.extra["not_decided"] = "round-trip isomorphism for all graphs / protocols (dill and pickle byte-level behaviour)"


def copy_by_object_protocol(h, roots, deepcopy_hooks=False):
    """pickle's default object protocol on the abstract heap: a new instance of the same class without __init__, whose state is
    __getstate__() if the class defines it, else the instance dictionary; __setstate__ if defined.  Containers are copied,
    references are mapped to the copies (shared objects stay shared)."""
    from sa.ae import DictV, SetV
    I = h.I
    clones = {}

    def conv(v):
        if isinstance(v, Obj):
            return clone(v)
        if isinstance(v, Seq):
            return carry(v, Seq([conv(x) for x in v.items], v.kind))
        if isinstance(v, DictV):
            return carry(v, DictV([[hashed(conv(k)), conv(x)] for k, x in v.pairs]))
        if isinstance(v, SetV):
            return carry(v, SetV([hashed(conv(x)) for x in v.items], v.frozen))
        return v

    def carry(v, n):
        """an instance of a user class deriving from a built-in container is re-created as an instance of that class"""
        if getattr(v, "ucls", None) is not None:
            n.ucls, n.ufields = v.ucls, {k: conv(x) for k, x in v.ufields.items()}
        return n

    def hashed(c):
        """the unpickler inserts elements into sets / dict keys as soon as they are created: a user __hash__ runs on the
        new object, which - in a reference cycle - may not have its state restored yet"""
        if isinstance(c, Obj):
            hm, owner = c.cls.lookup("__hash__")
            if hm is not None and not owner.builtin:
                I.call(hm, [c], {})
        return c

    def clone(o):
        if id(o) in clones:
            return clones[id(o)]
        if deepcopy_hooks:
            # copy.deepcopy: a class's own __deepcopy__(memo) decides what the copy of its instances is
            dc, owner_dc = o.cls.lookup("__deepcopy__")
            if dc is not None and not owner_dc.builtin:
                from sa.ae import DictV as _D
                r = I.call(dc, [o, _D()], {})
                clones[id(o)] = r
                return r
        n = Obj(o.cls, (o.name or o.cls.name) + "'")
        clones[id(o)] = n
        gs, owner = o.cls.lookup("__getstate__")
        if gs is not None and not owner.builtin:
            state = I.call(gs, [o], {})
        else:
            state = DictV([[k, v] for k, v in o.fields.items()])
        state = conv(state)
        ss, owner2 = o.cls.lookup("__setstate__")
        if ss is not None and not owner2.builtin:
            I.call(ss, [n, state], {})
        elif isinstance(state, DictV):
            for k, v in state.pairs:
                n.fields[k] = v
        elif state is not None:
            raise Unknown("__getstate__ returned a non-dict state without __setstate__")
        return n

    return [clone(r) for r in roots]


def roundtrip_state(ctx, h, res):
    """"the copy is fully usable when loaded in a fresh interpreter, with neighbor caching on or off": the object protocol's
    state (instance dict or __getstate__) taken under one flag setting must suffice under the other."""
    from rules import c04
    nb = h.fn(c04.FN)
    bft = h.fn("edgegraph.traversal.breadthfirst.bft")
    n = 0
    for dump_flag in (False, True):
        for load_flag in (False, True):
            for warm in (False, True, "hashed-containers"):
                try:
                    h.reset()
                    a, b, c = h.new("Vertex", "a"), h.new("Vertex", "b"), h.new("Vertex", "c")
                    e = h.new("DirectedEdge", "e", a, b)
                    u = h.new("Universe", "U", vertices=Seq([a, b, c], "list"))
                    if warm == "hashed-containers":
                        # graph objects that reach each other through hashed containers: run-time set / dict-key attributes in a cycle
                        from sa.ae import SetV as _SetV, DictV as _DictV
                        h.I.setattr(a, "peers", _SetV([b]))
                        h.I.setattr(b, "peers", _SetV([a]))
                        h.I.setattr(c, "rank_in", _DictV([[u, 3]]))
                    h.settle()
                    c05.set_flag(h, dump_flag)
                    if warm is True:
                        h.call(nb, a)
                    a2, b2, c2, e2, u2 = copy_by_object_protocol(h, [a, b, c, e, u])
                    # "the same uids": read only now, on the original and on the copy (nothing read them before the dump)
                    uid_bad = []
                    for o1, o2 in ((a, a2), (e, e2), (u, u2)) + (((u.fields.get("_laws"), u2.fields.get("_laws")),) if isinstance(u.fields.get("_laws"), Obj) and isinstance(u2.fields.get("_laws"), Obj) else ()):
                        r1, r2 = h.getattr(o1, "uid"), h.getattr(o2, "uid")
                        if not (r1.kind == "return" and r2.kind == "return" and h.I.eq(r1.value, r2.value)):
                            uid_bad.append(f"{o1.name}: {r1!r} / copy {r2!r}")
                    h.w.restore()      # fresh interpreter: class-level state is gone, instances keep theirs
                    c05.set_flag(h, load_flag)
                    outs = [h.call(nb, a2), h.call(nb, a2), h.call(bft, u2, a2), h.setattr(e2, "v2", c2), h.call(nb, a2), h.call(h.fn("edgegraph.builder.explicit.unlink"), a2, c2), h.call(nb, a2)]
                except Unknown as un:
                    res.ob(False)
                    res.undecide(f"round-trip state dump_flag={dump_flag} load_flag={load_flag}: {un}")
                    continue
                except Raised as r:
                    n += 1
                    res.ob(False, sig=("roundtrip", dump_flag, load_flag, warm))
                    res.violation("ROUNDTRIP-STATE", "edgegraph.structure.base.BaseObject", "reconstruction-raises" + (",objects-in-sets-and-dict-keys" if warm == "hashed-containers" else ""),
                                  f"re-creating the objects through the object protocol raises {r} (a user __hash__/__setstate__ runs on an object of a reference cycle before its state is restored)")
                    continue
                n += 1
                res.ob(not uid_bad, sig=("roundtrip-uid", dump_flag, load_flag, warm))
                if uid_bad:
                    res.violation("ROUNDTRIP-STATE", "edgegraph.structure.base.BaseObject.uid", "uid-read-for-the-first-time-after-the-copy",
                                  "a graph copied through the object protocol before anything read its objects' uids: original and copy disagree on uid: " + "; ".join(uid_bad[:3]),
                                  replay="import pickle\nfrom edgegraph.structure import *\nfrom edgegraph.output import nrpickler\na, b = Vertex(), Vertex()\ne = DirectedEdge(a, b)\ncopy = pickle.loads(nrpickler.dumps(e))\nprint(copy.uid == e.uid, copy.v1.uid == a.uid)")
                want = [["b'"], ["b'"], ["a'", "b'"], None, ["c'"], "returns", []]
                got = [([x.name for x in o.value.items] if isinstance(o.value, Seq) else o.value) if o.kind == "return" else "raise " + o.excname for o in outs]
                if outs[5].kind == "return":
                    got[5] = "returns"     # what unlink() returns is C03's business
                ok = got == want
                res.ob(ok, sig=("roundtrip", dump_flag, load_flag, warm))
                if not ok:
                    res.violation("ROUNDTRIP-STATE", "edgegraph.structure.vertex.Vertex", f"caching-at-dump={dump_flag},caching-at-load={load_flag}",
                                  f"a graph copied through the object protocol (state = {'__getstate__()' if h.cls('Vertex').lookup('__getstate__')[0] else 'instance dict'}) with caching {'on' if dump_flag else 'off'} at dump time "
                                  f"and {'on' if load_flag else 'off'} at load time answers {got} to [neighbors(a), neighbors(a), bft(U, a), e.v2 = c, neighbors(a), unlink(a, c), neighbors(a)]; expected {want}")
    res.rule("ROUNDTRIP-STATE", n)


def nonrec_structural(ctx, res):
    prog = common.program(ctx)
    c = prog.cls(MOD + "._NonrecursivePickler")
    save = c.lookup("save")
    if save is None:
        from sa.src import SourceError
        raise SourceError("anchor _NonrecursivePickler.save vanished")
    # methods reachable from save through self.<m>() calls
    seen, todo = set(), ["save"]
    edges = []
    while todo:
        m = todo.pop()
        if m in seen:
            continue
        seen.add(m)
        f = c.lookup(m)
        if f is None or f.cls is not c:
            continue
        for node in ast.walk(f.node):
            if isinstance(node, ast.Call):
                fn = node.func
                s = ast.unparse(fn)
                if isinstance(fn, ast.Attribute) and isinstance(fn.value, ast.Name) and fn.value.id == "self":
                    edges.append((m, fn.attr, node.lineno))
                    todo.append(fn.attr)
                if s in ("dill.Pickler.save", "super().save", "pickle.Pickler.save") or s.endswith("Pickler.save"):
                    edges.append((m, s, node.lineno))
                    seen.add(s)
    bad = [e for e in edges if e[1] in ("realsave", "save") or e[1].endswith("Pickler.save")]
    res.rule("NONREC", len(edges) + 1)
    for m, callee, line in bad:
        res.note(f"NONREC pointer: {c.module.rel}:{line} save() textually reaches {callee} through {m}(); whether serialisation recurses with the depth of the object graph is decided by NONREC-DEPTH")
