"""C06 - every traversal visits exactly the reachable in-universe vertices, once each."""
from __future__ import annotations

from rules import common, trav

LEVEL = "exploration"
KINDS = {"set": "listing is not exactly the reachable in-universe set", "repeat": "a vertex is listed twice", "noreturn": "traversal raises",
         "nonterm": "traversal does not terminate", "forward": "settings are not forwarded unchanged to neighbors()", "ff_result": "ff_result changes more than the listing",
         "forms": "generator and list forms (or the plain default call) disagree on the same input"}


def run(ctx):
    res = ctx.res
    res.level = LEVEL
    n, recs, nmaps, sc = trav.run_sweep(ctx)
    res.rule_text = (f"every neighbour map over inner vertices {sc['inner']} + outside {sc['outside']} with lists of length <= {sc['maxlen']} ({nmaps} maps incl. {sc['sampled']} maps of a fixed-seed family with 3-4 inner + 2 outside vertices and lists <= 3) x universe in "
                     "{None, inner} x 3 traversals (list and generator forms) x ff_result in {None, accept, reject, selective} x rotating (direction, unknown, ff_via) settings; "
                     "helpers.neighbors is a recording stub returning the map's list, so graphs stand for every link configuration producing that neighbour order. "
                     "distinct = distinct (map, universe, traversal, ff_result) evaluations")
    res.trusted_base = common.TRUSTED_AE + ["reference reachability / search schemas rules/trav.py (DESIGN.md A.4)", "neighbors() itself is decided by C04"]
    res.assumptions = ["finite graphs", "vertices do not define __eq__/__hash__", "callbacks are pure"]
    res.exhaustive = True
    res.bounded_only = True
    und = [r for r in recs if r["kind"] == "undecided"]
    for r in und[:5]:
        res.undecide(f"{r['trav']} on {r['map']}: {r['got']}")
    bad = [r for r in recs if r["kind"] in KINDS]
    res.obligations = res.evaluations = n
    res.discharged = n - len({(str(r["map"]), str(r["universe"]), r["trav"], r["ff_result"]) for r in bad}) - len(und)
    res.distinct = set(range(n))
    res.samples = [{"map": {"a": ["b", "x"], "b": ["a", "b"], "x": ["a", "b"]}, "universe": ["a", "b"], "traversal": "bft", "expected": ["a", "b"]}]
    for r in bad:
        mod, lst, gen, _ = trav.TRAVS[r["trav"]]
        fn = f"{mod}.{gen}"
        res.violation("REACH-" + r["kind"].upper(), fn, f"universe={'subclass-overriding-vertices' if r.get('hidden') else (('given-of-a-class-whose-truth-value-is-False' if r.get('falsy_uni') else 'given') if r['universe'] else 'None')},ff_result={r['ff_result'] if r['kind'] == 'ff_result' else 'any'}",
                      f"{r['trav']} ({r['form']} form) on neighbour map {r['map']} universe {r['universe']} ff_result={r['ff_result']} settings={r['settings']}: {KINDS[r['kind']]}; "
                      f"derived {r['got']}, reachable {r.get('reach')}, expected listing {r.get('want')}", replay=trav.replay_map(r))
    res.rule("REACH-SWEEP", n)
    from sa import eff
    eff.check_fwd(ctx, [("edgegraph.traversal.breadthfirst.bft", "ibft", {}), ("edgegraph.traversal.depthfirst.dft_recursive", "idft_recursive", {}),
                        ("edgegraph.traversal.depthfirst.dft_iterative", "idft_iterative", {}), ("edgegraph.traversal.depthfirst.idft_recursive", "_dft_recur", {"start": "v"})])
    from rules import hist
    hist.run(ctx, res, 'C06')       # composition: histories through the public API against the reference model (rules/hist.py)
    from rules import scale
    scale.run(ctx, res, 'C06')      # the same on graphs whose collections have the sizes the tree names (rules/scale.py)
    from rules import genproto
    genproto.run(ctx, res, 'C06')      # generator protocol: suspended / interleaved / abandoned generators, a fault inside one (rules/genproto.py)
    hist.run_sequences(ctx, res, "C06", "universes", 4 if ctx.thorough else 3, small=True)      # membership changes between traversals of one universe
    common.vacuity(res, "SEQUENCE", 500)
    hist.lifetime_traversals(ctx, res, "C06")
    common.vacuity(res, "HISTORY", 3000)
    steps(ctx, res)
    common.vacuity(res, "REACH-SWEEP", 3000)
    res.analysed = common.analysed(ctx, [f"{m}.{g}" for m, l, g, s in trav.TRAVS.values()] + [f"{m}.{l}" for m, l, g, s in trav.TRAVS.values()])
    res.explanation = "Bounded exhaustive abstract evaluation of the whole traversal functions (small-scope sweep); every mismatch is a concrete witness graph."


def steps(ctx, res):
    """Unbounded argument: prologue + one loop iteration / one recursive activation equal the schema step (rules/travstep.py)."""
    from rules import travstep
    try:
        sr = travstep.run_steps(ctx)
    except Exception as e:  # noqa: BLE001 - the step argument is optional; the sweep still decides
        res.note(f"step-transformer argument could not be evaluated ({type(e).__name__}: {e}); verdict rests on the sweep")
        return
    res.rule("SCHEMA-STEP", sr.n)
    res.obligations += sr.n
    res.evaluations += sr.n
    res.discharged += sr.n - len(sr.mismatches) - len(sr.undecided)
    res.extra["schema_step"] = {"obligations": sr.n, "mismatches": len(sr.mismatches), "undecided": len(sr.undecided), "proved": sr.proved}
    if sr.proved and not res.findings and not res.undecided:
        res.bounded_only = False
        res.level = "proof"
        res.explanation = ("Every traversal's prologue and single step (loop iteration / recursive activation, from an arbitrary abstract worklist state with opaque segments) equals the step of "
                           "its search schema, which by the loop-invariant argument of DESIGN.md A.4 gives the statement for graphs of every size; the small-scope sweep found no mismatch either.")
    else:
        for m in sr.mismatches[:3]:
            res.note("step differs from the search schema (not a violation by itself; the sweep decides): " + m[:300])
        for m in sr.undecided[:3]:
            res.note("step not decidable (verdict rests on the sweep): " + m[:300])
