"""History engine: the whole library stack (structure classes, helpers.neighbors with the real memo, explicit builders, traversals,
searches, renderers) evaluated abstractly through the *public API only*, along histories

    build G0 ; [flag schedule] ; observe (warms every cache the tree may keep) ; mutate ; observe ; (mutate ; observe)

and compared, after every step, with a plain reference model replaying the same calls (rules/struct.Model + universes).  Where the
per-property engines decide one function on arbitrary abstract pre-states, this engine decides the *composition*: state that a tree
keeps anywhere (a second cache next to the neighbour memo, a lazily padded end list, a class-level default shared after un-pickling)
only shows along a history, and is then a witness against every property whose observer reads it.

Input classes: vertex family (plain Vertex / vertices whose truth value is False / distinct vertices created with one explicit uid /
Universe objects used as vertices), flag schedule (off; on; on with the flag off around the mutation; switched on after the mutation;
graph copied through the pickle protocol into a world with fresh class-level state), mutator (every public mutator with argument
shapes: fresh end, existing end, None, self-loop, parallel edge), observer."""
from __future__ import annotations
import copy
import itertools

from sa.harness import H, names
from sa.ae import Seq, DictV, SetV, Obj, Unknown, Raised, ClassV, Tok
from rules import struct, c04, trav

HELPERS = "edgegraph.traversal.helpers"
EX = "edgegraph.builder.explicit."
MODS = [HELPERS, "edgegraph.builder.explicit", "edgegraph.traversal.breadthfirst", "edgegraph.traversal.depthfirst"]
DC = struct.DONTCARE

GRP = {"a": "A", "b": "M", "c": "M", "d": "M"}      # a second attribute whose values are NOT unique: several vertices match a search for it

FAMILIES = {
    "plain": ("Vertex", {}),
    "falsy-vertices": ("SymFalsyVert", {}),
    "same-uid-vertices": ("Vertex", {"uid": "a.uid"}),
    "universes-as-vertices": ("Universe", {}),
}
SCHEDULES = ("off", "on", "on/off-around-mutation", "on-after-mutation", "unpickled-on", "unpickled-warm-on", "unpickled-off")


class GM(struct.Model):
    def __init__(self):
        super().__init__()
        self.umem = {}    # universe -> [member names]
        self.vuni = {}    # object -> [universe names]


def m_neighbors(m, v, d, uh):
    """C04 table on the model; DC when a listed link is not two-ended at the moment."""
    out = []
    for l in m.vlinks[v]:
        ends = m.lverts[l]
        if len(ends) != 2:
            return DC
        kind = c04.KINDS.get(m.lclass[l].split(":")[-1], "X")
        other = ends[1] if ends[0] == v else ends[0]
        if other is None:
            return DC          # a half-assigned edge: what the opposite end "is" is not specified
        if d == "ANY" or kind == "U":
            out.append(other)
        elif kind == "D":
            if (d == "FORWARD" and ends[0] == v) or (d == "BACKWARD" and ends[1] == v):
                out.append(other)
        else:
            if uh == "NEIGHBOR":
                out.append(other)
            elif uh == "ERROR":
                return "raise NotImplementedError"
    return out


def m_find_links(m, a, b, dirsens, uh):
    out = []
    for l in m.vlinks[a]:
        ends = m.lverts[l]
        if len(ends) != 2 or None in ends:
            return DC
        if not ((ends[0] == a and ends[1] == b) or (ends[0] == b and ends[1] == a)):
            continue
        kind = c04.KINDS.get(m.lclass[l].split(":")[-1], "X")
        if not dirsens or kind == "U":
            out.append(l)
        elif kind == "D":
            if ends[0] == a and ends[1] == b:
                out.append(l)
        else:
            if uh == "NEIGHBOR":
                out.append(l)
            elif uh == "ERROR":
                return "raise NotImplementedError"
    return sorted(set(out))


class G:
    """The initial graph, built by the code's own constructors.

    a -> b, b -> c (directed), c -- a (undirected), self-loop c -> c, b -> d, d -> a; links of another two-ended type arrive through the mutators;
    universes U = [a, b, c] and W = [] (d outside U)."""

    EDGES = [("e_ab", "DirectedEdge", "a", "b"), ("e_bc", "DirectedEdge", "b", "c"), ("e_ca", "UnDirectedEdge", "c", "a"), ("e_cc", "DirectedEdge", "c", "c"),
             ("e_bd", "DirectedEdge", "b", "d"), ("e_da", "DirectedEdge", "d", "a")]

    def __init__(self, h, family):
        self.h = h
        self.family = family
        vcls, kw = FAMILIES[family]
        key = ("hist", family)
        pool = h.rollback(key)
        if pool is None:
            h.reset()
            pool = {}
            for n in "abcd":
                kw2 = dict(kw)
                if kw2.get("uid") == "a.uid":       # distinct objects created with the uid of the first one (Vertex(uid=a.uid), a restored copy ...)
                    if n == "a":
                        kw2.pop("uid")
                    else:
                        kw2["uid"] = h.I.getattr(pool["a"], "uid")
                pool[n] = h.new(vcls, n, attributes=DictV([["name", n], ["grp", GRP[n]]]), **kw2)
            for n, cls, x, y in self.EDGES:
                pool[n] = h.new(cls, n, pool[x], pool[y])
            pool["U"] = h.new("Universe", "U", vertices=Seq([pool["a"], pool["b"], pool["c"]], "list"), attributes=DictV([["name", "U"]]))
            pool["W"] = h.new("Universe", "W", attributes=DictV([["name", "W"]]))
            extra = {}
            for o in list(pool.values()):
                for k, v in o.fields.items():
                    if isinstance(v, Obj) and v not in pool.values() and v not in extra.values():
                        v.name = f"{o.name}.{k}"
                        extra[v.name] = v
            pool.update(extra)
            h.checkpoint(key, pool)
        self.O = {k: v for k, v in pool.items() if "." not in k}
        self.pool = pool
        h.settle()
        m = self.m = GM()
        for n in "abcd" + "UW":
            m.vlinks[n] = []
            m.vuni[n] = []
        for n, cls, x, y in self.EDGES:
            m.lverts[n] = [x, y]
            m.lclass[n] = cls
            m.vuni[n] = []
            for v in (x, y):
                if n not in m.vlinks[v]:
                    m.vlinks[v].append(n)
        m.umem = {"U": ["a", "b", "c"], "W": []}
        for v in "abc":
            m.vuni[v].append("U")
        if vcls == "Universe":
            for n in "abcd":
                m.umem[n] = []

    def obj(self, n):
        return None if n is None else self.O[n]

def flag(h, on):
    h.fn(struct.FLAG).dict["NEIGHBOR_CACHING"] = bool(on)


# ------------------------------------------------------------------------------- mutators
class Mut:
    def __init__(self, label, kind, qual, do, model):
        self.label, self.kind, self.qual, self.do, self.model = label, kind, qual, do, model


def _is_link(h, o):
    return isinstance(o, Obj) and any(c is h.S["Link"] for c in o.cls.mro)


def _adopt(g, before, mname):
    """the link the call allocated is given the model's name"""
    for o in g.h.w.alloc[before:]:
        if _is_link(g.h, o) and o not in g.O.values():
            o.name = mname
            g.O[mname] = o
            return o
    return None


def _fresh_name(g, name):
    """the model's name for a new link; made unique when the model is no longer followed (model-free continuation for C01)"""
    while name in g.O:
        name += "'"
    return name


def mutators(h, family):
    I = h.I
    f = h.fn
    M = []
    Q = struct.QUAL

    def create(cls, x, y):
        def do(g):
            n0 = len(h.w.alloc)
            out = h.call(h.cls(cls), g.obj(x), g.obj(y))
            if out.kind == "return" and isinstance(out.value, Obj):
                out.value.name = _fresh_name(g, f"new{g.m.nnew + 1}:{cls}")
                g.O[out.value.name] = out.value
            return out

        def model(m):
            e = struct.m_create(m, cls, x, y)
            m.vuni[e] = []
            return ("link", e)
        return Mut(f"{cls}({x}, {y})", "constructor", f"edgegraph.structure.{cls}.__init__" if cls != "SymTwo" else Q["create"], do, model)

    for cls, (x, y) in itertools.product(("DirectedEdge", "UnDirectedEdge", "SymTwo"), (("a", "d"), ("d", "a"), ("d", "d"), ("a", "b"))):
        M.append(create(cls, x, y))

    def create_rejected(cls, x, bad_first):
        """an edge constructor given something that is not a vertex as one end: TypeError, and the graph is as before"""
        def do(g):
            bad = "not-a-vertex"
            return h.call(h.cls(cls), *((bad, g.obj(x)) if bad_first else (g.obj(x), bad)))
        return Mut(f"{cls}({'<str>, ' + x if bad_first else x + ', <str>'})  # rejected", "constructor-rejected", f"edgegraph.structure.{cls}.__init__", do, lambda m: "raise")

    M += [create_rejected("DirectedEdge", "a", False), create_rejected("DirectedEdge", "b", True), create_rejected("UnDirectedEdge", "c", False)]

    def setend(l, i, x):
        return Mut(f"{l}.v{i + 1} = {x}", f"set_v{i + 1}", Q[f"set_v{i + 1}"], lambda g: h.setattr(g.obj(l), f"v{i + 1}", g.obj(x)), lambda m: struct.m_set_end(m, l, i, x))

    for l, i, x in (("e_ab", 1, "d"), ("e_ab", 1, "c"), ("e_ab", 0, "c"), ("e_ab", 0, "b"), ("e_ab", 1, "a"), ("e_cc", 1, "a"), ("e_cc", 0, "d"), ("e_ca", 0, "b"), ("e_ca", 1, "d"), ("e_da", 1, "c"), ("e_da", 0, "b"),
                    ("e_bc", 1, None), ("e_ab", 1, "b")):
        M.append(setend(l, i, x))

    def unlink_from(l, x):
        return Mut(f"{l}.unlink_from({x})", "unlink_from", Q["unlink_from"], lambda g: h.call(I.getattr(g.obj(l), "unlink_from"), g.obj(x)), lambda m: struct.m_unlink_from(m, l, x))

    def remove_from_link(v, l):
        return Mut(f"{v}.remove_from_link({l})", "remove_from_link", Q["remove_from_link"], lambda g: h.call(I.getattr(g.obj(v), "remove_from_link"), g.obj(l)), lambda m: struct.m_remove_from_link(m, v, l))

    def add_vertex(l, x):
        return Mut(f"{l}.add_vertex({x})", "add_vertex", Q["add_vertex"], lambda g: h.call(I.getattr(g.obj(l), "add_vertex"), g.obj(x)), lambda m: struct.m_add_vertex(m, l, x))

    def add_to_link(v, l):
        return Mut(f"{v}.add_to_link({l})", "add_to_link", Q["add_to_link"], lambda g: h.call(I.getattr(g.obj(v), "add_to_link"), g.obj(l)), lambda m: struct.m_add_to_link(m, v, l))

    def seq(*muts):
        def do(g):
            out = None
            for mu in muts:
                out = mu.do(g)
                if out.kind != "return":
                    return out
            return out

        def model(m):
            r = None
            for mu in muts:
                r = mu.model(m)
                if r is DC:
                    return DC
                if r == "raise":
                    return "raise"      # the compound stops at the call that raises (as its evaluation does)
            return r
        return Mut("; ".join(mu.label for mu in muts), "+".join(mu.kind for mu in muts), muts[-1].qual, do, model)

    M += [unlink_from("e_bc", "c"), unlink_from("e_ab", "a"), remove_from_link("b", "e_bc"), remove_from_link("a", "e_ca"),
          seq(unlink_from("e_bc", "c"), add_vertex("e_bc", "d")), seq(unlink_from("e_ab", "a"), add_vertex("e_ab", "c")), seq(remove_from_link("b", "e_ab"), add_to_link("d", "e_ab")),
          seq(remove_from_link("c", "e_ca"), add_to_link("b", "e_ca")), seq(unlink_from("e_bd", "d"), add_vertex("e_bd", "a"))]

    # a vertex loses one link and gains another: the *number* of its links is the same before and after
    M += [seq(remove_from_link("a", "e_ab"), create("DirectedEdge", "a", "d")), seq(setend("e_ab", 0, "c"), setend("e_bd", 1, "a")), seq(unlink_from("e_ca", "a"), add_vertex("e_ca", "b"), create("UnDirectedEdge", "d", "a"))]

    # ---- explicit builders
    def joining(m, x, y):
        return struct.m_joining(m, x, y)

    def ex_link(fname, cls, x, y, dontdup):
        made = cls or {"link_directed": "DirectedEdge", "link_undirected": "UnDirectedEdge"}[fname]

        def do(g):
            n0 = len(h.w.alloc)
            if fname == "link_from_to":
                out = h.call(f(EX + fname), g.obj(x), h.cls(cls), g.obj(y), dontdup=dontdup)
            else:
                out = h.call(f(EX + fname), g.obj(x), g.obj(y), dontdup=dontdup)
            if out.kind == "return" and isinstance(out.value, Obj) and out.value not in g.O.values():
                out.value.name = _fresh_name(g, f"new{g.m.nnew + 1}:{made}")
                g.O[out.value.name] = out.value
            return out

        def model(m):
            if dontdup and any(len(m.lverts[l]) != 2 for v_ in (x, y) for l in m.vlinks[v_] if l in m.lverts):
                return DC        # the scan for an existing joining link meets a link that has lost an end: not specified
            J = joining(m, x, y)
            if dontdup and J:
                return ("link-any", J)
            e = struct.m_create(m, made, x, y)
            m.vuni[e] = []
            return ("link", e)
        return Mut(f"explicit.{fname}({x}, {(cls + ', ') if cls else ''}{y}, dontdup={dontdup})", fname + ("/dontdup" if dontdup else ""), Q[fname], do, model)

    for fname, cls in (("link_directed", None), ("link_undirected", None), ("link_from_to", "SymTwo")):
        for (x, y), dd in itertools.product((("a", "d"), ("c", "b"), ("a", "b"), ("d", "d")), (False, True)):
            M.append(ex_link(fname, cls, x, y, dd))

    def ex_unlink(x, y, destroy):
        def model(m):
            if any(len(m.lverts[l]) != 2 for v_ in (x, y) for l in m.vlinks[v_] if l in m.lverts):
                return DC        # a link with more or fewer than two ends on either vertex: whether it "joins" them is not specified
            J = joining(m, x, y)
            for l in J:
                for v in (x, y):
                    while v in m.lverts[l]:
                        m.lverts[l].remove(v)
                    if l in m.vlinks[v]:
                        m.vlinks[v].remove(l)
            return ("linkset", sorted(J)) if not destroy else None
        return Mut(f"explicit.unlink({x}, {y}, destroy={destroy})", "unlink", Q["unlink"], lambda g: h.call(f(EX + "unlink"), g.obj(x), g.obj(y), destroy), model)

    for (x, y), d in itertools.product((("a", "b"), ("b", "a"), ("c", "c"), ("a", "c"), ("a", "d"), ("b", "d")), (True, False)):
        M.append(ex_unlink(x, y, d))

    def ex_unlink_beside_half_detached(v, l, x, y, destroy):
        """v.remove_from_link(l) leaves l on its other end with one end only; then unlink(x, y) where x still lists l.  Whether such a
        link "joins" anything is not specified, so the outcome of the unlink is open - but it is one call: either it raises and the
        graph is as before, or it completes.  Raising after some of the joining links have already been removed is neither."""
        def snap(g):
            out = {}
            for n, o in g.O.items():
                for attr in ("links", "vertices", "universes"):
                    try:
                        out[(n, attr)] = lab(I.getattr(o, attr))
                    except (Raised, Unknown):
                        pass
            return out

        def do(g):
            first = h.call(I.getattr(g.obj(v), "remove_from_link"), g.obj(l))
            if first.kind != "return":
                return first
            before = snap(g)
            out = h.call(f(EX + "unlink"), g.obj(x), g.obj(y), destroy)
            g.atomicity = None
            if out.kind == "raise":
                after = snap(g)
                diff = [f"{n}.{attr}: {before[(n, attr)]} -> {after.get((n, attr))}" for (n, attr) in before if before[(n, attr)] != after.get((n, attr))]
                if diff:
                    g.atomicity = f"explicit.unlink({x}, {y}) raises {out.excname} after it has already changed the graph ({'; '.join(diff)[:300]}): neither the documented effect nor none"
            return out

        def model(m):
            struct.m_remove_from_link(m, v, l)
            return DC
        return Mut(f"{v}.remove_from_link({l}); explicit.unlink({x}, {y}, destroy={destroy})", "remove_from_link+unlink-beside-a-half-detached-link", Q["unlink"], do, model)

    M += [ex_unlink_beside_half_detached("c", "e_ca", "a", "b", True), ex_unlink_beside_half_detached("c", "e_bc", "b", "a", False), ex_unlink_beside_half_detached("d", "e_da", "a", "b", False)]

    # ---- universes
    def u_add(u, v, side):
        def do(g):
            if side == "u":
                return h.call(I.getattr(g.obj(u), "add_vertex"), g.obj(v))
            return h.call(I.getattr(g.obj(v), "add_to_universe"), g.obj(u))

        def model(m):
            if side == "u":
                if v not in m.umem[u]:
                    m.umem[u].append(v)
                if u not in m.vuni[v]:
                    m.vuni[v].append(u)
            else:
                # Vertex.add_to_universe: records the universe on the vertex and, if needed, the vertex in the universe
                if u not in m.vuni[v]:
                    m.vuni[v].append(u)
                if v not in m.umem[u]:
                    m.umem[u].append(v)
            return None
        return Mut(f"{u}.add_vertex({v})" if side == "u" else f"{v}.add_to_universe({u})", "universe-add" if side == "u" else "universe-add/object-side",
                   "edgegraph.structure.universe.Universe.add_vertex" if side == "u" else "edgegraph.structure.vertex.Vertex.add_to_universe", do, model)

    def v_remove(v, u):
        def model(m):
            if u in m.vuni[v]:
                m.vuni[v].remove(u)
                if v in m.umem[u]:
                    m.umem[u].remove(v)
                return None
            return "raise"
        return Mut(f"{v}.remove_from_universe({u})", "universe-remove/object-side", "edgegraph.structure.vertex.Vertex.remove_from_universe",
                   lambda g: h.call(I.getattr(g.obj(v), "remove_from_universe"), g.obj(u)), model)

    def u_remove(u, v):
        def model(m):
            if v in m.umem[u]:
                m.umem[u].remove(v)
                if u in m.vuni[v]:
                    m.vuni[v].remove(u)
                return None
            return "raise"
        return Mut(f"{u}.remove_vertex({v})", "universe-remove", "edgegraph.structure.universe.Universe.remove_vertex", lambda g: h.call(I.getattr(g.obj(u), "remove_vertex"), g.obj(v)), model)

    M += [u_add("U", "d", "u"), u_add("U", "a", "u"), u_add("W", "U", "u"), u_add("U", "U", "u"), u_add("W", "a", "u"), u_remove("U", "b"), u_remove("U", "a"), u_remove("U", "d"), u_remove("W", "a"),
          u_add("U", "d", "v"), u_add("W", "a", "v"), v_remove("b", "U"), v_remove("d", "U"),
          # a member leaves and another one joins: the universe has the same size before and after
          seq(u_remove("U", "b"), u_add("U", "d", "u")), seq(v_remove("a", "U"), u_add("U", "d", "v")), seq(u_add("U", "d", "u"), u_remove("U", "c"))]
    # a third vertex joins a two-ended link (the statement's "links that name one vertex several times" / more than two ends)
    M += [add_to_link("d", "e_ab"), add_vertex("e_bc", "a"), seq(add_to_link("d", "e_ab"), ex_unlink("a", "b", True)), seq(add_vertex("e_ca", "b"), ex_unlink("c", "a", False))]
    h._mk = dict(create=create, setend=setend, unlink_from=unlink_from, remove_from_link=remove_from_link, add_vertex=add_vertex, add_to_link=add_to_link, seq=seq,
                 ex_link=ex_link, ex_unlink=ex_unlink, u_add=u_add, u_remove=u_remove, v_remove=v_remove)
    if FAMILIES[family][0] == "Universe":
        # the vertices are universes themselves: one of them takes a member that is outside U
        M += [u_add("a", "d", "u"), u_add("b", "d", "v"), seq(u_add("a", "d", "u"), u_add("c", "b", "u"))]
    return M


# ------------------------------------------------------------------------------- observers
def lab(x):
    if isinstance(x, Obj):
        return x.name
    if isinstance(x, Seq):
        return [lab(i) for i in x.items]
    if isinstance(x, SetV):
        return sorted(str(lab(i)) for i in x.items)
    return x if isinstance(x, (int, str, bool, type(None))) else repr(x)


def osig(out):
    if out.kind == "raise":
        return "raise " + out.excname
    return lab(out.value)


class Obs:
    """name, property ids it serves, qual of the function it reads through, do(g) -> Outcome, want(m) -> value | DC"""

    def __init__(self, name, props, qual, do, want, cmp=None):
        self.name, self.props, self.qual, self.do, self.want, self.cmp = name, props, qual, do, want, cmp


def observers(h, C, more=(), more_unis=(), pairs=(), starts=()):
    """more / more_unis / pairs / starts: further vertex / universe names to read, pairs for find_links and start vertices for the
    traversals and searches (the scale families of rules/scale.py name bulk objects)"""
    I = h.I
    f = h.fn
    nb, fl = f(c04.FN), f(HELPERS + ".find_links")
    O = []
    V4 = ["a", "b", "c", "d"] + list(more)
    loc = I.bind_args(nb, [None], {})
    dflt_d = next((k for k in ("FORWARD", "BACKWARD", "ANY") if C[k] == loc.get("direction_sensitive")), None)
    dflt_uh = next((k for k in c04.UHS if C[k] == loc.get("unknown_handling")), None)
    if dflt_d is None or dflt_uh is None:
        raise Unknown("defaults of neighbors() are not among its documented constants")
    for v in V4 + ["U"]:
        O.append(Obs(f"{v}.links", ("C03", "C13"), "edgegraph.structure.vertex.Vertex.links", lambda g, v=v: h.getattr(g.obj(v), "links"), lambda m, v=v: list(m.vlinks[v])))
        O.append(Obs(f"{v}.universes", ("C02", "C03", "C13"), "edgegraph.structure.base.BaseObject.universes", lambda g, v=v: h.getattr(g.obj(v), "universes"), lambda m, v=v: sorted(m.vuni[v]),
                     cmp=lambda got, want: isinstance(got, list) and len(got) == len(set(got)) and sorted(got) == want))
    for u in ["U", "W"] + list(more_unis):
        O.append(Obs(f"{u}.vertices", ("C02", "C03", "C13"), "edgegraph.structure.universe.Universe.vertices", lambda g, u=u: h.getattr(g.obj(u), "vertices"), lambda m, u=u: list(m.umem[u])))

    def links_of(m):
        return sorted(m.lverts)

    O.append(Obs("every link's vertices", ("C03", "C13"), "edgegraph.structure.link.Link.vertices",
                 lambda g: _all_ends(h, g), lambda m: {l: list(m.lverts[l]) for l in links_of(m)}))
    O.append(Obs("I1 (l in v.links <=> v in l.vertices, no duplicate) read through the accessors", ("C01",), "edgegraph.structure.vertex.Vertex.links", lambda g: _i1(h, g), lambda m: []))
    for v in V4:
        for d, uh in (("FORWARD", "NEIGHBOR"), ("BACKWARD", "NONNEIGHBOR"), ("ANY", "NONNEIGHBOR")):
            O.append(Obs(f"neighbors({v}, {d}, {uh})", ("C04", "C05", "C09"), c04.FN, lambda g, v=v, d=d, uh=uh: h.call(nb, g.obj(v), C[d], C[uh]),
                         lambda m, v=v, d=d, uh=uh: m_neighbors(m, v, d, uh)))
        O.append(Obs(f"neighbors({v})", ("C04", "C05", "C16"), c04.FN, lambda g, v=v: h.call(nb, g.obj(v)), lambda m, v=v: m_neighbors(m, v, dflt_d, dflt_uh)))
    for a, b in (("a", "b"), ("b", "a"), ("c", "c"), ("c", "a"), ("a", "d"), ("d", "a"), ("b", "d")) + tuple(pairs):
        for ds in (True, False):
            O.append(Obs(f"find_links({a}, {b}, direction_sensitive={ds})", ("C09",), HELPERS + ".find_links",
                         lambda g, a=a, b=b, ds=ds: h.call(fl, g.obj(a), g.obj(b), ds, C["NEIGHBOR"]), lambda m, a=a, b=b, ds=ds: m_find_links(m, a, b, ds, "NEIGHBOR")))
    for tname, (mod, lst, gen, srch) in trav.TRAVS.items():
        for uni, start, d in ((None, "a", "FORWARD"), ("U", "a", "FORWARD"), (None, "c", "ANY"), ("U", "b", "BACKWARD"), (None, "d", True), ("U", "c", False)) + tuple((u_, s_, "FORWARD") for s_ in starts for u_ in (None, "U")):
            dval = d
            if isinstance(d, bool):
                # the direction given as a bool: it means whatever documented constant it equals (a bool is an int)
                d = next((k for k in ("FORWARD", "BACKWARD", "ANY") if C[k] == dval), None)
                if d is None:
                    continue
            else:
                dval = C[d]

            def want(m, tname=tname, uni=uni, start=start, d=d):
                nbm = {}
                for v in m.vlinks:
                    r = m_neighbors(m, v, d, "NEIGHBOR")
                    if r is DC or isinstance(r, str):
                        return DC
                    nbm[v] = r
                member = (lambda x: True) if uni is None else (lambda x: x in m.umem[uni])
                if not member(start):
                    return DC          # a start vertex outside the universe: not specified
                return trav.REF[tname](nbm, start, member)
            O.append(Obs(f"{lst}({uni}, {start}, {d if not isinstance(dval, bool) else repr(dval) + ' (== ' + d + ')'})", ("C05", "C06", "C07"), f"{mod}.{gen}",
                         lambda g, fn=f(f"{mod}.{lst}"), uni=uni, start=start, dval=dval: h.call(fn, g.obj(uni), g.obj(start), direction_sensitive=dval, unknown_handling=C["NEIGHBOR"]), want))
        # the same traversal twice under LNK_UNKNOWN_ERROR: with a link of unknown type on a reachable vertex both calls raise, otherwise
        # both list the reference order (a first call that raised must not leave a partial answer behind for the second)
        def want_err(m, tname=tname):
            nbm, has_x = {}, set()
            for v in m.vlinks:
                r = m_neighbors(m, v, "FORWARD", "NONNEIGHBOR")
                if r is DC:
                    return DC
                nbm[v] = r
                if isinstance(m_neighbors(m, v, "FORWARD", "ERROR"), str):
                    has_x.add(v)
            order = trav.REF[tname](nbm, "a", lambda x: True)
            w = "raise NotImplementedError" if any(v in has_x for v in order) else order
            return [w, w]

        def do_err(g, fn=f(f"{mod}.{lst}")):
            from sa.harness import Outcome
            return Outcome("return", _Plain([osig(h.call(fn, None, g.obj("a"), direction_sensitive=C["FORWARD"], unknown_handling=C["ERROR"])) for _ in (0, 1)]))
        O.append(Obs(f"{lst}(None, a, FORWARD, ERROR) twice", ("C05", "C06", "C07", "C13"), f"{mod}.{gen}", do_err, want_err))
        for uni, start, val in (((None, "a", "d"), ("U", "a", "c"), ("U", "a", "d"), (None, "b", "b"), (None, "a", ("grp", "M")), ("U", "c", ("grp", "M")))
                                + tuple((u_, s_, v_) for s_ in starts for u_, v_ in ((None, "d"), ("U", "c"), ("U", "d"), (None, ("grp", "M")), ("U", ("grp", "M"))))):
            attr, val = val if isinstance(val, tuple) else ("name", val)

            def wants(m, tname=tname, uni=uni, start=start, val=val, attr=attr):
                nbm = {}
                for v in m.vlinks:
                    r = m_neighbors(m, v, dflt_d, dflt_uh)
                    if r is DC or isinstance(r, str):
                        return DC          # the searches use the default settings: a link of unknown type anywhere makes the outcome depend on the expansion order
                    nbm[v] = r
                member = (lambda x: True) if uni is None else (lambda x: x in m.umem[uni])
                if not member(start):
                    return DC
                order = trav.REF[tname](nbm, start, member)
                if attr == "name":
                    return val if val in order else None
                return next((v_ for v_ in order if GRP.get(v_, "B") == val), None)      # the first listed vertex of that group
            O.append(Obs(f"{srch}({uni}, {start}, {attr!r}, {val!r})", ("C05", "C08"), f"{mod}.{srch}",
                         lambda g, fn=f(f"{mod}.{srch}"), uni=uni, start=start, val=val, attr=attr: h.call(fn, g.obj(uni), g.obj(start), attr, val), wants))
    return O


def _all_ends(h, g):
    from sa.harness import Outcome
    out = {}
    for n, o in sorted(g.O.items()):
        if _is_link(h, o):
            r = h.getattr(o, "vertices")
            out[n] = osig(r)
    return Outcome("return", _Plain(out))


def _i1(h, g):
    from sa.harness import Outcome
    vl, lv = {}, {}
    for n, o in sorted(g.O.items()):
        if _is_link(h, o):
            lv[n] = osig(h.getattr(o, "vertices"))
        else:
            vl[n] = osig(h.getattr(o, "links"))
    bad = []
    for v, ls in vl.items():
        if not isinstance(ls, list):
            bad.append(f"{v}.links: {ls}")
            continue
        for l, ends in lv.items():
            if not isinstance(ends, list):
                bad.append(f"{l}.vertices: {ends}")
                continue
            k = ls.count(l)
            if k > 1:
                bad.append(f"{v}.links lists {l} {k} times")
            elif (k == 1) != (v in ends):
                bad.append(f"{l} in {v}.links: {k == 1}, but {v} in {l}.vertices: {v in ends}")
    return Outcome("return", _Plain(sorted(set(bad))))


def scribble(out):
    """The caller does what it likes with a collection it was handed: after an observation has been read, the returned list / set is
    reversed and emptied in place.  Results are snapshots (C12), so nothing the library answers later may depend on it."""
    v = out.value if out.kind == "return" else None
    if isinstance(v, Seq) and v.kind == "list" and not v.has_seg() and getattr(v, "ucls", None) is None:
        v.items.reverse()
        del v.items[len(v.items) // 2:]
    elif isinstance(v, SetV) and not v.frozen and not v.opaque:
        del v.items[:]


class _Plain:
    """an already-projected observation"""

    def __init__(self, v):
        self.v = v


# ------------------------------------------------------------------------------- pickle-protocol copy
def unpickled_copy(h, g):
    """The graph as plain pickle re-creates it in a fresh interpreter: every object reachable from the named individuals is
    re-created without __init__ from the state its class hands out (__getstate__ / instance dictionary, __setstate__ when defined,
    shared objects stay shared), and class-level state is what importing the modules establishes."""
    I = h.I
    memo = {}

    def cp(v):
        if isinstance(v, Obj):
            if id(v) in memo:
                return memo[id(v)]
            if getattr(v.cls, "extern", False) or any(getattr(c, "extern", False) for c in v.cls.mro):
                raise Unknown("copy of an instance of an external class")
            n = Obj(v.cls)
            n.name = v.name
            memo[id(v)] = n
            keep.append(v)
            gs = v.cls.lookup("__getstate__")[0]
            if v.cls.lookup("__reduce_ex__")[0] is not None or v.cls.lookup("__reduce__")[0] is not None:
                raise Unknown(f"{v.cls.name} defines __reduce__/__reduce_ex__")
            state = I.call(I.getattr(v, "__getstate__"), [], {}) if gs is not None else DictV([[k, x] for k, x in v.fields.items()])
            if isinstance(state, DictV):
                state = DictV([[cp(k), cp(x)] for k, x in state.pairs])
            else:
                state = cp(state)
            ss = v.cls.lookup("__setstate__")[0]
            if ss is not None:
                I.call(I.getattr(n, "__setstate__"), [state], {})
            elif isinstance(state, DictV):
                for k, x in state.pairs:
                    if not isinstance(k, str):
                        raise Unknown("non-string key in pickled state")
                    n.fields[k] = x
            elif state is not None:
                raise Unknown("pickled state is not a dictionary")
            return n
        if isinstance(v, Seq):
            if id(v) in memo:
                return memo[id(v)]
            n = Seq([], v.kind)
            if v.kind != "tuple":
                memo[id(v)] = n
            keep.append(v)
            n.items = [cp(x) for x in v.items]
            return carry(v, n)
        if isinstance(v, DictV):
            if id(v) in memo:
                return memo[id(v)]
            n = copy.copy(v)
            n.pairs = []
            memo[id(v)] = n
            keep.append(v)
            n.pairs = [[cp(k), cp(x)] for k, x in v.pairs]
            return carry(v, n)
        if isinstance(v, SetV):
            n = copy.copy(v)
            n.items = [cp(x) for x in v.items]
            return carry(v, n)
        return v          # atoms: numbers, strings, tokens, classes and functions (pickled by reference)

    def carry(v, n):
        if getattr(v, "ucls", None) is not None:
            n.ucls, n.ufields = v.ucls, {k: cp(x) for k, x in v.ufields.items()}
        return n

    keep = []              # keeps the originals alive while id()-keyed memo entries exist
    newO = {k: cp(o) for k, o in g.O.items()}
    g.O = newO
    g.pool = dict(newO)
    return g


# ------------------------------------------------------------------------------- driver
STATE_PROPS = ("C01", "C02", "C03", "C13")


def plan(thorough):
    """(family, schedule, mutator filter) triples: the plain family meets every schedule and every mutator; the other families meet
    the schedules 'on' and 'off' (thorough: all)."""
    out = []
    for fam in FAMILIES:
        for sch in SCHEDULES:
            if sch == "unpickled-off":
                continue        # only on request (C10)
            if fam == "plain" or thorough or sch in ("on", "off"):
                out.append((fam, sch))
    return out


def check_result(out, mr, g):
    """-> None | text: the call's own outcome against the model's"""
    if mr == "raise":
        return None if out.kind == "raise" else f"returns {osig(out)!r} where the model raises (and leaves the graph unchanged)"
    if out.kind == "raise":
        return f"raises {out.excname}"
    if mr is None:
        return None
    kind, want = mr
    v = out.value
    if kind == "link":
        return None if isinstance(v, Obj) and v.name == want else f"returns {lab(v)!r}, the model creates and returns {want}"
    if kind == "link-any":
        return None if isinstance(v, Obj) and v.name in want else f"returns {lab(v)!r}, the model returns one of the joining links {want} and creates nothing"
    if kind == "linkset":
        got = sorted(str(x) for x in lab(v)) if isinstance(v, (Seq, SetV)) else lab(v)
        return None if got == want else f"returns {got!r}, the model returns exactly the removed links {want}"
    return None


class Hit:
    def __init__(self, **kw):
        self.__dict__.update(kw)


class _Collector:
    """records the Result calls made in a worker process"""

    def __init__(self):
        self.calls = []

    def ob(self, ok, sig=None, sample=None):
        self.calls.append(("ob", (ok, sig, None)))

    def violation(self, *a, **k):
        self.calls.append(("violation", (a, k)))

    def undecide(self, why):
        self.calls.append(("undecide", (why,)))

    def note(self, s_):
        self.calls.append(("note", (s_,)))


_WORLD = {}


def _job(job):
    from sa.src import Source
    root, overlay, prop, rule, fam, sch, extra, mut_kinds, quick_subset, first, chunk = job
    key = (root, tuple(sorted(overlay.items())), extra)
    if _WORLD.get("key") != key:
        src = Source(root, overlay)
        mods = list(MODS)
        xo = None
        if extra:
            import importlib
            xo = getattr(importlib.import_module(extra[0]), extra[1])
            mods += list(getattr(xo, "modules", ()))
        h = H(src, mods)
        if xo is not None and hasattr(xo, "setup"):
            xo.setup(h)
        _WORLD.update(key=key, h=h, xo=xo)
    col = _Collector()
    try:
        n = run_one(_WORLD["h"], col, prop, rule, fam, sch, _WORLD["xo"], mut_kinds, quick_subset, first, chunk)
    except Unknown as u:
        col.undecide(f"history engine, {fam} / {sch}: {u}")
        n = 0
    except Raised as r:
        col.undecide(f"history engine, {fam} / {sch}: building the graph raises {r}")
        n = 0
    return n, col.calls


def run(ctx, res, prop, rule="HISTORY", extra=None, families=None, thorough=None, mut_kinds=None, schedules=None):
    """Evaluate the histories for property `prop` (one job per family x schedule, in parallel); returns the number of comparisons.
    extra = (module name, attribute) of a function (h, C) -> [Obs] with an optional .modules attribute."""
    thorough = ctx.thorough if thorough is None else thorough
    root, overlay = str(ctx.src.root), dict(ctx.src.overlay)
    jobs = []
    todo = plan(thorough)
    if schedules:
        todo = [(fam, sch) for fam in FAMILIES for sch in schedules if thorough or fam == "plain" or sch != "unpickled-off"]
    for fam, sch in todo:
        if families and fam not in families or schedules and sch not in schedules:
            continue
        jobs.append((root, overlay, prop, rule, fam, sch, extra, mut_kinds, (not thorough) and fam != "plain", None, None))
    if thorough and not mut_kinds:
        # two mutations in a row (first one out of a representative per kind), observed after the second
        for sch in ("on", "on/off-around-mutation"):
            if schedules and sch not in schedules:
                continue
            for first in range(N_FIRST):
                jobs.append((root, overlay, prop, rule, "plain", sch, extra, None, False, first, None))
    import multiprocessing as mp
    import os
    cpus = min(os.cpu_count() or 1, 16)
    if len(jobs) < cpus and not mp.current_process().daemon:
        # few (family, schedule) jobs: split each one's mutators into interleaved chunks so that every core has work
        k = max(1, cpus // max(1, len(jobs)))
        jobs = [j[:10] + ((i, k),) for j in jobs for i in range(k)]
    nproc = min(len(jobs), cpus)
    if nproc > 1 and not os.environ.get("VERIF_HIST_SERIAL") and not mp.current_process().daemon:
        with mp.get_context("fork").Pool(nproc) as pool:
            parts = pool.map(_job, jobs, chunksize=1)
    else:
        parts = [_job(j) for j in jobs]
    n = 0
    for k, calls in parts:
        n += k
        for name, args in calls:
            if name == "ob":
                res.ob(args[0], sig=args[1])
            elif name == "violation":
                res.violation(*args[0], **args[1])
            elif name == "undecide":
                res.ob(False)
                res.undecide(*args)
            else:
                res.note(*args)
    res.rule(rule, n)
    res.extra.setdefault("histories", {})[rule] = {"jobs": sorted({f"{j[4]} / {j[5]}" for j in jobs}), "processes": nproc, "comparisons": n}
    return n


N_FIRST = 24


def representatives(MUT):
    pick, keep = set(), []
    for mu in MUT:
        if mu.kind not in pick or mu.kind in ("constructor", "set_v1", "set_v2"):
            pick.add(mu.kind)
            keep.append(mu)
    return keep


def run_one(h, res, prop, rule, fam, sch, extra_observers, mut_kinds, quick_subset, first=None, chunk=None):
    C = c04.consts(h)
    OBS = (extra_observers(h, C) if extra_observers else []) + observers(h, C)      # a renderer is observed before the plain queries it is built on
    if prop == "C10":
        for o in OBS:
            o.props = tuple(o.props) + ("C10",)      # the copy answers *every* query like the original's model
    mine = [o for o in OBS if prop in o.props] if prop != "C13" else list(OBS)      # C13: every read-only operation runs between two readings of the state
    warm = [o for o in OBS if o.name.endswith((".links", ".universes", ".vertices", "vertices")) or o.name.startswith("neighbors(")]
    state = [o for o in OBS if o.name.endswith((".links", ".universes", ".vertices", "vertices")) or o.name.startswith("I1 ")]
    n = 0
    seen = set()

    def observe(g, phase, ctxinfo, check=True, mine_first=False):
        nonlocal n
        # mine_first: the property's own observers are the first readers after the mutation (they meet cold caches), the accessors
        # and neighbors() queries follow; otherwise the other way round
        todo = (mine + warm if mine_first else warm + mine) + (state if prop in STATE_PROPS else [])
        for idx, o in enumerate(todo):
            out = o.do(g)
            if not check or prop not in o.props:
                scribble(out)
                continue
            want = o.want(g.m)
            if want is DC:
                scribble(out)
                continue
            got = out.value.v if out.kind == "return" and isinstance(out.value, _Plain) else osig(out)
            scribble(out)
            ok = o.cmp(got, want) if o.cmp else got == want
            n += 1
            fam_, sch_, mu = ctxinfo
            late = idx >= len(warm) + len(mine)
            res.ob(ok, sig=(fam_, sch_, mu.label if mu else None, phase, o.name, late))
            if not ok:
                key = (o.qual, mu.kind if mu else None, o.name.split("(")[0])
                if key in seen:
                    continue
                seen.add(key)
                res.violation(rule, o.qual, f"family={fam_},schedule={sch_},after={mu.kind if mu else 'construction'},observer={o.name.split('(')[0].split('.')[-1]}",
                              f"history [{describe(fam_, sch_, mu)}]: {o.name}{' (read again after the read-only queries of this step)' if late else ''} gives {got!r}, "
                              f"the reference model replaying the same calls gives {want!r}", replay=replay(fam_, sch_, mu, o))

    MUT = mutators(h, fam)
    if quick_subset:
        # one mutator per kind and argument shape class for the non-plain families of the quick tier
        MUT = representatives(MUT)
    m1 = None
    if first is not None:
        reps = representatives(MUT)
        reps = [reps[i] for i in range(0, len(reps), max(1, len(reps) // N_FIRST))][:N_FIRST]
        if first >= len(reps):
            return 0
        m1 = reps[first]
    todo = []
    if chunk is not None:
        MUT = MUT[chunk[0]::chunk[1]]
    for mu in ([None] if m1 is None and (chunk is None or chunk[0] == 0) else []) + MUT:
        if mu is not None and mut_kinds and not any(mu.kind.startswith(k) for k in mut_kinds):
            continue
        todo.append((mu, "insertion"))
        if mu is not None and "unlink" in mu.kind.split("+") + mu.kind.split("/") and not quick_subset and sch in ("off", "on"):
            todo.append((mu, "reversed"))     # explicit.unlink walks a set of links: both iteration orders
    for hi, (mu, order) in enumerate(todo):
        h.w.set_order = order
        try:
            g = G(h, fam)
            flag(h, sch in ("on", "on/off-around-mutation", "unpickled-off", "unpickled-warm-on"))
            if sch.startswith("unpickled"):
                observe(g, "warm", (fam, sch, None), check=False)
                unpickled_copy(h, g)
                h.w.restore()
                h.settle()
                flag(h, sch in ("unpickled-on", "unpickled-warm-on"))
            observe(g, "before", (fam, sch, None), check=(mu is None))
            if mu is None:
                continue
            if sch == "on/off-around-mutation":
                flag(h, False)
            if m1 is not None:
                out1 = m1.do(g)
                mr1 = m1.model(g.m)
                if mr1 is DC or check_result(out1, mr1, g):
                    break           # the first step is decided by the one-step histories
                second = mu
                mu = Mut(m1.label + "; " + second.label, second.kind, second.qual, second.do, second.model)
                try:
                    out = second.do(g)
                    mr = second.model(g.m)
                except KeyError:
                    continue        # the second call names a link the first one did not leave in place
            else:
                out = mu.do(g)
                mr = mu.model(g.m)
            if sch in ("on/off-around-mutation", "on-after-mutation"):
                flag(h, True)
            if mr is DC:
                # unspecified outcome: the read-only operations must still leave whatever state there is alone (C13)
                if prop == "C13":
                    n += frozen(h, g, res, warm + mine, state, (fam, sch, mu), rule)
                if prop == "C03" and "unlink-beside-a-half-detached-link" in mu.kind:
                    n += 1
                    why = getattr(g, "atomicity", None)
                    res.ob(why is None, sig=(fam, sch, mu.label, "atomic-or-complete"))
                    if why:
                        res.violation(rule, mu.qual, f"family={fam},schedule={sch},call={mu.kind}", f"history [{describe(fam, sch, mu)}]: {why}", replay=replay(fam, sch, mu, None))
                continue
            why = check_result(out, mr, g)
            if why:
                if prop == "C03" or (prop == "C02" and mu.kind.startswith("universe")):
                    n += 1
                    res.ob(False, sig=(fam, sch, mu.label, "call"))
                    res.violation(rule, mu.qual, f"family={fam},schedule={sch},call={mu.kind}", f"history [{describe(fam, sch, mu)}]: the call {why}", replay=replay(fam, sch, mu, None))
                if prop == "C01":
                    # the invariant is required after a call that raised as well; the model no longer describes the state
                    for o in mine:
                        r = o.do(g)
                        got = r.value.v if r.kind == "return" and isinstance(r.value, _Plain) else osig(r)
                        n += 1
                        res.ob(got == [], sig=(fam, sch, mu.label, "after-unexpected-outcome", o.name))
                        if got != []:
                            res.violation(rule, mu.qual, f"family={fam},schedule={sch},after={mu.kind},observer=I1", f"history [{describe(fam, sch, mu)}]: the call {why}; afterwards {got}", replay=replay(fam, sch, mu, o))
                continue
            observe(g, "after", (fam, sch, mu), mine_first=bool(hi % 2))
        except Unknown as u:
            res.undecide(f"history [{describe(fam, sch, mu)}]: {u}")
    return n


def frozen(h, g, res, queries, state, info, rule):
    """state read through the accessors, then every read-only query, then the state again: the two readings must agree"""
    fam, sch, mu = info

    def read():
        out = []
        for o in state:
            r = o.do(g)
            out.append(r.value.v if r.kind == "return" and isinstance(r.value, _Plain) else osig(r))
        return out
    before = read()
    for o in queries:
        o.do(g)
    after = read()
    k = 0
    for o, x, y in zip(state, before, after):
        k += 1
        res.ob(x == y, sig=(fam, sch, mu.label, "frozen", o.name))
        if x != y:
            res.violation(rule, o.qual, f"family={fam},schedule={sch},after={mu.kind},observer=unchanged-by-queries",
                          f"history [{describe(fam, sch, mu)}]: {o.name} reads {x!r}, and after the read-only queries (accessors, neighbors, find_links, traversals, searches) {y!r}",
                          replay=replay(fam, sch, mu, o))
    return k


def describe(fam, sch, mu):
    s = {"off": "caching off", "on": "caching on", "on/off-around-mutation": "caching on, switched off around the mutation", "on-after-mutation": "caching switched on after the mutation",
         "unpickled-on": "graph copied through the pickle protocol into fresh class-level state, caching on",
         "unpickled-warm-on": "graph built and queried with caching on (warm memos), copied through the pickle protocol into fresh class-level state, caching on",
         "unpickled-off": "graph built with caching on and copied through the pickle protocol into fresh class-level state, caching off"}[sch]
    return f"{fam} graph; {s}; every accessor and query once (the caller reverses and truncates every list it is handed); {mu.label if mu else '(no mutation)'}; query"


def replay(fam, sch, mu, o):
    vcls, kw = FAMILIES[fam]
    L = ["from edgegraph.structure import *", "from edgegraph.structure import TwoEndedLink", "from edgegraph.builder import explicit", "from edgegraph.traversal import helpers, breadthfirst, depthfirst",
         "class SymTwo(TwoEndedLink): pass", "class SymFalsyVert(Vertex):\n    def __bool__(self): return False",
         f"a = {vcls}(attributes={{'name': 'a'}}); b, c, d = [{vcls}(attributes={{'name': n}}{', uid=a.uid' if kw else ''}) for n in 'bcd']"]
    for n, cls, x, y in G.EDGES:
        L.append(f"{n} = {cls}({x}, {y})")
    L += ["U = Universe(vertices=[a, b, c]); W = Universe()", f"# schedule: {sch}", f"# then: {mu.label if mu else ''}", f"# then observe: {o.name if o else ''}"]
    return "\n".join(L)


# ------------------------------------------------------------------------------- sequences over a focused alphabet
def alphabet(h, family, kind, OBS, small=False):
    """A small set of operations on ONE link (or one universe) - every public mutator from either side with the argument shapes
    that matter, switching the flag on and off, and a read of every accessor and query - so that *every* sequence up to a given
    length can be evaluated: the state a tree may keep between calls (guards, memos, lazily refreshed indexes) is reached by some
    short sequence of these."""
    from sa.harness import Outcome
    mutators(h, family)
    k = h._mk
    warm = [o for o in OBS if o.name.endswith((".links", ".universes", ".vertices", "vertices")) or o.name.startswith("neighbors(")]

    def read(g):
        for o in warm + [o for o in OBS if getattr(o, "_mine", False)]:
            o.do(g)
        return Outcome("return", None)
    A = [Mut("flag on", "flag", None, lambda g: (flag(h, True), Outcome("return", None))[1], lambda m: None),
         Mut("flag off", "flag", None, lambda g: (flag(h, False), Outcome("return", None))[1], lambda m: None),
         Mut("read every accessor and neighbors()", "read", None, read, lambda m: None)]
    if kind == "universes" and not any(o.name.startswith(("bft(", "bfs(")) for o in OBS if False):
        pass
    if kind == "links":
        A += [k["unlink_from"]("e_ab", "a"), k["unlink_from"]("e_ab", "b"), k["remove_from_link"]("a", "e_ab"), k["remove_from_link"]("b", "e_ab"),
              k["add_vertex"]("e_ab", "c"), k["add_vertex"]("e_ab", "b"), k["add_to_link"]("c", "e_ab"), k["add_to_link"]("a", "e_ab"),
              k["setend"]("e_ab", 0, "c"), k["setend"]("e_ab", 1, "c"), k["setend"]("e_ab", 1, "a"), k["setend"]("e_ab", 0, None), k["setend"]("e_ab", 1, "b"),
              k["ex_unlink"]("a", "b", True), k["ex_unlink"]("b", "a", False), k["ex_link"]("link_directed", None, "a", "b", True), k["create"]("DirectedEdge", "a", "b")]
    elif small:
        A = A[2:] + [k["u_add"]("U", "d", "u"), k["u_remove"]("U", "a"), k["u_add"]("U", "d", "v"), k["v_remove"]("d", "U"), k["v_remove"]("a", "U"), k["u_add"]("U", "W", "u")]
    else:
        A += [k["u_add"]("U", "d", "u"), k["u_add"]("U", "a", "u"), k["u_remove"]("U", "a"), k["u_remove"]("U", "d"), k["u_add"]("U", "d", "v"), k["v_remove"]("d", "U"), k["v_remove"]("a", "U"),
              k["u_add"]("U", "W", "u"), k["u_remove"]("U", "W"), k["u_add"]("W", "d", "u")]
    return A


def _seq_job(job):
    from sa.src import Source
    root, overlay, prop, rule, fam, kind, depth, first, extra, small = job
    key = (root, tuple(sorted(overlay.items())), extra)
    if _WORLD.get("key") != key:
        src = Source(root, overlay)
        mods = list(MODS)
        xo = None
        if extra:
            import importlib
            xo = getattr(importlib.import_module(extra[0]), extra[1])
            mods += list(getattr(xo, "modules", ()))
        h = H(src, mods)
        if xo is not None and hasattr(xo, "setup"):
            xo.setup(h)
        _WORLD.update(key=key, h=h, xo=xo)
    col = _Collector()
    try:
        n = run_sequences_one(_WORLD["h"], col, prop, rule, fam, kind, depth, first, _WORLD["xo"], small)
    except Unknown as u:
        col.undecide(f"sequence engine, {fam} / {kind}: {u}")
        n = 0
    except Raised as r:
        col.undecide(f"sequence engine, {fam} / {kind}: building the graph raises {r}")
        n = 0
    return n, col.calls


def run_sequences_one(h, res, prop, rule, fam, kind, depth, first, extra_observers, small=False):
    C = c04.consts(h)
    OBS = observers(h, C) + (extra_observers(h, C) if extra_observers else [])
    A = alphabet(h, fam, kind, OBS, small)
    if first >= len(A):
        return 0
    mine = [o for o in OBS if prop in o.props]
    if kind == "universes":
        mine = [o for o in mine if not o.name.startswith(("neighbors(", "find_links(")) and "links" not in o.name and "I1" not in o.name or prop in ("C06", "C07", "C08")]
        if prop in ("C06", "C07", "C08"):
            mine = [o for o in OBS if prop in o.props and "(U," in o.name]
    elif prop in ("C04", "C05", "C09"):
        mine = [o for o in mine if any(o.name.startswith(f"neighbors({v}") for v in "abc") or o.name.startswith(("find_links(a, b", "find_links(b, a"))]
    i1 = [o for o in OBS if o.name.startswith("I1 ")]
    for o in mine:
        o._mine = True          # the "read" operation of the alphabet also evaluates the property's own observers (warms what they cache)
    n = 0
    seen = set()
    h.w.set_order = "insertion"
    tails = [t for d_ in range(0, depth) for t in itertools.product(range(len(A)), repeat=d_)]
    for tail in tails:
        idx = (first,) + tail
        ops = [A[i] for i in idx]
        if ops[-1].kind in ("flag", "read") or all(o.kind in ("flag", "read") for o in ops):
            continue        # observations are made after the last operation of a sequence: it is a mutation
        label = "; ".join(o.label for o in ops)
        try:
            g = G(h, fam)
            flag(h, False)
            model_ok = True
            for step, mu in enumerate(ops):
                out = mu.do(g)
                if mu.kind in ("flag", "read"):
                    continue
                if model_ok:
                    try:
                        mr = mu.model(g.m)
                    except (KeyError, ValueError):
                        mr = DC
                    if mr is DC or check_result(out, mr, g):
                        if mr is not DC and prop == "C03":
                            n += 1
                            res.ob(False, sig=("seq", fam, idx[:step + 1], "call"))
                            res.violation(rule, mu.qual, f"family={fam},sequence,call={mu.kind}", f"sequence [{'; '.join(o.label for o in ops[:step + 1])}] on the {fam} graph: the last call {check_result(out, mr, g)}")
                        model_ok = False
                if not model_ok and prop != "C01":
                    break
                if step != len(ops) - 1:
                    continue        # shorter sequences are evaluated on their own
                for o in (mine if model_ok else i1):
                    r = o.do(g)
                    want = o.want(g.m) if model_ok else []
                    if want is DC:
                        continue
                    got = r.value.v if r.kind == "return" and isinstance(r.value, _Plain) else osig(r)
                    ok = o.cmp(got, want) if o.cmp else got == want
                    n += 1
                    res.ob(ok, sig=("seq", fam, idx[:step + 1], o.name))
                    if not ok:
                        key = (o.qual, tuple(x.kind for x in ops[:step + 1]), o.name.split("(")[0])
                        if key in seen:
                            continue
                        seen.add(key)
                        res.violation(rule, o.qual, f"family={fam},sequence={'+'.join(x.kind for x in ops[:step + 1])},observer={o.name.split('(')[0].split('.')[-1][:24]}",
                                      f"sequence [{'; '.join(x.label for x in ops[:step + 1])}] on the {fam} graph (caching off at the start): {o.name} gives {got!r}, "
                                      + (f"the reference model replaying the same calls gives {want!r}" if model_ok else "required: no violation of I1 (also after a call that raised)"),
                                      replay=replay(fam, "off", None, o) + "\n# then: " + "; ".join(x.label for x in ops[:step + 1]))
        except Unknown as u:
            res.undecide(f"sequence [{label}] on the {fam} graph: {u}")
    return n


def run_sequences(ctx, res, prop, kind, depth, rule="SEQUENCE", families=("plain",), extra=None, small=False):
    """Every sequence of `depth` operations of the focused alphabet (one job per first operation, in parallel)."""
    import multiprocessing as mp
    import os
    root, overlay = str(ctx.src.root), dict(ctx.src.overlay)
    nalpha = 3 + (17 if kind == "links" else 10) if not (small and kind == "universes") else 7
    jobs = [(root, overlay, prop, rule, fam, kind, depth, first, extra, small) for fam in families for first in range(nalpha)]
    nproc = min(len(jobs), os.cpu_count() or 1, 16)
    if nproc > 1 and not os.environ.get("VERIF_HIST_SERIAL") and not mp.current_process().daemon:
        with mp.get_context("fork").Pool(nproc) as pool:
            parts = pool.map(_seq_job, jobs, chunksize=1)
    else:
        parts = [_seq_job(j) for j in jobs]
    n = 0
    for k, calls in parts:
        n += k
        for name, args in calls:
            if name == "ob":
                res.ob(args[0], sig=args[1])
            elif name == "violation":
                res.violation(*args[0], **args[1])
            elif name == "undecide":
                res.ob(False)
                res.undecide(*args)
            else:
                res.note(*args)
    res.rule(rule, n)
    res.extra.setdefault("histories", {})[rule + "/" + kind] = {"alphabet": nalpha, "length": depth, "families": list(families), "comparisons": n}
    return n


# ------------------------------------------------------------------------------- object lifetime along traversals
def lifetime_traversals(ctx, res, prop, rule="FILTER-LIFETIME"):
    """Caching on; a traversal with a throw-away ff_via filter; the filter is dropped (if nothing reaches it any more its address is
    free) and the next traversal's filter is allocated there: the second listing must follow the second filter."""
    h = H(ctx.src, MODS)
    C = c04.consts(h)
    n = 0
    for tname, (mod, lst, gen, srch) in trav.TRAVS.items():
        for caching in (True,):
            try:
                g = G(h, "plain")
                flag(h, caching)
                mk = h.sym["make_reject"]
                fn = h.fn(f"{mod}.{lst}")
                f1 = h.I.call(mk, [g.obj("b")], {})
                h.call(fn, None, g.obj("a"), ff_via=f1)
                f2 = h.I.call(mk, [g.obj("c")], {})
                handed = h.reuse_id(f2, f1, list(g.O.values()))
                out = h.call(fn, None, g.obj("a"), ff_via=f2)
            except Unknown as u:
                res.ob(False)
                res.undecide(f"{rule} {tname}: {u}")
                continue
            nbm = {v: [x for x in m_neighbors(g.m, v, "FORWARD", "NONNEIGHBOR") if x != "c"] for v in g.m.vlinks}
            want = trav.REF[tname](nbm, "a", lambda x: True)
            got = osig(out)
            n += 1
            res.ob(got == want, sig=(rule, tname))
            if got != want:
                res.violation(rule, f"{mod}.{gen}", "caching-on,second-filter-allocated-where-the-first-one-lived",
                              f"caching on; {lst}(None, a, ff_via=f1) with a throw-away filter f1 (rejects b); f1 is dropped{' and f2 (rejects c) is allocated at its address' if handed else ''}; "
                              f"{lst}(None, a, ff_via=f2) lists {got}, the listing under f2 is {want}")
    res.rule(rule, n)
    return n
