"""History engine: the whole library stack (structure classes, helpers.neighbors with the real memo, explicit builders, traversals,
searches, renderers) evaluated abstractly through the *public API only*, along histories

    build G0 ; [flag schedule] ; observe (warms every cache the tree may keep) ; mutate ; observe ; (mutate ; observe)

and compared, after every step, with a plain reference model replaying the same calls (rules/struct.Model + universes).  Where the
per-property engines decide one function on arbitrary abstract pre-states, this engine decides the *composition*: state that a tree
keeps anywhere (a second cache next to the neighbour memo, a lazily padded end list, a class-level default shared after un-pickling)
only shows along a history, and is then a witness against every property whose observer reads it.

Input classes: vertex family (plain Vertex / vertices whose truth value is False / distinct vertices created with one explicit uid /
Universe objects used as vertices), flag schedule (off; on; on with the flag off around the mutation; switched on after the mutation;
graph copied through the pickle protocol into a world with fresh class-level state), mutator (every public mutator with argument
shapes: fresh end, existing end, None, self-loop, parallel edge), observer."""
from __future__ import annotations
import copy
import itertools

from sa.harness import H, names
from sa.ae import Seq, DictV, SetV, Obj, Unknown, Raised, ClassV, Tok
from rules import struct, c04, trav

HELPERS = "edgegraph.traversal.helpers"
EX = "edgegraph.builder.explicit."
MODS = [HELPERS, "edgegraph.builder.explicit", "edgegraph.traversal.breadthfirst", "edgegraph.traversal.depthfirst"]
DC = struct.DONTCARE

FAMILIES = {
    "plain": ("Vertex", {}),
    "falsy-vertices": ("SymFalsyVert", {}),
    "same-uid-vertices": ("Vertex", {"uid": "a.uid"}),
    "universes-as-vertices": ("Universe", {}),
}
SCHEDULES = ("off", "on", "on/off-around-mutation", "on-after-mutation", "unpickled-on", "unpickled-off")


class GM(struct.Model):
    def __init__(self):
        super().__init__()
        self.umem = {}    # universe -> [member names]
        self.vuni = {}    # object -> [universe names]


def m_neighbors(m, v, d, uh):
    """C04 table on the model; DC when a listed link is not two-ended at the moment."""
    out = []
    for l in m.vlinks[v]:
        ends = m.lverts[l]
        if len(ends) != 2:
            return DC
        kind = c04.KINDS.get(m.lclass[l].split(":")[-1], "X")
        other = ends[1] if ends[0] == v else ends[0]
        if other is None:
            return DC          # a half-assigned edge: what the opposite end "is" is not specified
        if d == "ANY" or kind == "U":
            out.append(other)
        elif kind == "D":
            if (d == "FORWARD" and ends[0] == v) or (d == "BACKWARD" and ends[1] == v):
                out.append(other)
        else:
            if uh == "NEIGHBOR":
                out.append(other)
            elif uh == "ERROR":
                return "raise NotImplementedError"
    return out


def m_find_links(m, a, b, dirsens, uh):
    out = []
    for l in m.vlinks[a]:
        ends = m.lverts[l]
        if len(ends) != 2 or None in ends:
            return DC
        if not ((ends[0] == a and ends[1] == b) or (ends[0] == b and ends[1] == a)):
            continue
        kind = c04.KINDS.get(m.lclass[l].split(":")[-1], "X")
        if not dirsens or kind == "U":
            out.append(l)
        elif kind == "D":
            if ends[0] == a and ends[1] == b:
                out.append(l)
        else:
            if uh == "NEIGHBOR":
                out.append(l)
            elif uh == "ERROR":
                return "raise NotImplementedError"
    return sorted(set(out))


class G:
    """The initial graph, built by the code's own constructors.

    a -> b, b -> c (directed), c -- a (undirected), self-loop c -> c, b -> d, d -> a; links of another two-ended type arrive through the mutators;
    universes U = [a, b, c] and W = [] (d outside U)."""

    EDGES = [("e_ab", "DirectedEdge", "a", "b"), ("e_bc", "DirectedEdge", "b", "c"), ("e_ca", "UnDirectedEdge", "c", "a"), ("e_cc", "DirectedEdge", "c", "c"),
             ("e_bd", "DirectedEdge", "b", "d"), ("e_da", "DirectedEdge", "d", "a")]

    def __init__(self, h, family):
        self.h = h
        self.family = family
        vcls, kw = FAMILIES[family]
        key = ("hist", family)
        pool = h.rollback(key)
        if pool is None:
            h.reset()
            pool = {}
            for n in "abcd":
                kw2 = dict(kw)
                if kw2.get("uid") == "a.uid":       # distinct objects created with the uid of the first one (Vertex(uid=a.uid), a restored copy ...)
                    if n == "a":
                        kw2.pop("uid")
                    else:
                        kw2["uid"] = h.I.getattr(pool["a"], "uid")
                pool[n] = h.new(vcls, n, attributes=DictV([["name", n]]), **kw2)
            for n, cls, x, y in self.EDGES:
                pool[n] = h.new(cls, n, pool[x], pool[y])
            pool["U"] = h.new("Universe", "U", vertices=Seq([pool["a"], pool["b"], pool["c"]], "list"), attributes=DictV([["name", "U"]]))
            pool["W"] = h.new("Universe", "W", attributes=DictV([["name", "W"]]))
            extra = {}
            for o in list(pool.values()):
                for k, v in o.fields.items():
                    if isinstance(v, Obj) and v not in pool.values() and v not in extra.values():
                        v.name = f"{o.name}.{k}"
                        extra[v.name] = v
            pool.update(extra)
            h.checkpoint(key, pool)
        self.O = {k: v for k, v in pool.items() if "." not in k}
        self.pool = pool
        h.settle()
        m = self.m = GM()
        for n in "abcd" + "UW":
            m.vlinks[n] = []
            m.vuni[n] = []
        for n, cls, x, y in self.EDGES:
            m.lverts[n] = [x, y]
            m.lclass[n] = cls
            m.vuni[n] = []
            for v in (x, y):
                if n not in m.vlinks[v]:
                    m.vlinks[v].append(n)
        m.umem = {"U": ["a", "b", "c"], "W": []}
        for v in "abc":
            m.vuni[v].append("U")
        if vcls == "Universe":
            for n in "abcd":
                m.umem[n] = []

    def obj(self, n):
        return None if n is None else self.O[n]

def flag(h, on):
    h.fn(struct.FLAG).dict["NEIGHBOR_CACHING"] = bool(on)


# ------------------------------------------------------------------------------- mutators
class Mut:
    def __init__(self, label, kind, qual, do, model):
        self.label, self.kind, self.qual, self.do, self.model = label, kind, qual, do, model


def _is_link(h, o):
    return isinstance(o, Obj) and any(c is h.S["Link"] for c in o.cls.mro)


def _adopt(g, before, mname):
    """the link the call allocated is given the model's name"""
    for o in g.h.w.alloc[before:]:
        if _is_link(g.h, o) and o not in g.O.values():
            o.name = mname
            g.O[mname] = o
            return o
    return None


def mutators(h, family):
    I = h.I
    f = h.fn
    M = []
    Q = struct.QUAL

    def create(cls, x, y):
        def do(g):
            n0 = len(h.w.alloc)
            out = h.call(h.cls(cls), g.obj(x), g.obj(y))
            if out.kind == "return" and isinstance(out.value, Obj):
                out.value.name = f"new{g.m.nnew + 1}:{cls}"
                g.O[out.value.name] = out.value
            return out

        def model(m):
            e = struct.m_create(m, cls, x, y)
            m.vuni[e] = []
            return ("link", e)
        return Mut(f"{cls}({x}, {y})", "constructor", f"edgegraph.structure.{cls}.__init__" if cls != "SymTwo" else Q["create"], do, model)

    for cls, (x, y) in itertools.product(("DirectedEdge", "UnDirectedEdge", "SymTwo"), (("a", "d"), ("d", "a"), ("d", "d"), ("a", "b"))):
        M.append(create(cls, x, y))

    def setend(l, i, x):
        return Mut(f"{l}.v{i + 1} = {x}", f"set_v{i + 1}", Q[f"set_v{i + 1}"], lambda g: h.setattr(g.obj(l), f"v{i + 1}", g.obj(x)), lambda m: struct.m_set_end(m, l, i, x))

    for l, i, x in (("e_ab", 1, "d"), ("e_ab", 1, "c"), ("e_ab", 0, "c"), ("e_ab", 0, "b"), ("e_ab", 1, "a"), ("e_cc", 1, "a"), ("e_cc", 0, "d"), ("e_ca", 0, "b"), ("e_ca", 1, "d"), ("e_da", 1, "c"), ("e_da", 0, "b"),
                    ("e_bc", 1, None), ("e_ab", 1, "b")):
        M.append(setend(l, i, x))

    def unlink_from(l, x):
        return Mut(f"{l}.unlink_from({x})", "unlink_from", Q["unlink_from"], lambda g: h.call(I.getattr(g.obj(l), "unlink_from"), g.obj(x)), lambda m: struct.m_unlink_from(m, l, x))

    def remove_from_link(v, l):
        return Mut(f"{v}.remove_from_link({l})", "remove_from_link", Q["remove_from_link"], lambda g: h.call(I.getattr(g.obj(v), "remove_from_link"), g.obj(l)), lambda m: struct.m_remove_from_link(m, v, l))

    def add_vertex(l, x):
        return Mut(f"{l}.add_vertex({x})", "add_vertex", Q["add_vertex"], lambda g: h.call(I.getattr(g.obj(l), "add_vertex"), g.obj(x)), lambda m: struct.m_add_vertex(m, l, x))

    def add_to_link(v, l):
        return Mut(f"{v}.add_to_link({l})", "add_to_link", Q["add_to_link"], lambda g: h.call(I.getattr(g.obj(v), "add_to_link"), g.obj(l)), lambda m: struct.m_add_to_link(m, v, l))

    def seq(*muts):
        def do(g):
            out = None
            for mu in muts:
                out = mu.do(g)
                if out.kind != "return":
                    return out
            return out

        def model(m):
            r = None
            for mu in muts:
                r = mu.model(m)
                if r is DC:
                    return DC
            return r
        return Mut("; ".join(mu.label for mu in muts), "+".join(mu.kind for mu in muts), muts[-1].qual, do, model)

    M += [unlink_from("e_bc", "c"), unlink_from("e_ab", "a"), remove_from_link("b", "e_bc"), remove_from_link("a", "e_ca"),
          seq(unlink_from("e_bc", "c"), add_vertex("e_bc", "d")), seq(unlink_from("e_ab", "a"), add_vertex("e_ab", "c")), seq(remove_from_link("b", "e_ab"), add_to_link("d", "e_ab")),
          seq(remove_from_link("c", "e_ca"), add_to_link("b", "e_ca")), seq(unlink_from("e_bd", "d"), add_vertex("e_bd", "a"))]

    # a vertex loses one link and gains another: the *number* of its links is the same before and after
    M += [seq(remove_from_link("a", "e_ab"), create("DirectedEdge", "a", "d")), seq(setend("e_ab", 0, "c"), setend("e_bd", 1, "a")), seq(unlink_from("e_ca", "a"), add_vertex("e_ca", "b"), create("UnDirectedEdge", "d", "a"))]

    # ---- explicit builders
    def joining(m, x, y):
        return struct.m_joining(m, x, y)

    def ex_link(fname, cls, x, y, dontdup):
        made = cls or {"link_directed": "DirectedEdge", "link_undirected": "UnDirectedEdge"}[fname]

        def do(g):
            n0 = len(h.w.alloc)
            if fname == "link_from_to":
                out = h.call(f(EX + fname), g.obj(x), h.cls(cls), g.obj(y), dontdup=dontdup)
            else:
                out = h.call(f(EX + fname), g.obj(x), g.obj(y), dontdup=dontdup)
            if out.kind == "return" and isinstance(out.value, Obj) and out.value not in g.O.values():
                out.value.name = f"new{g.m.nnew + 1}:{made}"
                g.O[out.value.name] = out.value
            return out

        def model(m):
            J = joining(m, x, y)
            if dontdup and J:
                return ("link-any", J)
            e = struct.m_create(m, made, x, y)
            m.vuni[e] = []
            return ("link", e)
        return Mut(f"explicit.{fname}({x}, {(cls + ', ') if cls else ''}{y}, dontdup={dontdup})", fname + ("/dontdup" if dontdup else ""), Q[fname], do, model)

    for fname, cls in (("link_directed", None), ("link_undirected", None), ("link_from_to", "SymTwo")):
        for (x, y), dd in itertools.product((("a", "d"), ("c", "b"), ("a", "b"), ("d", "d")), (False, True)):
            M.append(ex_link(fname, cls, x, y, dd))

    def ex_unlink(x, y, destroy):
        def model(m):
            J = joining(m, x, y)
            for l in J:
                for v in (x, y):
                    while v in m.lverts[l]:
                        m.lverts[l].remove(v)
                    if l in m.vlinks[v]:
                        m.vlinks[v].remove(l)
            return ("linkset", sorted(J)) if not destroy else None
        return Mut(f"explicit.unlink({x}, {y}, destroy={destroy})", "unlink", Q["unlink"], lambda g: h.call(f(EX + "unlink"), g.obj(x), g.obj(y), destroy), model)

    for (x, y), d in itertools.product((("a", "b"), ("b", "a"), ("c", "c"), ("a", "c"), ("a", "d"), ("b", "d")), (True, False)):
        M.append(ex_unlink(x, y, d))

    # ---- universes
    def u_add(u, v, side):
        def do(g):
            if side == "u":
                return h.call(I.getattr(g.obj(u), "add_vertex"), g.obj(v))
            return h.call(I.getattr(g.obj(v), "add_to_universe"), g.obj(u))

        def model(m):
            if side == "u":
                if v not in m.umem[u]:
                    m.umem[u].append(v)
                if u not in m.vuni[v]:
                    m.vuni[v].append(u)
            else:
                # the object-side call is the low-level half: it records the universe on the object (C02 decides the pair)
                return DC
            return None
        return Mut(f"{u}.add_vertex({v})" if side == "u" else f"{v}.add_to_universe({u})", "universe-add", "edgegraph.structure.universe.Universe.add_vertex", do, model)

    def u_remove(u, v):
        def model(m):
            if v in m.umem[u]:
                m.umem[u].remove(v)
                if u in m.vuni[v]:
                    m.vuni[v].remove(u)
                return None
            return "raise"
        return Mut(f"{u}.remove_vertex({v})", "universe-remove", "edgegraph.structure.universe.Universe.remove_vertex", lambda g: h.call(I.getattr(g.obj(u), "remove_vertex"), g.obj(v)), model)

    M += [u_add("U", "d", "u"), u_add("U", "a", "u"), u_add("W", "U", "u"), u_add("U", "U", "u"), u_add("W", "a", "u"), u_remove("U", "b"), u_remove("U", "a"), u_remove("U", "d"), u_remove("W", "a")]
    return M


# ------------------------------------------------------------------------------- observers
def lab(x):
    if isinstance(x, Obj):
        return x.name
    if isinstance(x, Seq):
        return [lab(i) for i in x.items]
    if isinstance(x, SetV):
        return sorted(str(lab(i)) for i in x.items)
    return x if isinstance(x, (int, str, bool, type(None))) else repr(x)


def osig(out):
    if out.kind == "raise":
        return "raise " + out.excname
    return lab(out.value)


class Obs:
    """name, property ids it serves, qual of the function it reads through, do(g) -> Outcome, want(m) -> value | DC"""

    def __init__(self, name, props, qual, do, want, cmp=None):
        self.name, self.props, self.qual, self.do, self.want, self.cmp = name, props, qual, do, want, cmp


def observers(h, C):
    I = h.I
    f = h.fn
    nb, fl = f(c04.FN), f(HELPERS + ".find_links")
    O = []
    V4 = "abcd"
    loc = I.bind_args(nb, [None], {})
    dflt_d = next((k for k in ("FORWARD", "BACKWARD", "ANY") if C[k] == loc.get("direction_sensitive")), None)
    dflt_uh = next((k for k in c04.UHS if C[k] == loc.get("unknown_handling")), None)
    if dflt_d is None or dflt_uh is None:
        raise Unknown("defaults of neighbors() are not among its documented constants")
    for v in V4 + "U":
        O.append(Obs(f"{v}.links", ("C03", "C13"), "edgegraph.structure.vertex.Vertex.links", lambda g, v=v: h.getattr(g.obj(v), "links"), lambda m, v=v: list(m.vlinks[v])))
        O.append(Obs(f"{v}.universes", ("C02", "C03", "C13"), "edgegraph.structure.base.BaseObject.universes", lambda g, v=v: h.getattr(g.obj(v), "universes"), lambda m, v=v: sorted(m.vuni[v]),
                     cmp=lambda got, want: isinstance(got, list) and len(got) == len(set(got)) and sorted(got) == want))
    for u in "UW":
        O.append(Obs(f"{u}.vertices", ("C02", "C03", "C13"), "edgegraph.structure.universe.Universe.vertices", lambda g, u=u: h.getattr(g.obj(u), "vertices"), lambda m, u=u: list(m.umem[u])))

    def links_of(m):
        return sorted(m.lverts)

    O.append(Obs("every link's vertices", ("C03", "C13"), "edgegraph.structure.link.Link.vertices",
                 lambda g: _all_ends(h, g), lambda m: {l: list(m.lverts[l]) for l in links_of(m)}))
    O.append(Obs("I1 (l in v.links <=> v in l.vertices, no duplicate) read through the accessors", ("C01",), "edgegraph.structure.vertex.Vertex.links", lambda g: _i1(h, g), lambda m: []))
    for v in V4:
        for d, uh in (("FORWARD", "NEIGHBOR"), ("BACKWARD", "NONNEIGHBOR"), ("ANY", "NONNEIGHBOR")):
            O.append(Obs(f"neighbors({v}, {d}, {uh})", ("C04", "C05", "C09"), c04.FN, lambda g, v=v, d=d, uh=uh: h.call(nb, g.obj(v), C[d], C[uh]),
                         lambda m, v=v, d=d, uh=uh: m_neighbors(m, v, d, uh)))
        O.append(Obs(f"neighbors({v})", ("C04", "C05", "C16"), c04.FN, lambda g, v=v: h.call(nb, g.obj(v)), lambda m, v=v: m_neighbors(m, v, dflt_d, dflt_uh)))
    for a, b in (("a", "b"), ("b", "a"), ("c", "c"), ("c", "a"), ("a", "d"), ("d", "a"), ("b", "d")):
        for ds in (True, False):
            O.append(Obs(f"find_links({a}, {b}, direction_sensitive={ds})", ("C09",), HELPERS + ".find_links",
                         lambda g, a=a, b=b, ds=ds: h.call(fl, g.obj(a), g.obj(b), ds, C["NEIGHBOR"]), lambda m, a=a, b=b, ds=ds: m_find_links(m, a, b, ds, "NEIGHBOR")))
    for tname, (mod, lst, gen, srch) in trav.TRAVS.items():
        for uni, start, d in ((None, "a", "FORWARD"), ("U", "a", "FORWARD"), (None, "c", "ANY"), ("U", "b", "BACKWARD")):
            def want(m, tname=tname, uni=uni, start=start, d=d):
                nbm = {}
                for v in m.vlinks:
                    r = m_neighbors(m, v, d, "NEIGHBOR")
                    if r is DC or isinstance(r, str):
                        return DC
                    nbm[v] = r
                member = (lambda x: True) if uni is None else (lambda x: x in m.umem[uni])
                if not member(start):
                    return DC          # a start vertex outside the universe: not specified
                return trav.REF[tname](nbm, start, member)
            O.append(Obs(f"{lst}({uni}, {start}, {d})", ("C05", "C06", "C07"), f"{mod}.{gen}",
                         lambda g, fn=f(f"{mod}.{lst}"), uni=uni, start=start, d=d: h.call(fn, g.obj(uni), g.obj(start), direction_sensitive=C[d], unknown_handling=C["NEIGHBOR"]), want))
        for uni, start, val in ((None, "a", "d"), ("U", "a", "c"), ("U", "a", "d"), (None, "b", "b")):
            def wants(m, tname=tname, uni=uni, start=start, val=val):
                nbm = {}
                for v in m.vlinks:
                    r = m_neighbors(m, v, dflt_d, dflt_uh)
                    if r is DC or isinstance(r, str):
                        return DC          # the searches use the default settings: a link of unknown type anywhere makes the outcome depend on the expansion order
                    nbm[v] = r
                member = (lambda x: True) if uni is None else (lambda x: x in m.umem[uni])
                if not member(start):
                    return DC
                order = trav.REF[tname](nbm, start, member)
                return val if val in order else None
            O.append(Obs(f"{srch}({uni}, {start}, 'name', {val!r})", ("C05", "C08"), f"{mod}.{srch}",
                         lambda g, fn=f(f"{mod}.{srch}"), uni=uni, start=start, val=val: h.call(fn, g.obj(uni), g.obj(start), "name", val), wants))
    return O


def _all_ends(h, g):
    from sa.harness import Outcome
    out = {}
    for n, o in sorted(g.O.items()):
        if _is_link(h, o):
            r = h.getattr(o, "vertices")
            out[n] = osig(r)
    return Outcome("return", _Plain(out))


def _i1(h, g):
    from sa.harness import Outcome
    vl, lv = {}, {}
    for n, o in sorted(g.O.items()):
        if _is_link(h, o):
            lv[n] = osig(h.getattr(o, "vertices"))
        else:
            vl[n] = osig(h.getattr(o, "links"))
    bad = []
    for v, ls in vl.items():
        if not isinstance(ls, list):
            bad.append(f"{v}.links: {ls}")
            continue
        for l, ends in lv.items():
            if not isinstance(ends, list):
                bad.append(f"{l}.vertices: {ends}")
                continue
            k = ls.count(l)
            if k > 1:
                bad.append(f"{v}.links lists {l} {k} times")
            elif (k == 1) != (v in ends):
                bad.append(f"{l} in {v}.links: {k == 1}, but {v} in {l}.vertices: {v in ends}")
    return Outcome("return", _Plain(sorted(set(bad))))


class _Plain:
    """an already-projected observation"""

    def __init__(self, v):
        self.v = v


# ------------------------------------------------------------------------------- pickle-protocol copy
def unpickled_copy(h, g):
    """The graph as plain pickle re-creates it in a fresh interpreter: every object reachable from the named individuals is
    re-created without __init__ from the state its class hands out (__getstate__ / instance dictionary, __setstate__ when defined,
    shared objects stay shared), and class-level state is what importing the modules establishes."""
    I = h.I
    memo = {}

    def cp(v):
        if isinstance(v, Obj):
            if id(v) in memo:
                return memo[id(v)]
            if getattr(v.cls, "extern", False) or any(getattr(c, "extern", False) for c in v.cls.mro):
                raise Unknown("copy of an instance of an external class")
            n = Obj(v.cls)
            n.name = v.name
            memo[id(v)] = n
            keep.append(v)
            gs = v.cls.lookup("__getstate__")[0]
            if v.cls.lookup("__reduce_ex__")[0] is not None or v.cls.lookup("__reduce__")[0] is not None:
                raise Unknown(f"{v.cls.name} defines __reduce__/__reduce_ex__")
            state = I.call(I.getattr(v, "__getstate__"), [], {}) if gs is not None else DictV([[k, x] for k, x in v.fields.items()])
            if isinstance(state, DictV):
                state = DictV([[cp(k), cp(x)] for k, x in state.pairs])
            else:
                state = cp(state)
            ss = v.cls.lookup("__setstate__")[0]
            if ss is not None:
                I.call(I.getattr(n, "__setstate__"), [state], {})
            elif isinstance(state, DictV):
                for k, x in state.pairs:
                    if not isinstance(k, str):
                        raise Unknown("non-string key in pickled state")
                    n.fields[k] = x
            elif state is not None:
                raise Unknown("pickled state is not a dictionary")
            return n
        if isinstance(v, Seq):
            if id(v) in memo:
                return memo[id(v)]
            n = Seq([], v.kind)
            if v.kind != "tuple":
                memo[id(v)] = n
            keep.append(v)
            n.items = [cp(x) for x in v.items]
            return carry(v, n)
        if isinstance(v, DictV):
            if id(v) in memo:
                return memo[id(v)]
            n = copy.copy(v)
            n.pairs = []
            memo[id(v)] = n
            keep.append(v)
            n.pairs = [[cp(k), cp(x)] for k, x in v.pairs]
            return carry(v, n)
        if isinstance(v, SetV):
            n = copy.copy(v)
            n.items = [cp(x) for x in v.items]
            return carry(v, n)
        return v          # atoms: numbers, strings, tokens, classes and functions (pickled by reference)

    def carry(v, n):
        if getattr(v, "ucls", None) is not None:
            n.ucls, n.ufields = v.ucls, {k: cp(x) for k, x in v.ufields.items()}
        return n

    keep = []              # keeps the originals alive while id()-keyed memo entries exist
    newO = {k: cp(o) for k, o in g.O.items()}
    g.O = newO
    g.pool = dict(newO)
    return g


# ------------------------------------------------------------------------------- driver
STATE_PROPS = ("C01", "C02", "C03", "C13")


def plan(thorough):
    """(family, schedule, mutator filter) triples: the plain family meets every schedule and every mutator; the other families meet
    the schedules 'on' and 'off' (thorough: all)."""
    out = []
    for fam in FAMILIES:
        for sch in SCHEDULES:
            if sch == "unpickled-off":
                continue        # only on request (C10)
            if fam == "plain" or thorough or sch in ("on", "off"):
                out.append((fam, sch))
    return out


def check_result(out, mr, g):
    """-> None | text: the call's own outcome against the model's"""
    if mr == "raise":
        return None if out.kind == "raise" else f"returns {osig(out)!r} where the model raises (and leaves the graph unchanged)"
    if out.kind == "raise":
        return f"raises {out.excname}"
    if mr is None:
        return None
    kind, want = mr
    v = out.value
    if kind == "link":
        return None if isinstance(v, Obj) and v.name == want else f"returns {lab(v)!r}, the model creates and returns {want}"
    if kind == "link-any":
        return None if isinstance(v, Obj) and v.name in want else f"returns {lab(v)!r}, the model returns one of the joining links {want} and creates nothing"
    if kind == "linkset":
        got = sorted(str(x) for x in lab(v)) if isinstance(v, (Seq, SetV)) else lab(v)
        return None if got == want else f"returns {got!r}, the model returns exactly the removed links {want}"
    return None


class Hit:
    def __init__(self, **kw):
        self.__dict__.update(kw)


class _Collector:
    """records the Result calls made in a worker process"""

    def __init__(self):
        self.calls = []

    def ob(self, ok, sig=None, sample=None):
        self.calls.append(("ob", (ok, sig, None)))

    def violation(self, *a, **k):
        self.calls.append(("violation", (a, k)))

    def undecide(self, why):
        self.calls.append(("undecide", (why,)))

    def note(self, s_):
        self.calls.append(("note", (s_,)))


_WORLD = {}


def _job(job):
    from sa.src import Source
    root, overlay, prop, rule, fam, sch, extra, mut_kinds, quick_subset, first, chunk = job
    key = (root, tuple(sorted(overlay.items())), extra)
    if _WORLD.get("key") != key:
        src = Source(root, overlay)
        mods = list(MODS)
        xo = None
        if extra:
            import importlib
            xo = getattr(importlib.import_module(extra[0]), extra[1])
            mods += list(getattr(xo, "modules", ()))
        h = H(src, mods)
        if xo is not None and hasattr(xo, "setup"):
            xo.setup(h)
        _WORLD.update(key=key, h=h, xo=xo)
    col = _Collector()
    try:
        n = run_one(_WORLD["h"], col, prop, rule, fam, sch, _WORLD["xo"], mut_kinds, quick_subset, first, chunk)
    except Unknown as u:
        col.undecide(f"history engine, {fam} / {sch}: {u}")
        n = 0
    return n, col.calls


def run(ctx, res, prop, rule="HISTORY", extra=None, families=None, thorough=None, mut_kinds=None, schedules=None):
    """Evaluate the histories for property `prop` (one job per family x schedule, in parallel); returns the number of comparisons.
    extra = (module name, attribute) of a function (h, C) -> [Obs] with an optional .modules attribute."""
    thorough = ctx.thorough if thorough is None else thorough
    root, overlay = str(ctx.src.root), dict(ctx.src.overlay)
    jobs = []
    todo = plan(thorough)
    if schedules:
        todo = [(fam, sch) for fam in FAMILIES for sch in schedules if thorough or fam == "plain" or sch != "unpickled-off"]
    for fam, sch in todo:
        if families and fam not in families or schedules and sch not in schedules:
            continue
        jobs.append((root, overlay, prop, rule, fam, sch, extra, mut_kinds, (not thorough) and fam != "plain", None, None))
    if thorough and not mut_kinds:
        # two mutations in a row (first one out of a representative per kind), observed after the second
        for sch in ("on", "on/off-around-mutation"):
            if schedules and sch not in schedules:
                continue
            for first in range(N_FIRST):
                jobs.append((root, overlay, prop, rule, "plain", sch, extra, None, False, first, None))
    import multiprocessing as mp
    import os
    cpus = min(os.cpu_count() or 1, 16)
    if len(jobs) < cpus and not mp.current_process().daemon:
        # few (family, schedule) jobs: split each one's mutators into interleaved chunks so that every core has work
        k = max(1, cpus // max(1, len(jobs)))
        jobs = [j[:10] + ((i, k),) for j in jobs for i in range(k)]
    nproc = min(len(jobs), cpus)
    if nproc > 1 and not os.environ.get("VERIF_HIST_SERIAL") and not mp.current_process().daemon:
        with mp.get_context("fork").Pool(nproc) as pool:
            parts = pool.map(_job, jobs, chunksize=1)
    else:
        parts = [_job(j) for j in jobs]
    n = 0
    for k, calls in parts:
        n += k
        for name, args in calls:
            if name == "ob":
                res.ob(args[0], sig=args[1])
            elif name == "violation":
                res.violation(*args[0], **args[1])
            elif name == "undecide":
                res.ob(False)
                res.undecide(*args)
            else:
                res.note(*args)
    res.rule(rule, n)
    res.extra.setdefault("histories", {})[rule] = {"jobs": sorted({f"{j[4]} / {j[5]}" for j in jobs}), "processes": nproc, "comparisons": n}
    return n


N_FIRST = 24


def representatives(MUT):
    pick, keep = set(), []
    for mu in MUT:
        if mu.kind not in pick or mu.kind in ("constructor", "set_v1", "set_v2"):
            pick.add(mu.kind)
            keep.append(mu)
    return keep


def run_one(h, res, prop, rule, fam, sch, extra_observers, mut_kinds, quick_subset, first=None, chunk=None):
    C = c04.consts(h)
    OBS = observers(h, C) + (extra_observers(h, C) if extra_observers else [])
    if prop == "C10":
        for o in OBS:
            o.props = tuple(o.props) + ("C10",)      # the copy answers *every* query like the original's model
    mine = [o for o in OBS if prop in o.props] if prop != "C13" else list(OBS)      # C13: every read-only operation runs between two readings of the state
    warm = [o for o in OBS if o.name.endswith((".links", ".universes", ".vertices", "vertices")) or o.name.startswith("neighbors(")]
    state = [o for o in OBS if o.name.endswith((".links", ".universes", ".vertices", "vertices")) or o.name.startswith("I1 ")]
    n = 0
    seen = set()

    def observe(g, phase, ctxinfo, check=True):
        nonlocal n
        todo = warm + mine + (state if prop in STATE_PROPS else [])
        for idx, o in enumerate(todo):
            out = o.do(g)
            if not check or prop not in o.props:
                continue
            want = o.want(g.m)
            if want is DC:
                continue
            got = out.value.v if out.kind == "return" and isinstance(out.value, _Plain) else osig(out)
            ok = o.cmp(got, want) if o.cmp else got == want
            n += 1
            fam_, sch_, mu = ctxinfo
            late = idx >= len(warm) + len(mine)
            res.ob(ok, sig=(fam_, sch_, mu.label if mu else None, phase, o.name, late))
            if not ok:
                key = (o.qual, mu.kind if mu else None, o.name.split("(")[0])
                if key in seen:
                    continue
                seen.add(key)
                res.violation(rule, o.qual, f"family={fam_},schedule={sch_},after={mu.kind if mu else 'construction'},observer={o.name.split('(')[0].split('.')[-1]}",
                              f"history [{describe(fam_, sch_, mu)}]: {o.name}{' (read again after the read-only queries of this step)' if late else ''} gives {got!r}, "
                              f"the reference model replaying the same calls gives {want!r}", replay=replay(fam_, sch_, mu, o))

    MUT = mutators(h, fam)
    if quick_subset:
        # one mutator per kind and argument shape class for the non-plain families of the quick tier
        MUT = representatives(MUT)
    m1 = None
    if first is not None:
        reps = representatives(MUT)
        reps = [reps[i] for i in range(0, len(reps), max(1, len(reps) // N_FIRST))][:N_FIRST]
        if first >= len(reps):
            return 0
        m1 = reps[first]
    todo = []
    if chunk is not None:
        MUT = MUT[chunk[0]::chunk[1]]
    for mu in ([None] if m1 is None and (chunk is None or chunk[0] == 0) else []) + MUT:
        if mu is not None and mut_kinds and not any(mu.kind.startswith(k) for k in mut_kinds):
            continue
        todo.append((mu, "insertion"))
        if mu is not None and "unlink" in mu.kind.split("+") + mu.kind.split("/") and not quick_subset and sch in ("off", "on"):
            todo.append((mu, "reversed"))     # explicit.unlink walks a set of links: both iteration orders
    for mu, order in todo:
        h.w.set_order = order
        try:
            g = G(h, fam)
            flag(h, sch in ("on", "on/off-around-mutation", "unpickled-off"))
            if sch.startswith("unpickled"):
                observe(g, "warm", (fam, sch, None), check=False)
                unpickled_copy(h, g)
                h.w.restore()
                h.settle()
                flag(h, sch == "unpickled-on")
            observe(g, "before", (fam, sch, None), check=(mu is None))
            if mu is None:
                continue
            if sch == "on/off-around-mutation":
                flag(h, False)
            if m1 is not None:
                out1 = m1.do(g)
                mr1 = m1.model(g.m)
                if mr1 is DC or check_result(out1, mr1, g):
                    break           # the first step is decided by the one-step histories
                second = mu
                mu = Mut(m1.label + "; " + second.label, second.kind, second.qual, second.do, second.model)
                try:
                    out = second.do(g)
                    mr = second.model(g.m)
                except KeyError:
                    continue        # the second call names a link the first one did not leave in place
            else:
                out = mu.do(g)
                mr = mu.model(g.m)
            if sch in ("on/off-around-mutation", "on-after-mutation"):
                flag(h, True)
            if mr is DC:
                # unspecified outcome: the read-only operations must still leave whatever state there is alone (C13)
                if prop == "C13":
                    n += frozen(h, g, res, warm + mine, state, (fam, sch, mu), rule)
                continue
            why = check_result(out, mr, g)
            if why:
                if prop == "C03" or (prop == "C02" and mu.kind.startswith("universe")):
                    n += 1
                    res.ob(False, sig=(fam, sch, mu.label, "call"))
                    res.violation(rule, mu.qual, f"family={fam},schedule={sch},call={mu.kind}", f"history [{describe(fam, sch, mu)}]: the call {why}", replay=replay(fam, sch, mu, None))
                if prop == "C01":
                    # the invariant is required after a call that raised as well; the model no longer describes the state
                    for o in mine:
                        r = o.do(g)
                        got = r.value.v if r.kind == "return" and isinstance(r.value, _Plain) else osig(r)
                        n += 1
                        res.ob(got == [], sig=(fam, sch, mu.label, "after-unexpected-outcome", o.name))
                        if got != []:
                            res.violation(rule, mu.qual, f"family={fam},schedule={sch},after={mu.kind},observer=I1", f"history [{describe(fam, sch, mu)}]: the call {why}; afterwards {got}", replay=replay(fam, sch, mu, o))
                continue
            observe(g, "after", (fam, sch, mu))
        except Unknown as u:
            res.undecide(f"history [{describe(fam, sch, mu)}]: {u}")
    return n


def frozen(h, g, res, queries, state, info, rule):
    """state read through the accessors, then every read-only query, then the state again: the two readings must agree"""
    fam, sch, mu = info

    def read():
        out = []
        for o in state:
            r = o.do(g)
            out.append(r.value.v if r.kind == "return" and isinstance(r.value, _Plain) else osig(r))
        return out
    before = read()
    for o in queries:
        o.do(g)
    after = read()
    k = 0
    for o, x, y in zip(state, before, after):
        k += 1
        res.ob(x == y, sig=(fam, sch, mu.label, "frozen", o.name))
        if x != y:
            res.violation(rule, o.qual, f"family={fam},schedule={sch},after={mu.kind},observer=unchanged-by-queries",
                          f"history [{describe(fam, sch, mu)}]: {o.name} reads {x!r}, and after the read-only queries (accessors, neighbors, find_links, traversals, searches) {y!r}",
                          replay=replay(fam, sch, mu, o))
    return k


def describe(fam, sch, mu):
    s = {"off": "caching off", "on": "caching on", "on/off-around-mutation": "caching on, switched off around the mutation", "on-after-mutation": "caching switched on after the mutation",
         "unpickled-on": "graph copied through the pickle protocol into fresh class-level state, caching on",
         "unpickled-off": "graph built with caching on and copied through the pickle protocol into fresh class-level state, caching off"}[sch]
    return f"{fam} graph; {s}; every accessor and query once; {mu.label if mu else '(no mutation)'}; query"


def replay(fam, sch, mu, o):
    vcls, kw = FAMILIES[fam]
    L = ["from edgegraph.structure import *", "from edgegraph.structure import TwoEndedLink", "from edgegraph.builder import explicit", "from edgegraph.traversal import helpers, breadthfirst, depthfirst",
         "class SymTwo(TwoEndedLink): pass", "class SymFalsyVert(Vertex):\n    def __bool__(self): return False",
         f"a = {vcls}(attributes={{'name': 'a'}}); b, c, d = [{vcls}(attributes={{'name': n}}{', uid=a.uid' if kw else ''}) for n in 'bcd']"]
    for n, cls, x, y in G.EDGES:
        L.append(f"{n} = {cls}({x}, {y})")
    L += ["U = Universe(vertices=[a, b, c]); W = Universe()", f"# schedule: {sch}", f"# then: {mu.label if mu else ''}", f"# then observe: {o.name if o else ''}"]
    return "\n".join(L)
