"""C12 - containers handed out or taken in are snapshots.

Escape / capture by abstract evaluation with heap identity: after each accessor / query is evaluated on an abstract graph,
the returned container (and every mutable container nested in it) is compared *by identity* with every mutable container
reachable from the graph objects and from class-level state; after each constructor / builder is evaluated on named input
containers, no reachable internal container may be one of the inputs (or a mutable container nested in them).
The structural escape analysis (sa.eff) points at the returning / storing statement."""
from __future__ import annotations

from sa.harness import H, show
from sa.ae import Seq, DictV, SetV, ProxyV, Obj, ClassV, Unknown, Callback, IterV, GenV, Tok
from rules import common, c04

LEVEL = "proof"


def mutable(c):
    return isinstance(c, Seq) and c.kind != "tuple" or isinstance(c, DictV) or isinstance(c, SetV) and not c.frozen


def internal_containers(h, roots):
    """Every mutable container reachable from the fields of graph objects / class-level state -> {id: path}."""
    found, seen = {}, set()

    def walk(v, path):
        if isinstance(v, Obj):
            if id(v) in seen:
                return
            seen.add(id(v))
            for k, x in v.fields.items():
                walk(x, f"{v.name or v.cls.name}.{k}")
        elif isinstance(v, (Seq, SetV)):
            if mutable(v):
                found.setdefault(id(v), path)
            if id(v) in seen:
                return
            seen.add(id(v))
            for i, x in enumerate(v.items):
                walk(x, f"{path}[{i}]")
        elif isinstance(v, DictV):
            found.setdefault(id(v), path)
            if id(v) in seen:
                return
            seen.add(id(v))
            for k, x in v.pairs:
                walk(k, f"{path}<key>")
                walk(x, f"{path}[{show(k)}]")
        elif isinstance(v, ProxyV):
            walk(v.d, path + "<proxy>")
        elif isinstance(v, ClassV) and not v.builtin:
            if id(v) in seen:
                return
            seen.add(id(v))
            for k, x in v.dict.items():
                if isinstance(x, (Seq, DictV, SetV)):
                    walk(x, f"{v.name}.{k}")

    for r in roots:
        walk(r, "")
    # module-level containers of the library are shared state too (a result served from one is not a snapshot)
    for m in h.w.mods.values():
        if m.name.startswith("edgegraph") and not m.name.endswith("plantuml"):
            for k, v in m.globals.items():
                if isinstance(v, (Seq, DictV, SetV)) and mutable(v):
                    walk(v, f"{m.name}.{k}")
    return found


def exposed_containers(v):
    """Mutable containers a caller can reach through the returned value without touching private attributes."""
    out, seen = [], set()

    def walk(x, path):
        if id(x) in seen:
            return
        seen.add(id(x))
        if isinstance(x, Seq):
            if mutable(x):
                out.append((x, path))
            for i, y in enumerate(x.items):
                if isinstance(y, (Seq, DictV, SetV, ProxyV)):
                    walk(y, f"{path}[{i}]")
        elif isinstance(x, SetV):
            if mutable(x):
                out.append((x, path))
        elif isinstance(x, DictV):
            out.append((x, path))
            for k, y in x.pairs:
                if isinstance(y, (Seq, DictV, SetV, ProxyV)):
                    walk(y, f"{path}[{show(k)}]")
        elif isinstance(x, ProxyV):
            d = x.d
            while isinstance(d, ProxyV):
                d = d.d
            for k, y in d.pairs:
                if isinstance(y, (Seq, DictV, SetV, ProxyV)):
                    walk(y, f"{path}[{show(k)}]")

    walk(v, "result")
    return out


def graph(h, caching=False, warm=False):
    """A small graph exercising every accessor: a -> b (directed), a -- c (undirected), self-loop on a; universe U with laws + whitelist."""
    h.reset()
    V = {n: h.new("Vertex", n) for n in "abcz"}   # z is isolated and in no universe
    e1 = h.new("DirectedEdge", "e1", V["a"], V["b"])
    e2 = h.new("UnDirectedEdge", "e2", V["a"], V["c"])
    e3 = h.new("DirectedEdge", "e3", V["a"], V["a"])
    lawcls = h.fn("edgegraph.structure.universe.UniverseLaws")
    K1, K2 = h.cls("Vertex"), h.cls("DirectedEdge")
    wl = DictV([[K1, DictV([[K1, K2]])]])
    laws = h.I.call(lawcls, [], {"edge_whitelist": wl})
    laws.name = "laws"
    U = h.new("Universe", "U", vertices=Seq([V["a"], V["b"], V["c"]], "list"), laws=laws)
    h.fn("edgegraph.structure.vertex.Vertex").dict["NEIGHBOR_CACHING"] = bool(caching)
    roots = list(V.values()) + [e1, e2, e3, U, laws] + [h.cls(c) for c in ("Vertex", "Universe", "BaseObject", "Link", "TwoEndedLink", "DirectedEdge", "UnDirectedEdge")] + [lawcls]
    h.settle()
    return V, (e1, e2, e3), U, laws, roots


def accessors(h):
    I = h.I
    nb = h.fn(c04.FN)
    fl = h.fn("edgegraph.traversal.helpers.find_links")
    C = c04.consts(h)
    acc = [
        ("Vertex.links", "edgegraph.structure.vertex.Vertex.links", lambda V, E, U, L: h.getattr(V["a"], "links")),
        ("Link.vertices", "edgegraph.structure.link.Link.vertices", lambda V, E, U, L: h.getattr(E[0], "vertices")),
        ("Universe.vertices", "edgegraph.structure.universe.Universe.vertices", lambda V, E, U, L: h.getattr(U, "vertices")),
        ("BaseObject.universes", "edgegraph.structure.base.BaseObject.universes", lambda V, E, U, L: h.getattr(V["a"], "universes")),
        ("Link.universes", "edgegraph.structure.base.BaseObject.universes", lambda V, E, U, L: h.getattr(E[0], "universes")),
        ("UniverseLaws.edge_whitelist", "edgegraph.structure.universe.UniverseLaws.edge_whitelist", lambda V, E, U, L: h.getattr(L, "edge_whitelist")),
        ("neighbors", c04.FN, lambda V, E, U, L: h.call(nb, V["a"])),
        ("neighbors(ANY)", c04.FN, lambda V, E, U, L: h.call(nb, V["a"], C["ANY"])),
        ("neighbors(filter)", c04.FN, lambda V, E, U, L: h.call(nb, V["a"], C["FORWARD"], C["NEIGHBOR"], Callback("f"))),
        ("find_links", "edgegraph.traversal.helpers.find_links", lambda V, E, U, L: h.call(fl, V["a"], V["b"])),
        ("neighbors(no neighbours)", c04.FN, lambda V, E, U, L: h.call(nb, V["b"])),
        ("Vertex.links(none)", "edgegraph.structure.vertex.Vertex.links", lambda V, E, U, L: h.getattr(V["z"], "links")),
        ("BaseObject.universes(none)", "edgegraph.structure.base.BaseObject.universes", lambda V, E, U, L: h.getattr(V["z"], "universes")),
        ("neighbors(isolated)", c04.FN, lambda V, E, U, L: h.call(nb, V["z"])),
        ("find_links(none)", "edgegraph.traversal.helpers.find_links", lambda V, E, U, L: h.call(fl, V["z"], V["b"])),
    ]
    for mod, names in (("edgegraph.traversal.breadthfirst", ("bft",)), ("edgegraph.traversal.depthfirst", ("dft_recursive", "dft_iterative"))):
        for n in names:
            f = h.fn(f"{mod}.{n}")
            acc.append((n, f"{mod}.{n}", lambda V, E, U, L, _f=f: h.call(_f, U, V["a"])))
    return acc


def run_optimized(ctx):
    """the same obligations with the interpreter in -O mode (validation written as assert statements does nothing there)"""
    run(ctx)


def run(ctx):
    res = ctx.res
    res.rule_text = ("OUT: every accessor/query named in the statement evaluated with caching off / on-cold / on-warm; every mutable container reachable through the result "
                     "compared by identity with every mutable container reachable from the graph and class-level state after the call. IN: every constructor/builder evaluated on named "
                     "input containers (incl. nested ones); no reachable internal container may be an input container. distinct = (accessor, caching mode) / (constructor, argument)")
    res.trusted_base = common.TRUSTED_AE + ["heap identity of abstract containers = identity of the concrete containers (every container-producing operation of the model allocates like CPython does)"]
    res.assumptions = ["element-level sharing (the vertices inside a returned list are the live objects) is outside the property", "values of user attributes are not copied (not containers of the library)"]
    h = H(ctx.src, ["edgegraph.traversal.helpers", "edgegraph.traversal.breadthfirst", "edgegraph.traversal.depthfirst", "edgegraph.builder.adjlist",
                    "edgegraph.builder.adjmatrix", "edgegraph.builder.explicit"])
    n = 0
    for name, qual, thunk in accessors(h):
        for mode in ("caching-off", "caching-cold", "caching-warm", "caching-warm-then-switched-off"):
            try:
                V, E, U, L, roots = graph(h, caching=(mode != "caching-off"))
                first = thunk(V, E, U, L) if mode in ("caching-warm", "caching-warm-then-switched-off") else None
                if mode == "caching-warm-then-switched-off":
                    h.fn("edgegraph.structure.vertex.Vertex").dict["NEIGHBOR_CACHING"] = False       # the memo entries of the first call stay where they are
                out = thunk(V, E, U, L)
                if out.kind == "return" and isinstance(out.value, (GenV, IterV)):
                    out.value = Seq(h.I.iterate(out.value), "list")
                # what the first result shares with the internal state is read off *before* the next call (which may replace a memo entry)
                early = None
                if out.kind == "return":
                    internal0 = internal_containers(h, roots)
                    for c, path in exposed_containers(out.value):
                        if id(c) in internal0:
                            early = f"{path} is the internal container {internal0[id(c)]} itself (mutating it changes the graph or later answers)"
                            break
                again = thunk(V, E, U, L)
            except Unknown as u:
                res.ob(False)
                res.undecide(f"accessor {name} ({mode}): {u}")
                continue
            n += 1
            why = None
            if out.kind != "return":
                why = f"raises {out.excname}"
            else:
                why = early
                internal = internal_containers(h, roots)
                for c, path in (exposed_containers(out.value) if why is None else []):
                    if id(c) in internal:
                        why = f"{path} is the internal container {internal[id(c)]} itself (mutating it changes the graph or later answers)"
                        break
                if why is None and again.kind == "return" and not isinstance(again.value, (GenV, IterV)):
                    shared = {id(c) for c, _ in exposed_containers(out.value)} & {id(c) for c, _ in exposed_containers(again.value)}
                    if shared:
                        why = "two successive calls hand out the same mutable container (changing the first result changes the second)"
            res.ob(why is None, sig=("out", name, mode), sample={"accessor": name, "mode": mode, "result": show(out.value) if out.kind == "return" else repr(out)})
            if why:
                res.violation("ESCAPE", qual, f"mode={mode}", f"{name} with {mode}: {why}", replay=replay_out(name, mode))
    res.rule("ESCAPE", n)
    m = captures(ctx, h, res)
    res.rule("CAPTURE", m)
    common.vacuity(res, "ESCAPE", 50)
    common.vacuity(res, "CAPTURE", 18)
    try:
        from sa import eff
        eff.escape_notes(ctx)
    except ImportError:
        res.note("structural escape analysis (sa.eff) not available yet: verdicts come from the identity evaluation only")
    res.analysed = common.analysed(ctx, [q for _, q, _ in accessors(h)])
    res.explanation = ("No accessor hands out, and no constructor keeps, a mutable container that is part of the graph's state: identity comparison on the abstract heap for every "
                       "accessor/constructor named in the statement, with caching off, cold and warm.")


def replay_out(name, mode):
    return "\n".join(["from edgegraph.structure import *", "from edgegraph.traversal import helpers",
                      f"Vertex.NEIGHBOR_CACHING = {mode != 'caching-off'}" + ("   # ... make the call once, then set Vertex.NEIGHBOR_CACHING = False" if mode == "caching-warm-then-switched-off" else ""),
                      "a, b = Vertex(), Vertex(); e = DirectedEdge(a, b)",
                      "r1 = helpers.neighbors(a); r1.append('junk')" if "neighbors" in name else f"# accessor: {name}",
                      "print(helpers.neighbors(a))   # must still be [b]"])


def captures(ctx, h, res):
    I = h.I
    n = 0
    lawcls = h.fn("edgegraph.structure.universe.UniverseLaws")

    def case(name, qual, build):
        nonlocal n
        try:
            h.reset()
            h.settle()
            inputs, call, extra_roots = build()
            out = call()
        except Unknown as u:
            res.ob(False)
            res.undecide(f"constructor {name}: {u}")
            return
        n += 1
        why = None
        if out.kind != "return":
            why = f"raises {out.excname}"
        else:
            roots = [out.value] + extra_roots + [h.cls("Vertex"), h.cls("Universe")]
            # new objects allocated by the call (links created by builders) are graph state too
            roots += [o for o in h.w.alloc if isinstance(o, Obj)]
            internal = internal_containers(h, roots)
            for label, c in inputs:
                if id(c) in internal:
                    why = f"the caller's container `{label}` is stored by reference as {internal[id(c)]} (mutating it afterwards changes the object)"
                    break
        res.ob(why is None, sig=("in", name), sample={"constructor": name})
        if why:
            res.violation("CAPTURE", qual, f"arg={name}", f"{name}: {why}")

    def nested(label, c):
        out = [(label, c)]
        items = c.items if isinstance(c, (Seq, SetV)) else [v for _, v in c.pairs]
        for i, x in enumerate(items):
            if isinstance(x, (Seq, DictV, SetV)) and mutable(x):
                out += nested(f"{label}[{i}]", x)
        return out

    def b_vertex_links():
        L1 = h.new("DirectedEdge", "L1")
        arg = Seq([L1], "list")
        return nested("links", arg), lambda: h.call(h.cls("Vertex"), links=arg), [L1]

    def b_vertex_universes():
        u = h.new("Universe", "u")
        arg = Seq([u], "list")
        return nested("universes", arg), lambda: h.call(h.cls("Vertex"), universes=arg), [u]

    def b_vertex_attributes():
        arg = DictV([["colour", Tok(1)]])
        return nested("attributes", arg), lambda: h.call(h.cls("Vertex"), attributes=arg), []

    def b_link_vertices():
        v = h.new("Vertex", "v")
        arg = Seq([v], "list")
        return nested("vertices", arg), lambda: h.call(h.cls("SymLink"), vertices=arg), [v]

    def b_universe_vertices():
        v = h.new("Vertex", "v")
        arg = Seq([v], "list")
        return nested("vertices", arg), lambda: h.call(h.cls("Universe"), vertices=arg), [v]

    def b_whitelist():
        K1, K2 = h.cls("Vertex"), h.cls("DirectedEdge")
        arg = DictV([[K1, DictV([[K1, K2]])]])
        return nested("edge_whitelist", arg), lambda: h.call(lawcls, edge_whitelist=arg), []

    def b_adjdict():
        a, b = h.new("Vertex", "a"), h.new("Vertex", "b")
        arg = DictV([[a, Seq([b], "list")], [b, Seq([], "list")]])
        f = h.fn("edgegraph.builder.adjlist.load_adj_dict")
        return nested("adjdict", arg), lambda: h.call(f, arg), [a, b]

    def b_adjmatrix():
        a, b = h.new("Vertex", "a"), h.new("Vertex", "b")
        mat = Seq([Seq([0, 1], "list"), Seq([0, 0], "list")], "list")
        vs = Seq([a, b], "list")
        f = h.fn("edgegraph.builder.adjmatrix.load_adj_matrix")
        return nested("matrix", mat) + nested("vertices", vs), lambda: h.call(f, mat, vs), [a, b]

    def b_baseobject_universes():
        u = h.new("Universe", "u")
        arg = Seq([u], "list")
        return nested("universes", arg), lambda: h.call(h.cls("BaseObject"), universes=arg), [u]

    def b_edge_attributes():
        arg = DictV([["weight", Tok(1)]])
        a, b = h.new("Vertex", "a"), h.new("Vertex", "b")
        return nested("attributes", arg), lambda: h.call(h.cls("DirectedEdge"), a, b, attributes=arg), [a, b]

    def empty(name, qual, mk, callf):
        def build():
            arg = mk()
            return [(name + " (empty)", arg)], (lambda: callf(arg)), []
        case(name + " [empty container]", qual, build)

    empty("Vertex(links=)", "edgegraph.structure.vertex.Vertex.__init__", lambda: Seq([], "list"), lambda a: h.call(h.cls("Vertex"), links=a))
    empty("Vertex(universes=)", "edgegraph.structure.base.BaseObject.__init__", lambda: Seq([], "list"), lambda a: h.call(h.cls("Vertex"), universes=a))
    empty("Vertex(attributes=)", "edgegraph.structure.base.BaseObject.__init__", lambda: DictV(), lambda a: h.call(h.cls("Vertex"), attributes=a))
    empty("Link(vertices=)", "edgegraph.structure.link.Link.__init__", lambda: Seq([], "list"), lambda a: h.call(h.cls("SymLink"), vertices=a))
    empty("Universe(vertices=)", "edgegraph.structure.universe.Universe.__init__", lambda: Seq([], "list"), lambda a: h.call(h.cls("Universe"), vertices=a))
    empty("UniverseLaws(edge_whitelist=)", "edgegraph.structure.universe.UniverseLaws.__init__", lambda: DictV(), lambda a: h.call(lawcls, edge_whitelist=a))
    empty("load_adj_dict(adjdict)", "edgegraph.builder.adjlist.load_adj_dict", lambda: DictV(), lambda a: h.call(h.fn("edgegraph.builder.adjlist.load_adj_dict"), a))
    def b_whitelist_proxy_inner():
        K1, K2 = h.cls("Vertex"), h.cls("DirectedEdge")
        inner = DictV([[K1, K2]])
        arg = DictV([[K1, ProxyV(inner)]])
        return [("edge_whitelist", arg), ("the dict behind an inner mappingproxy of edge_whitelist", inner)], lambda: h.call(lawcls, edge_whitelist=arg), []

    case("UniverseLaws(edge_whitelist= with read-only inner views)", "edgegraph.structure.universe.UniverseLaws.__init__", b_whitelist_proxy_inner)

    def b_whitelist_proxy_outer():
        # the whitelist itself is handed over as a read-only view of a dictionary the caller keeps (and may go on editing)
        K1, K2 = h.cls("Vertex"), h.cls("DirectedEdge")
        inner = DictV([[K1, K2]])
        backing = DictV([[K1, inner]])
        arg = ProxyV(backing)
        return [("the dict behind the mappingproxy given as edge_whitelist", backing), ("an inner dict of that whitelist", inner)], lambda: h.call(lawcls, edge_whitelist=arg), []

    case("UniverseLaws(edge_whitelist= given as a read-only view)", "edgegraph.structure.universe.UniverseLaws.__init__", b_whitelist_proxy_outer)
    case("Vertex(links=)", "edgegraph.structure.vertex.Vertex.__init__", b_vertex_links)
    case("Vertex(universes=)", "edgegraph.structure.base.BaseObject.__init__", b_vertex_universes)
    case("Vertex(attributes=)", "edgegraph.structure.base.BaseObject.__init__", b_vertex_attributes)
    case("BaseObject(universes=)", "edgegraph.structure.base.BaseObject.__init__", b_baseobject_universes)
    case("Link(vertices=)", "edgegraph.structure.link.Link.__init__", b_link_vertices)
    case("DirectedEdge(attributes=)", "edgegraph.structure.base.BaseObject.__init__", b_edge_attributes)
    case("Universe(vertices=)", "edgegraph.structure.universe.Universe.__init__", b_universe_vertices)
    case("UniverseLaws(edge_whitelist=)", "edgegraph.structure.universe.UniverseLaws.__init__", b_whitelist)
    case("load_adj_dict(adjdict)", "edgegraph.builder.adjlist.load_adj_dict", b_adjdict)
    case("load_adj_matrix(matrix, vertices)", "edgegraph.builder.adjmatrix.load_adj_matrix", b_adjmatrix)
    return n
