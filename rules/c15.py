"""C15 - PyVis export: one node per member vertex, only real edges, correctly directed.

Decided at the call interface to pyvis (which is what edgegraph controls): make_pyvis_net is evaluated abstractly with
pyvis.network.Network replaced by a recording stub; the recorded sequence of add_node / directed := / add_edge events is
compared with the table of DESIGN.md A.3."""
from __future__ import annotations
import itertools

from sa.harness import H, show
from sa.ae import Seq, Builtin, ExtV, Callback, Unknown, Raised, SAtom, mkstr, Obj, SymStr, DictV
from rules import common

LEVEL = "proof"
FN = "edgegraph.output.pyvis.make_pyvis_net"
KINDS = {"DirectedEdge": True, "SymDir": True, "UnDirectedEdge": False, "SymTwo": False}
ENDS = ("ab", "ba", "aa", "bb", "ac", "ca", "aN", "Na", "cc")


class Recorder:
    def __init__(self, h):
        self.h = h
        self.events = []
        self.nodes = []
        self.asserts = True        # False: pyvis' own assertions are compiled away (python -O)

    def network(self, I, *a, **kw):
        rec = self
        B = I.w.B

        def add_node(I_, net, n_id, label=None, **k):
            rec.events.append(("add_node", n_id, label))
            rec.nodes.append(n_id)

        def add_edge(I_, net, src, dst, **k):
            # pyvis asserts that both nodes exist - with an `assert` statement, which is gone when the interpreter runs with -O
            if rec.asserts and (not any(I_.eq(src, n) for n in rec.nodes) or not any(I_.eq(dst, n) for n in rec.nodes)):
                raise Raised(B.mkexc("AssertionError", "non existent node"))
            arrows = k.get("arrows")
            directed = bool(I_.truth(net.attrs.get("directed"))) if "arrows" not in k else (isinstance(arrows, str) and "to" in arrows or isinstance(arrows, DictV))
            rec.events.append(("add_edge", src, dst, directed, k.get("title")))

        def show_buttons(I_, net, **k):
            rec.events.append(("show_buttons", k.get("filter_")))

        net = ExtV("pyvis.Network", methods={"add_node": add_node, "add_edge": add_edge, "show_buttons": show_buttons, "__strict__": True}, attrs={"directed": bool(I.truth(kw.get("directed", False)))})      # pyvis.Network(directed=...) sets the attribute
        net.kwargs = kw
        rec.net = net
        return net


def run(ctx):
    res = ctx.res
    res.rule_text = ("universe [a, b] (c outside, optionally carrying a stale index attribute) x one link of each kind (directed / directed subclass / undirected / other two-ended) x ends in "
                     "{a-b, b-a, a-a, b-b, a-c, c-a, a-None, None-a, c-c} x callbacks None/given; and pairs of links (parallel, anti-parallel, mixed kinds): recorded calls into pyvis compared with "
                     "the expected add_node / directed / add_edge events")
    res.trusted_base = common.TRUSTED_AE + ["pyvis itself (merging of undirected edges, arrow rendering) is outside edgegraph: the property is decided at the calls edgegraph makes into pyvis"]
    res.assumptions = ["rvfunc / refunc are pure", "pyvis.Network.add_edge asserts that both node ids exist (as pyvis 0.3 does)"]
    rec = Recorder(None)
    h = H(ctx.src, [], ext_overrides={})
    h.w.ext_overrides["pyvis.network.Network"] = Builtin("pyvis.network.Network", lambda I, *a, **k: rec.network(I, *a, **k))
    h.w.load("edgegraph.output.pyvis")
    h.w.snapshot()
    rec.h = h
    fn = h.fn(FN)
    n = 0
    singles = [((k, e),) for k in KINDS for e in ENDS]
    pairs = [(("DirectedEdge", "ab"), ("DirectedEdge", "ab")), (("DirectedEdge", "ab"), ("DirectedEdge", "ba")), (("DirectedEdge", "ab"), ("UnDirectedEdge", "ab")),
             (("UnDirectedEdge", "ba"), ("DirectedEdge", "aa")), (("SymTwo", "ab"), ("DirectedEdge", "ac")), (("DirectedEdge", "aa"), ("DirectedEdge", "bb"))]
    for links in singles + pairs:
        for stale, cbs in itertools.product((None, 0, 1, 7, "equal-to-member", "falsy-vertices", "network-kwargs-directed", "class-level-names-as-user-attributes", "pyvis-assertions-compiled-away"), (False, True)):
            if stale not in (None, "falsy-vertices", "network-kwargs-directed", "class-level-names-as-user-attributes", "pyvis-assertions-compiled-away") and not any("c" in e for _, e in links):
                continue
            if stale == "class-level-names-as-user-attributes" and not class_level_names(h):
                continue
            try:
                why, sample = evaluate(h, rec, fn, links, stale, cbs)
            except Unknown as u:
                res.ob(False)
                res.undecide(f"make_pyvis_net links={links} stale={stale} callbacks={cbs}: {u}")
                continue
            n += 1
            res.ob(why is None, sig=(links, stale, cbs), sample=sample)
            if why:
                k0, e0 = links[0]
                shape = "self-loop" if e0[0] == e0[1] and e0[0] in "ab" else ("leaves-universe" if "c" in e0 or "N" in e0 else "internal")
                special = stale if isinstance(stale, str) else None
                res.violation("EVENTS", FN, f"links={len(links)},shape={shape}," + (f"variant={special}" if special else f"stale-index-on-outside-vertex={stale is not None}"),
                              f"links {links}, " + ({"network-kwargs-directed": "network_kwargs={'directed': True}", "class-level-names-as-user-attributes": f"links carrying user attributes named {class_level_names(h)} (0 on directed links, 'no' on the others)",
                                                    "equal-to-member": "outside vertex compares equal to a member", "pyvis-assertions-compiled-away": "interpreter running with -O (pyvis' own `assert` on unknown node ids does nothing)", "falsy-vertices": "vertices whose truth value is False"}.get(special, special) if special
                                                   else f"outside vertex carries stale index {stale}") + f", callbacks {'given' if cbs else 'None'}: {why}", replay=replay(links, stale if not special or special in ("equal-to-member", "falsy-vertices") else None, cbs))
    res.rule("EVENTS", n)
    # ---- universe sizes other than two: ids 0..n-1 in universe order, one node each; the empty universe gives an empty network
    for members in ([], ["c"], ["b", "c", "a"], ["a", "b", "c", "d"]):
        try:
            h.reset()
            V = {x: h.new("Vertex", x) for x in "abcd"}
            l1 = h.new("DirectedEdge", "L0", V["c"], V["a"])
            U = h.new("Universe", "U", vertices=Seq([V[x] for x in members], "list"))
            h.settle()
            rec.events, rec.nodes = [], []
            out = h.call(fn, U, Callback("rvfunc", lambda I, k, a, kw: mkstr([SAtom("Label", a[0])])), None)
        except Unknown as u:
            res.ob(False)
            res.undecide(f"make_pyvis_net universe of {len(members)}: {u}")
            continue
        n += 1
        nodes = [e for e in rec.events if e[0] == "add_node"]
        labs = [e[2].parts[0].payload[0].name if isinstance(e[2], SymStr) and hasattr(e[2].parts[0], "payload") else None for e in nodes]
        edges = [(e[1], e[2]) for e in rec.events if e[0] == "add_edge"]
        want_edges = [(members.index("c"), members.index("a"))] if "a" in members and "c" in members else []
        ok = out.kind == "return" and [e[1] for e in nodes] == list(range(len(members))) and labs == members and edges == want_edges
        res.ob(ok, sig=("size", tuple(members)))
        if not ok:
            res.violation("EVENTS", FN, f"members={len(members)}", f"universe {members} with a link c->a: node ids {[e[1] for e in nodes]} labelled {labs}, edges {edges}; expected ids {list(range(len(members)))} labelled {members}, edges {want_edges}")
    from rules import structural
    structural.is_on_values(ctx, ["edgegraph/output/pyvis.py"])
    # pyvis_render_customizable forwards to make_pyvis_net (FWD)
    fwd(ctx, h, rec, res)
    from sa import eff
    eff.check_fwd(ctx, [("edgegraph.output.pyvis.pyvis_render_customizable", "make_pyvis_net", {"show_buttons_filter": None})])
    from rules import hist
    hist.run(ctx, res, 'C15', extra=('rules.histobs', 'pyvis'))       # composition: histories through the public API against the reference model (rules/hist.py)
    from rules import scale
    scale.run(ctx, res, 'C15', extra=('rules.histobs', 'pyvis'))      # the same on graphs whose collections have the sizes the tree names (rules/scale.py)
    common.vacuity(res, "HISTORY", 250)
    common.vacuity(res, "EVENTS", 80)
    res.analysed = common.analysed(ctx, [FN, "edgegraph.output.pyvis.pyvis_render_customizable"])
    res.explanation = "For every class of link position/kind the calls made into pyvis are exactly the specified node and edge events."


def class_level_names(h):
    """public class-level data attributes of the link classes (not methods, properties or dunders): a user attribute of the same
    name, given through attributes=, shadows them on that one object"""
    from sa.ae import ClassV, Func
    out = []
    for cn in ("BaseObject", "Link", "TwoEndedLink", "DirectedEdge", "UnDirectedEdge"):
        c = h.S.get(cn)
        if not isinstance(c, ClassV):
            continue
        for k, v in c.dict.items():
            if k.startswith("_") or k in out:
                continue
            if isinstance(v, (Func, ClassV, Builtin)) or type(v).__name__ in ("PropertyV", "Property", "StaticV", "ClassMethodV", "Descr") or hasattr(v, "fget"):
                continue
            if isinstance(v, (bool, int, str, float, type(None))) or isinstance(v, (Seq, DictV)):
                out.append(k)
    return out


def evaluate(h, rec, fn, links, stale, cbs):
    h.reset()
    kwargs_directed = stale == "network-kwargs-directed"
    rec.asserts = stale != "pyvis-assertions-compiled-away"
    if stale == "pyvis-assertions-compiled-away":
        stale = None
    shadow = class_level_names(h) if stale == "class-level-names-as-user-attributes" else []
    if kwargs_directed or stale == "class-level-names-as-user-attributes":
        stale = None
    if stale == "equal-to-member":
        # user vertex class with value equality: the outside vertex c compares equal to the member b
        V = {n: h.I.call(h.sym["EqVert"], [{"a": 1, "b": 2, "c": 2}[n]], {}) for n in "abc"}
        for n, v in V.items():
            v.name = n
        stale = None
    elif stale == "falsy-vertices":
        V = {n: h.new("SymFalsyVert", n) for n in "abc"}   # vertices whose truth value is False (empty container vertices)
        stale = None
    else:
        V = {n: h.new("Vertex", n) for n in "abc"}
    V["N"] = None
    L = []
    for i, (k, e) in enumerate(links):
        if shadow:
            # a falsy value on directed links, a truthy one on the others: whichever way the class-level name is read, it misleads
            L.append(h.new(k, f"L{i}", V[e[0]], V[e[1]], attributes=DictV([[nm, 0 if KINDS[k] else "no"] for nm in shadow])))
        else:
            L.append(h.new(k, f"L{i}", V[e[0]], V[e[1]]))
    U = h.new("Universe", "U", vertices=Seq([V["a"], V["b"]], "list"))
    if stale is not None:
        V["c"].fields["__make_pyvis_net_i"] = stale
    h.settle()
    rec.events, rec.nodes = [], []
    rv = Callback("rvfunc", lambda I, k, a, kw: mkstr([SAtom("Label", a[0])])) if cbs else None
    re_ = Callback("refunc", lambda I, k, a, kw: mkstr([SAtom("Title", a[0])])) if cbs else None
    out = h.call(fn, U, rv, re_, DictV([["directed", True], ["cdn_resources", "local"]])) if kwargs_directed else h.call(fn, U, rv, re_)
    sample = {"links": [list(x) for x in links], "stale": stale, "callbacks": cbs, "events": [ev_str(e) for e in rec.events], "network_kwargs_directed": kwargs_directed, "user_attributes": shadow}
    if out.kind != "return":
        return f"raises {out.excname}", sample
    if out.value is not rec.net:
        return f"returns {out.value!r}, not the network it built", sample
    nodes = [e for e in rec.events if e[0] == "add_node"]
    idx = {"a": 0, "b": 1}
    if [e[1] for e in nodes] != [0, 1]:
        return f"node ids {[e[1] for e in nodes]}, expected [0, 1] in universe order", sample
    for (name, i), e in zip(idx.items(), nodes):
        lab = e[2]
        if cbs:   # "labelled by rvfunc"; without rvfunc the label is not specified
            want = SAtom("Label", V[name])
            got = lab.parts[0] if isinstance(lab, SymStr) and len(lab.parts) == 1 else lab
            if not (hasattr(got, "key") and got.key() == want.key()):
                return f"node {i} labelled {lab!r}, expected rvfunc's label {want!r}", sample
    internal = [(idx[e[0]], idx[e[1]], KINDS[k], l) for l, (k, e) in zip(L, links) if e[0] in idx and e[1] in idx]
    got_edges = [e for e in rec.events if e[0] == "add_edge"]
    for g in got_edges:
        if g[1] not in (0, 1) or g[2] not in (0, 1) or isinstance(g[1], bool) or isinstance(g[2], bool):
            return f"an edge is produced whose end is not a node of the network (a vertex outside the universe, or a missing end): {ev_str(g)}", sample
    # directed links: exactly one arrowed edge i -> j per link
    want_dir = [(w[0], w[1]) for w in internal if w[2]]
    got_dir = [(g[1], g[2]) for g in got_edges if g[3]]
    for w in want_dir:
        if w in got_dir:
            got_dir.remove(w)
        else:
            return f"no arrowed edge {w[0]}->{w[1]} for a directed link (or fewer than links); edge events: {[ev_str(e) for e in got_edges]}", sample
    if got_dir:
        return f"arrowed edge(s) {got_dir} correspond to no directed link from vertex i to vertex j; edge events: {[ev_str(e) for e in got_edges]}", sample
    # other links: their pair of nodes is joined by at least one arrow-less edge; every arrow-less edge joins the ends of such a link
    pairs = [frozenset((w[0], w[1])) for w in internal if not w[2]]
    got_und = [frozenset((g[1], g[2])) for g in got_edges if not g[3]]
    for pr in pairs:
        if pr not in got_und:
            return f"no arrow-less edge joins nodes {sorted(pr)} although a non-directed link joins those members; edge events: {[ev_str(e) for e in got_edges]}", sample
    for pr in got_und:
        if pr not in pairs:
            return f"arrow-less edge between nodes {sorted(pr)} corresponds to no non-directed link between those members", sample
    return None, sample


def title_ok(title, link, cbs):
    if not cbs:
        return title is None
    got = title.parts[0] if isinstance(title, SymStr) and len(title.parts) == 1 else title
    return hasattr(got, "key") and got.key() == SAtom("Title", link).key()


def ev_str(e):
    return "(" + ", ".join(show(x) if not isinstance(x, str) else x for x in e) + ")"


def fwd(ctx, h, rec, res):
    f = h.fn("edgegraph.output.pyvis.pyvis_render_customizable")
    h.reset()
    a, b = h.new("Vertex", "a"), h.new("Vertex", "b")
    l = h.new("DirectedEdge", "L", a, b)
    U = h.new("Universe", "U", vertices=Seq([a, b], "list"))
    h.settle()
    rec.events, rec.nodes = [], []
    rv = Callback("rvfunc", lambda I, k, a_, kw: mkstr([SAtom("Label", a_[0])]))
    re_ = Callback("refunc", lambda I, k, a_, kw: mkstr([SAtom("Title", a_[0])]))
    try:
        out = h.call(f, U, rv, re_)
    except Unknown as u:
        res.undecide(f"pyvis_render_customizable: {u}")
        return
    ok = out.kind == "return" and len(rv.calls) >= 2 and len(re_.calls) >= 1 and [e[0] for e in rec.events].count("add_edge") == 1
    res.ob(ok, sig=("fwd",))
    res.rule("FWD", 1)
    if not ok:
        res.violation("FWD", "edgegraph.output.pyvis.pyvis_render_customizable", "callbacks", f"pyvis_render_customizable does not forward its callbacks/universe to make_pyvis_net unchanged: {out!r}, rvfunc called {len(rv.calls)}x, refunc {len(re_.calls)}x")


def replay(links, stale, cbs):
    L = ["from edgegraph.structure import *", "from edgegraph.structure import TwoEndedLink", "from edgegraph.output import pyvis as egp",
         "class SymTwo(TwoEndedLink): pass", "class SymDir(DirectedEdge): pass", "a, b, c = Vertex(), Vertex(), Vertex(); N = None"]
    for i, (k, e) in enumerate(links):
        L.append(f"L{i} = {k}({e[0]}, {e[1]})")
    L.append("U = Universe(vertices=[a, b])")
    if stale is not None:
        L.append(f"setattr(c, '__make_pyvis_net_i', {stale})")
    L.append("net = egp.make_pyvis_net(U" + (", rvfunc=lambda v: 'v', refunc=lambda e: 'e'" if cbs else "") + ")")
    L.append("print(net.get_nodes(), [(e['from'], e['to'], e.get('arrows')) for e in net.get_edges()])")
    return "\n".join(L)
