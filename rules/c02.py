"""C02 - universe membership symmetric, ordered, duplicate-free: inductive step for invariant I2 and
transformer equivalence with the reference model (DESIGN.md A.5)."""
from __future__ import annotations
import copy
import itertools

from sa.harness import H, names
from sa.ae import Seq, Seg, IterV, Obj, Unknown
from rules import common

LEVEL = "proof"
Q = {
    "u.add_vertex": "edgegraph.structure.universe.Universe.add_vertex", "u.remove_vertex": "edgegraph.structure.universe.Universe.remove_vertex",
    "v.add_to_universe": "edgegraph.structure.vertex.Vertex.add_to_universe", "v.remove_from_universe": "edgegraph.structure.vertex.Vertex.remove_from_universe",
    "Vertex(universes=)": "edgegraph.structure.vertex.Vertex.__init__", "Universe(vertices=)": "edgegraph.structure.universe.Universe.__init__",
}


class Pre:
    """Universes u, u2 and objects v, w; membership pattern `mem` is a set of (object role, universe role) pairs.
    Every list carries opaque segments around the named entries (order: as listed in `mem` order)."""

    def __init__(self, h, vcls, mem, alias_v_is_u=False, segs=True):
        self.h = h
        h.reset()
        O = {}
        O["u"] = h.universe("u")
        O["u2"] = h.universe("u2")
        if alias_v_is_u:
            O["v"] = O["u"]
        else:
            O["v"] = h.universe("v") if vcls == "Universe" else h.vertex("v", vcls)
        O["w"] = h.vertex("w")
        self.O = O
        self.alias = alias_v_is_u
        if getattr(h, "aux", None):
            # the tree keeps auxiliary state (a member index, ...): the same memberships, reached through Universe.add_vertex in order
            for o, u in mem:
                oo = "u" if (o == "v" and alias_v_is_u) else o
                h.call(h.I.getattr(O[u], "add_vertex"), O[oo])
            h.settle()
            self.pre = self.project()
            return
        uni_members = {"u": [], "u2": []}
        obj_unis = {"v": [], "w": [], "u": [], "u2": []}
        for o, u in mem:
            oo = "u" if (o == "v" and alias_v_is_u) else o
            uni_members[u].append(O[oo])
            obj_unis[oo].append(O[u])
        for u in ("u", "u2"):
            items = ([Seg(f"sig1_{u}")] if segs else []) + uni_members[u] + ([Seg(f"sig2_{u}")] if segs else [])
            O[u].fields["_vertices"] = Seq(items, "list")
        for o in ("v", "w", "u", "u2"):
            if o == "v" and alias_v_is_u:
                continue
            items = ([Seg(f"tau1_{o}")] if segs else []) + obj_unis[o] + ([Seg(f"tau2_{o}")] if segs else [])
            O[o].fields["_universes"] = Seq(items, "list")
        h.settle()
        self.pre = self.project()

    def roles(self):
        return [r for r in ("u", "u2", "v", "w") if not (r == "v" and self.alias)]

    def project(self, extra=None):
        objs = {r: self.O[r] for r in self.roles()}
        if extra:
            objs.update(extra)
        d = {"members": {}, "universes": {}}
        for r, o in objs.items():
            d["universes"][r] = names(o.fields["_universes"])
            if "_vertices" in o.fields:
                d["members"][r] = names(o.fields["_vertices"])
        return d


def i2_violations(st):
    bad = []
    for u, ms in st["members"].items():
        for o, us in st["universes"].items():
            k, m = ms.count(o), us.count(u)
            if k > 1:
                bad.append(f"{u}.vertices lists {o} {k} times")
            if m > 1:
                bad.append(f"{o}.universes lists {u} {m} times")
            if (k >= 1) != (m >= 1):
                bad.append(f"{o} in {u}.vertices: {k >= 1}, but {u} in {o}.universes: {m >= 1}")
    return bad


def m_add(st, o, u):
    if o not in st["members"][u]:
        st["members"][u].append(o)
        st["universes"][o].append(u)


def m_remove(st, o, u):
    if o in st["members"][u]:
        st["members"][u].remove(o)
        st["universes"][o].remove(u)
        return None
    return "raise"


def diff(a, b):
    """members are compared as ordered lists (Universe.vertices is in insertion order); the order of an object's `universes`
    is not specified, so those are compared as duplicate-free collections."""
    out = []
    for k in ("members", "universes"):
        for n in sorted(set(a[k]) | set(b[k])):
            x, y = a[k].get(n), b[k].get(n)
            if k == "universes" and x is not None and y is not None and len(x) == len(set(x)) and sorted(map(str, x)) == sorted(map(str, y)):
                continue
            if a[k].get(n) != b[k].get(n):
                out.append(f"{n}.{'vertices' if k == 'members' else 'universes'}: derived {a[k].get(n)} vs model {b[k].get(n)}")
    return out


MEMS = [(), (("v", "u"),), (("v", "u2"),), (("v", "u"), ("v", "u2")), (("w", "u"), ("v", "u")), (("v", "u"), ("w", "u"))]


def run_warnings_as_errors(ctx):
    """a membership call that a warning-turned-error ends must leave I2 intact"""
    run(ctx, warn=True)


def run(ctx, warn=False):
    res = ctx.res
    res.rule_text = ("inductive step for I2 + reference-model equality: abstract pre-states (object class Vertex/SymVert/Universe/self-member x membership pattern over "
                     "two universes and two objects, all lists with opaque segments) x the four membership calls from either side; constructors with repeated elements "
                     "given as list or one-shot iterator; raise => heap unchanged")
    res.trusted_base = common.TRUSTED_AE
    res.assumptions = ["objects do not define __eq__", "arguments are BaseObject/Universe instances"]
    if not warn:
        common.identity_model(ctx)
        common.own_rule(ctx, ["Universe._vertices", "BaseObject._universes"])
    h = H(ctx.src)
    common.aux_state(h, res)
    I = h.I
    n = 0
    for vcls, alias, segs in [(c, a, True) for c, a in (("Vertex", False), ("SymVert", False), ("Universe", False), ("Universe", True))] + [("Vertex", False, False), ("Universe", False, False), ("Universe", True, False)]:
        for mem in MEMS:
            for op, (orole, urole) in itertools.product(("u.add_vertex", "u.remove_vertex", "v.add_to_universe", "v.remove_from_universe"),
                                                        (("v", "u"), ("v", "u2"), ("w", "u"), ("u2", "u"))):
                if alias and any(o == "w" for o, _ in mem):
                    pass
                p = Pre(h, vcls, mem, alias, segs=segs)
                o_eff = "u" if (orole == "v" and alias) else orole
                obj, uni = p.O[o_eff], p.O[urole]
                try:
                    if op == "u.add_vertex":
                        out = h.call(I.getattr(uni, "add_vertex"), obj)
                    elif op == "u.remove_vertex":
                        out = h.call(I.getattr(uni, "remove_vertex"), obj)
                    elif op == "v.add_to_universe":
                        out = h.call(I.getattr(obj, "add_to_universe"), uni)
                    else:
                        out = h.call(I.getattr(obj, "remove_from_universe"), uni)
                except Unknown as u:
                    res.ob(False)
                    if segs:
                        res.note(f"{Q[op]} {vcls} alias={alias} mem={mem} on ({orole},{urole}) with opaque segments: {u} (the exact-list family decides this case)")
                        n += 1
                        res.ob(True)
                    else:
                        res.undecide(f"{Q[op]} {vcls} alias={alias} mem={mem} on ({orole},{urole}): {u}")
                    continue
                if warn and not common.warned(out):
                    continue
                n += 1
                model = copy.deepcopy(p.pre)
                mr = m_add(model, o_eff, urole) if "add" in op else m_remove(model, o_eff, urole)
                post = p.project()
                why = None
                bad = i2_violations(post)
                if bad:
                    why = "I2 broken: " + "; ".join(bad[:3])
                elif warn:
                    why = None
                elif mr == "raise":
                    if out.kind != "raise":
                        why = "removing a non-member returned normally"
                    elif post != p.pre:
                        why = "removing a non-member raised but changed the graph: " + "; ".join(diff(post, p.pre)[:3])
                elif out.kind == "raise":
                    if "add" in op and (orole, urole) in mem and not diff(post, p.pre):
                        why = None   # re-adding a member: the statement only requires that nothing is duplicated; refusing loudly is allowed
                    else:
                        why = f"raised {out.excname}; the reference model completes the call"
                else:
                    d = diff(post, model)
                    if d:
                        why = "; ".join(d[:3])
                cls = f"object={'self' if alias and orole == 'v' else vcls if orole == 'v' else ('universe' if orole == 'u2' else 'Vertex')},member={'yes' if (orole, urole) in mem else 'no'}" + ("" if segs else ",exact-lists")
                res.ob(why is None, sig=(vcls, alias, segs, mem, op, orole, urole), sample={"object_class": vcls, "self_member": alias, "memberships": [list(m) for m in mem], "call": op, "on": [orole, urole], "outcome": repr(out), "post": post})
                if why:
                    res.violation("I2-STEP", Q[op], cls, f"{op} with object {orole} and universe {urole} (memberships {list(mem)}, v is a {vcls}{', v is u' if alias else ''}): {why}",
                                  detail=f"pre {p.pre}\npost {post}\nmodel {model}",
                                  replay=replay(vcls, alias, mem, op, orole, urole))
    res.rule("I2-STEP" + ("/warnings-as-errors" if warn else ""), n)
    if warn:
        return
    # ---- constructors
    m = 0
    for form in ("list", "iterator", "tuple"):
        for pattern in (("u",), ("u", "u"), ("u", "u2", "u"), ("u2", "u")):
            # Vertex(universes=pattern)
            p = Pre(h, "Vertex", (("w", "u"),), False)
            arg = mk_arg(form, [p.O[r] for r in pattern])
            try:
                try:
                    out = h.call(h.cls("Vertex"), universes=arg)
                except Unknown as u0:
                    if "opaque" not in str(u0):
                        raise
                    # the tree looks at the length / the elements of a list beyond the named entries: the same call on exact lists
                    res.note(f"Vertex(universes={pattern} as {form}) with opaque segments: {u0} (decided on exact lists instead)")
                    res.bounded_only = True
                    p = Pre(h, "Vertex", (("w", "u"),), False, segs=False)
                    arg = mk_arg(form, [p.O[r] for r in pattern])
                    out = h.call(h.cls("Vertex"), universes=arg)
            except Unknown as u:
                res.ob(False)
                res.undecide(f"Vertex(universes={pattern} as {form}): {u}")
                continue
            m += 1
            model = copy.deepcopy(p.pre)
            model["universes"]["n"] = []
            for r in pattern:
                m_add(model, "n", r)
            why = None
            if out.kind != "return" or not isinstance(out.value, Obj):
                why = f"constructor gives {out!r}"
            else:
                out.value.name = "n"
                post = p.project({"n": out.value})
                bad = i2_violations(post)
                d = diff(post, model)
                why = ("I2 broken: " + "; ".join(bad[:3])) if bad else ("; ".join(d[:3]) if d else None)
            res.ob(why is None, sig=("Vertex(universes=)", form, pattern))
            if why:
                res.violation("I2-STEP", Q["Vertex(universes=)"], f"arg={form},repeats={len(pattern) - len(set(pattern))}", f"Vertex(universes={list(pattern)} given as {form}): {why}",
                              replay=f"from edgegraph.structure import *\nu, u2 = Universe(), Universe()\nsrc = [{', '.join(pattern)}]\nn = Vertex(universes={'iter(src)' if form == 'iterator' else ('tuple(src)' if form == 'tuple' else 'src')})\nprint(n.universes, [n in x.vertices for x in (u, u2)])")
            # Universe(vertices=pattern of v/w)
            vp = tuple({"u": "v", "u2": "w"}[r] for r in pattern)
            p = Pre(h, "Vertex", (("w", "u"),), False)
            arg = mk_arg(form, [p.O[r] for r in vp])
            try:
                try:
                    out = h.call(h.cls("Universe"), vertices=arg)
                except Unknown as u0:
                    if "opaque" not in str(u0):
                        raise
                    res.note(f"Universe(vertices={vp} as {form}) with opaque segments: {u0} (decided on exact lists instead)")
                    res.bounded_only = True
                    p = Pre(h, "Vertex", (("w", "u"),), False, segs=False)
                    arg = mk_arg(form, [p.O[r] for r in vp])
                    out = h.call(h.cls("Universe"), vertices=arg)
            except Unknown as u:
                res.ob(False)
                res.undecide(f"Universe(vertices={vp} as {form}): {u}")
                continue
            m += 1
            model = copy.deepcopy(p.pre)
            model["universes"]["n"] = []
            model["members"]["n"] = []
            for r in vp:
                m_add(model, r, "n")
            why = None
            if out.kind != "return" or not isinstance(out.value, Obj):
                why = f"constructor gives {out!r}"
            else:
                out.value.name = "n"
                post = p.project({"n": out.value})
                bad = i2_violations(post)
                d = diff(post, model)
                why = ("I2 broken: " + "; ".join(bad[:3])) if bad else ("; ".join(d[:3]) if d else None)
            res.ob(why is None, sig=("Universe(vertices=)", form, vp))
            if why:
                res.violation("I2-STEP", Q["Universe(vertices=)"], f"arg={form},repeats={len(vp) - len(set(vp))}", f"Universe(vertices={list(vp)} given as {form}): {why}",
                              replay=f"from edgegraph.structure import *\nv, w = Vertex(), Vertex()\nsrc = [{', '.join(vp)}]\nn = Universe(vertices={'iter(src)' if form == 'iterator' else ('tuple(src)' if form == 'tuple' else 'src')})\nprint(n.vertices, v.universes, w.universes)")
    # nested: a universe constructed with universes (and itself-like members) as its vertices
    for form in ("list", "iterator"):
        p = Pre(h, "Universe", (("v", "u"),), False)
        arg = mk_arg(form, [p.O["u2"], p.O["v"], p.O["u2"]])
        try:
            out = h.call(h.cls("Universe"), vertices=arg)
        except Unknown as u:
            res.ob(False)
            res.undecide(f"Universe(vertices=[u2, v, u2]) nested as {form}: {u}")
            continue
        m += 1
        model = copy.deepcopy(p.pre)
        model["universes"]["n"], model["members"]["n"] = [], []
        for r in ("u2", "v", "u2"):
            m_add(model, r, "n")
        why = None
        if out.kind != "return" or not isinstance(out.value, Obj):
            why = f"constructor gives {out!r}"
        else:
            out.value.name = "n"
            post = p.project({"n": out.value})
            bad = i2_violations(post)
            d = diff(post, model)
            why = ("I2 broken: " + "; ".join(bad[:3])) if bad else ("; ".join(d[:3]) if d else None)
        res.ob(why is None, sig=("Universe(vertices=nested)", form))
        if why:
            res.violation("I2-STEP", Q["Universe(vertices=)"], f"arg={form},nested-universes", f"Universe(vertices=[u2, v, u2]) where u2 and v are universes, given as {form}: {why}")
    # two objects constructed from one and the same (duplicate-free) list object, then a membership call on one of them: the other
    # object's memberships are its own
    for cls_ in ("Vertex", "SymVert"):
        for call in ("u2.add_vertex(n1)", "n1.add_to_universe(u2)", "u.remove_vertex(n1)"):
            try:
                p = Pre(h, "Vertex", (), False, segs=False)
                src = Seq([p.O["u"]], "list")
                o1, o2 = h.call(h.cls(cls_), universes=src), h.call(h.cls(cls_), universes=src)
                if o1.kind != "return" or o2.kind != "return":
                    raise Unknown(f"{cls_}(universes=[u]) gives {o1!r} / {o2!r}")
                n1, n2 = o1.value, o2.value
                n1.name, n2.name = "n1", "n2"
                if call == "u2.add_vertex(n1)":
                    out = h.call(h.I.getattr(p.O["u2"], "add_vertex"), n1)
                elif call == "n1.add_to_universe(u2)":
                    out = h.call(h.I.getattr(p.O["u2"], "add_vertex"), n1)
                    out = h.call(h.I.getattr(n1, "add_to_universe"), p.O["u2"])
                else:
                    out = h.call(h.I.getattr(p.O["u"], "remove_vertex"), n1)
                got = h.getattr(n2, "universes")
            except Unknown as u:
                res.ob(False)
                res.undecide(f"two {cls_} objects built from one universes= list, then {call}: {u}")
                continue
            m += 1
            ok = out.kind == "return" and got.kind == "return" and names(got.value) == ["u"] and "n2" in names(p.O["u"].fields["_vertices"])
            res.ob(ok, sig=("shared-universes-argument", cls_, call))
            if not ok:
                res.violation("I2-STEP", Q["Vertex(universes=)"], "one-list-object-passed-to-two-constructors", f"src = [u]; n1 = {cls_}(universes=src); n2 = {cls_}(universes=src); {call} -> {out!r}; afterwards n2.universes reads "
                              f"{names(got.value) if got.kind == 'return' else got!r} and u.vertices {names(p.O['u'].fields['_vertices'])}: n2 is a member of u only and was not touched",
                              replay=f"from edgegraph.structure import *\nu, u2 = Universe(), Universe()\nsrc = [u]\nn1 = {cls_}(universes=src); n2 = {cls_}(universes=src)\n{call}\nprint(n2.universes == [u], n2 in u.vertices, n2 in u2.vertices)")
    # a user universe class whose add_vertex calls back into the library (the admitted vertex leaves a rival universe) among the
    # universes= of a constructor: whatever the final memberships are, they are symmetric and duplicate-free
    for order in (("u", "k", "u2"), ("k", "u", "u2"), ("u", "u2", "k")):
        try:
            p = Pre(h, "Vertex", (), False, segs=False)
            k_ = h.new("KickUni", "k")
            k_.fields["rival"] = p.O["u"]
            objs = {"u": p.O["u"], "u2": p.O["u2"], "k": k_}
            out = h.call(h.cls("Vertex"), universes=Seq([objs[r] for r in order], "list"))
            if out.kind != "return":
                raise Unknown(f"constructor gives {out!r}")
            out.value.name = "n"
            st = {"members": {r: names(h.getattr(o, "vertices").value) for r, o in objs.items()}, "universes": {"n": names(h.getattr(out.value, "universes").value)}}
            bad = i2_violations(st)
        except Unknown as u:
            res.ob(False)
            res.undecide(f"Vertex(universes={order}) with a re-entrant universe class: {u}")
            continue
        m += 1
        res.ob(not bad, sig=("reentrant-universe-class", order))
        if bad:
            res.violation("I2-STEP", Q["Vertex(universes=)"], "universe-subclass-calling-back-from-add_vertex", f"Vertex(universes={list(order)}) where k is a Universe subclass whose add_vertex makes the vertex leave u: I2 broken: {'; '.join(bad[:3])}",
                          replay="from edgegraph.structure import *\nclass K(Universe):\n    rival = None\n    def add_vertex(self, v):\n        super().add_vertex(v)\n        if self.rival in v.universes: v.remove_from_universe(self.rival)\n"
                                 "u, u2, k = Universe(), Universe(), K(); k.rival = u\nn = Vertex(universes=[u, k, u2])\nprint(n.universes, [n in x.vertices for x in (u, k, u2)])")
    # a user universe class whose `in` answers by label: a second vertex carrying the label of a member joins / a non-member leaves
    from sa.ae import DictV as _DictV
    for call in ("a2.add_to_universe(cat)", "cat.add_vertex(a2)", "a2.remove_from_universe(cat)", "cat.remove_vertex(a2)"):
        try:
            h.reset()
            cat = h.new("LabelUni", "cat")
            a1 = h.new("Vertex", "a1", attributes=_DictV([["label", "A"]]))
            a2 = h.new("Vertex", "a2", attributes=_DictV([["label", "A"]]))
            r0 = h.call(h.I.getattr(cat, "add_vertex"), a1)
            if r0.kind != "return":
                raise Unknown(f"cat.add_vertex(a1) gives {r0!r}")
            h.settle()
            if call == "a2.add_to_universe(cat)":
                out = h.call(h.I.getattr(a2, "add_to_universe"), cat)
            elif call == "cat.add_vertex(a2)":
                out = h.call(h.I.getattr(cat, "add_vertex"), a2)
            elif call == "a2.remove_from_universe(cat)":
                out = h.call(h.I.getattr(a2, "remove_from_universe"), cat)
            else:
                out = h.call(h.I.getattr(cat, "remove_vertex"), a2)
            st = {"members": {"cat": names(h.getattr(cat, "vertices").value)}, "universes": {"a1": names(h.getattr(a1, "universes").value), "a2": names(h.getattr(a2, "universes").value)}}
            bad = i2_violations(st)
        except Unknown as u:
            res.ob(False)
            res.undecide(f"universe class with a label-based __contains__, {call}: {u}")
            continue
        m += 1
        adding = "add" in call
        why = ("I2 broken: " + "; ".join(bad[:3])) if bad else None
        if why is None and adding and not (out.kind == "return" and st["members"]["cat"] == ["a1", "a2"] and st["universes"]["a2"] == ["cat"]):
            why = f"the call gives {out!r}; afterwards cat.vertices = {st['members']['cat']}, a2.universes = {st['universes']['a2']}: a2 is another object than a1 and joins"
        if why is None and not adding and not (out.kind == "raise" and st["members"]["cat"] == ["a1"] and st["universes"]["a2"] == []):
            why = f"the call gives {out!r}; afterwards cat.vertices = {st['members']['cat']}, a2.universes = {st['universes']['a2']}: removing the non-member a2 raises and changes nothing"
        res.ob(why is None, sig=("label-universe", call))
        if why:
            res.violation("I2-STEP", {"a2.add_to_universe(cat)": Q["v.add_to_universe"], "cat.add_vertex(a2)": Q["u.add_vertex"], "a2.remove_from_universe(cat)": Q["v.remove_from_universe"], "cat.remove_vertex(a2)": Q["u.remove_vertex"]}[call],
                          "universe-subclass-with-its-own-__contains__", f"cat is a Universe subclass whose `in` answers by label; a1 (label A) is a member, a2 (label A) is not; {call}: {why}",
                          replay="from edgegraph.structure import *\nclass Cat(Universe):\n    def __contains__(self, x):\n        return any(getattr(m, 'label', None) == getattr(x, 'label', '?') for m in self.vertices)\n"
                                 f"cat = Cat(); a1 = Vertex(attributes={{'label': 'A'}}); a2 = Vertex(attributes={{'label': 'A'}})\ncat.add_vertex(a1)\n{call}\nprint(cat.vertices, a2.universes)")
    res.rule("I2-CONSTRUCT", m)
    from rules import hist
    hist.run(ctx, res, 'C02')       # composition: histories through the public API against the reference model (rules/hist.py)
    from rules import scale
    scale.run(ctx, res, 'C02')      # the same on graphs whose collections have the sizes the tree names (rules/scale.py)
    hist.run_sequences(ctx, res, "C02", "universes", 4, small=not ctx.thorough)      # every sequence of up to four membership calls from either side
    common.vacuity(res, "SEQUENCE", 8000)
    common.vacuity(res, "HISTORY", 6000)
    common.vacuity(res, "I2-STEP", 350)
    common.vacuity(res, "I2-CONSTRUCT", 20)
    res.analysed = common.analysed(ctx, list(Q.values()) + ["edgegraph.structure.base.BaseObject.__init__", "edgegraph.structure.base.BaseObject.add_to_universe", "edgegraph.structure.base.BaseObject.remove_from_universe"])
    res.explanation = "Each membership call and constructor preserves I2 and equals the reference model from every abstract I2 pre-state; induction covers all histories and pools."


def mk_arg(form, items):
    if form == "iterator":
        return IterV(items)
    return Seq(items, "tuple" if form == "tuple" else "list")


def replay(vcls, alias, mem, op, orole, urole):
    L = ["from edgegraph.structure import *", "class SymVert(Vertex): pass", "u, u2, w = Universe(), Universe(), Vertex()",
         "v = u" if alias else f"v = {vcls}()"]
    for o, u in mem:
        L.append(f"{u}.add_vertex({o})")
    call = {"u.add_vertex": f"{urole}.add_vertex({orole})", "u.remove_vertex": f"{urole}.remove_vertex({orole})",
            "v.add_to_universe": f"{orole}.add_to_universe({urole})", "v.remove_from_universe": f"{orole}.remove_from_universe({urole})"}[op]
    L += ["try:", f"    {call}", "except Exception as e: print('raised', type(e).__name__)",
          f"print({urole}.vertices.count({orole}), {orole}.universes.count({urole}))"]
    return "\n".join(L)
