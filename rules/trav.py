"""Traversal engine shared by C06, C07, C08: abstract evaluation of the traversals / searches of the current
source over neighbour maps (helpers.neighbors replaced by a recording stub that returns the map's list), compared
with the reference search schemas of DESIGN.md A.4."""
from __future__ import annotations
import itertools
import os

from sa.harness import H, names
from sa.ae import Seq, Builtin, Callback, Unknown, Raised, Tok, Obj
from sa.src import SourceError

HELPERS = "edgegraph.traversal.helpers"
BF = "edgegraph.traversal.breadthfirst"
DF = "edgegraph.traversal.depthfirst"
TRAVS = {"bft": (BF, "bft", "ibft", "bfs"), "dft_recursive": (DF, "dft_recursive", "idft_recursive", "dfs_recursive"), "dft_iterative": (DF, "dft_iterative", "idft_iterative", "dfs_iterative")}


class TH:
    """Harness world: helpers.neighbors is stubbed *before* the traversal modules are loaded."""

    def __init__(self, src):
        self.h = H(src, [HELPERS])
        w = self.h.w
        hm = w.mods[HELPERS]
        self.real = hm.globals.get("neighbors")
        if self.real is None:
            raise SourceError("anchor edgegraph.traversal.helpers.neighbors vanished")
        self.NB = {}
        self.calls = []
        hm.globals["neighbors"] = Builtin("neighbors<stub>", self._stub)
        w.load(BF)
        w.load(DF)
        w.snapshot()
        g = hm.globals
        self.C = {n: g[n] for n in ("DIR_SENS_FORWARD", "DIR_SENS_ANY", "DIR_SENS_BACKWARD", "LNK_UNKNOWN_NONNEIGHBOR", "LNK_UNKNOWN_NEIGHBOR", "LNK_UNKNOWN_ERROR")}
        self.fn = {}
        for t, (mod, lst, gen, search) in TRAVS.items():
            for n in (lst, gen, search):
                v = w.mods[mod].globals.get(n)
                if v is None:
                    raise SourceError(f"anchor {mod}.{n} vanished")
                self.fn[n] = v
        # defaults of the real neighbors()
        loc = self.h.I.bind_args(self.real, [None], {})
        self.defaults = (loc.get("direction_sensitive"), loc.get("unknown_handling"), loc.get("filterfunc"))

    def _stub(self, I, *args, **kw):
        loc = I.bind_args(self.real, list(args), kw)
        v = loc["vert"]
        self.calls.append((v, loc.get("direction_sensitive"), loc.get("unknown_handling"), loc.get("filterfunc")))
        if not isinstance(v, Obj) or v.name not in self.NB:
            raise Unknown(f"neighbors() called on {v!r}, which is not a vertex of the neighbour map")
        return Seq([self.V[n] for n in self.NB[v.name]], "list")

    def setup(self, nbmap, members, vcls="Vertex", attrs=None, hidden=()):
        """vertices named by the keys of nbmap; universe of `members` (or None).  The individuals are built once
        per (map, vertex class) and re-used: traversals are read-only (C13 decides that)."""
        h = self.h
        if getattr(self, "_keymap", None) is not nbmap or getattr(self, "_keycls", None) != vcls:
            h.reset()
            self.V = {n: h.vertex(n, vcls) for n in nbmap}
            self._unis = {}
            self._keymap, self._keycls = nbmap, vcls
            self._clean = {n: dict(v.fields) for n, v in self.V.items()}
        for n, v in self.V.items():
            v.fields.clear()
            v.fields.update(self._clean[n])
        for n, a in (attrs or {}).items():
            for k, val in a.items():
                self.V[n].fields[k] = val
        self.NB = nbmap
        self.calls = []
        if members is None:
            self.uni = None
        else:
            mk = (tuple(members), tuple(hidden), bool(getattr(self, "_falsy_uni", False)))
            if mk not in self._unis:
                if hidden:
                    # a user universe class overriding the public `vertices` accessor: the listed members minus the hidden ones
                    u_ = h.universe("U", [self.V[m] for m in members], "ViewUni")
                    u_.fields["hidden"] = Seq([self.V[x] for x in hidden], "tuple")
                    self._unis[mk] = u_
                else:
                    # every other plain universe is of a user class whose truth value is False (the limit is given by `is not None`)
                    self._unis[mk] = h.universe("U", [self.V[m] for m in members], "FalsyUni" if getattr(self, "_falsy_uni", False) else "Universe")
            self.uni = self._unis[mk]
        h.settle()
        return self.V


# ----------------------------------------------------------------------------- reference schemas (A.4)
def ref_bft(nb, start, member):
    M, Q, out = [start], [start], [start]
    while Q:
        u = Q.pop(0)
        for v in nb[u]:
            if member(v) and v not in M:
                M.append(v)
                Q.append(v)
                out.append(v)
    return out


def ref_dft_recursive(nb, start, member):
    M, out = [], []

    def R(v):
        M.append(v)
        out.append(v)
        for w in nb[v]:
            if member(w) and w not in M:
                R(w)

    R(start)
    return out


def ref_dft_iterative(nb, start, member):
    S, D = [start], []
    while S:
        v = S.pop()
        if v in D or not member(v):
            continue
        D.append(v)
        S.extend(nb[v])
    return D


REF = {"bft": ref_bft, "dft_recursive": ref_dft_recursive, "dft_iterative": ref_dft_iterative}


def reach(nb, start, member):
    seen, todo = {start}, [start]
    while todo:
        u = todo.pop()
        for v in nb[u]:
            if member(v) and v not in seen:
                seen.add(v)
                todo.append(v)
    return seen


# ----------------------------------------------------------------------------- neighbour maps
def maps(inner, outside, maxlen):
    """All neighbour maps: each inner vertex gets a list of length <= maxlen over inner+outside; outside vertices point back to the first inner."""
    verts = list(inner) + list(outside)
    lists = [()] + [t for n in range(1, maxlen + 1) for t in itertools.product(verts, repeat=n)]
    for combo in itertools.product(lists, repeat=len(inner)):
        nb = {v: list(l) for v, l in zip(inner, combo)}
        for o in outside:
            nb[o] = [inner[0], inner[-1]]
        yield nb


FF_RESULTS = ("none", "accept", "reject", "selective")


def mk_ff_result(mode, V):
    if mode == "none":
        return None, lambda n: True
    if mode == "accept":
        return Callback("ff_result", lambda I, n, a, k: True), lambda n: True
    if mode == "reject":
        return Callback("ff_result", lambda I, n, a, k: False), lambda n: False
    rej = sorted(V)[1] if len(V) > 1 else sorted(V)[0]
    return Callback("ff_result", lambda I, n, a, k: a[0].name != rej), lambda n: n != rej


def same_filter(th, got, want):
    """The filter handed to neighbors() is the traversal's ff_via - the very object, or a wrapper that delegates to it with the
    same arguments and passes its answer on (probed once with a link/vertex pair)."""
    if got is want:
        return True
    if want is None or got is None or not isinstance(want, Callback):
        return False
    try:
        n0 = len(want.calls)
        probe_l, probe_v = Tok(901, "probe-link"), Tok(902, "probe-vertex")
        saved = want.script
        for answer in (True, False):
            want.script = lambda I, n, a, k, _a=answer: _a
            r = th.h.I.call(got, [probe_l, probe_v], {})
            if len(want.calls) == n0 or want.calls[-1][0] != [probe_l, probe_v] or bool(th.h.I.truth(r)) != answer:
                return False
        return True
    except (Unknown, Raised):
        return False
    finally:
        want.script = saved
        del want.calls[n0:]


def eval_traversal(th: TH, tname, form, nbmap, members, settings, ffr_mode, start="a", vcls="Vertex", hidden=()):
    """-> dict(outcome=..., listing=[names] | exc, calls_ok=bool, calls=[...])"""
    V = th.setup(nbmap, members, vcls, hidden=hidden)
    d, uh, via = settings if settings != "defaults" else (None, None, False)
    ff_via = Callback("ff_via") if via else None
    ffr, keep = mk_ff_result(ffr_mode, V)
    mod, lst, gen, _ = TRAVS[tname]
    fn = th.fn[lst if form == "list" else gen]
    if settings == "defaults":
        # the plain call: no keyword at all; neighbors() must then be asked with its own defaults
        out = th.h.call(fn, th.uni, V[start])
        ed, eu, ev = th.defaults
    else:
        dval = th.C[d] if isinstance(d, str) else d
        out = th.h.call(fn, th.uni, V[start], direction_sensitive=dval, unknown_handling=th.C[uh], ff_via=ff_via, ff_result=ffr)
        ed, eu, ev = dval, th.C[uh], ff_via
    bad_calls = [c for c in th.calls if not (c[1] == ed and c[1] is not None and c[2] == eu and same_filter(th, c[3], ev))]
    listing = names(out.value) if out.kind == "return" and isinstance(out.value, Seq) else None
    return {"out": out, "listing": listing, "bad_calls": bad_calls, "keep": keep, "ff_calls": [a[0].name for a, k in ffr.calls] if ffr is not None else None}


# ----------------------------------------------------------------------------- sweep (shared by C06 / C07)
SETTINGS = [(d, u, v) for d in ("DIR_SENS_FORWARD", "DIR_SENS_ANY", "DIR_SENS_BACKWARD") for u in ("LNK_UNKNOWN_NONNEIGHBOR", "LNK_UNKNOWN_NEIGHBOR", "LNK_UNKNOWN_ERROR") for v in (False, True)]
# the direction given as a bool (a bool is an int: whatever neighbors() makes of it, the traversal must hand it on as it is)
SETTINGS += [(True, "LNK_UNKNOWN_NONNEIGHBOR", False), (False, "LNK_UNKNOWN_NEIGHBOR", True), (True, "LNK_UNKNOWN_ERROR", True)]


def scope(thorough):
    if thorough:
        return dict(inner=("a", "b", "c"), outside=("x",), maxlen=2, sampled=30000)
    return dict(inner=("a", "b"), outside=("x",), maxlen=2, sampled=520)


def sampled_maps(n, seed=20261004):
    """Deterministic pseudo-random family from a larger space: 3-4 inner vertices, 2 outside, lists of length <= 3
    (repeats = parallel edges, self entries = self-loops).  The seed is fixed: verdicts do not depend on VERIF_SEED."""
    import random
    rnd = random.Random(seed)
    out = []
    for i in range(n):
        inner = ("a", "b", "c", "d")[: 3 + (i % 2)]
        verts = list(inner) + ["x", "y"]
        nb = {}
        for v in verts:
            k = rnd.choice((0, 1, 1, 2, 2, 3, 3))
            nb[v] = [rnd.choice(verts) for _ in range(k)]
        out.append((inner, nb))
    return out


def sweep_job(job):
    """Evaluate a chunk of neighbour maps.  Returns (count, records) where each record describes a mismatch."""
    from sa.src import Source
    root, overlay, chunk, sc, base = job
    th = TH(Source(root, overlay))
    recs, n, k = [], 0, base
    groups = {}
    for mi, (inner, nbmap) in enumerate(chunk):
        vcls = "SymFalsyVert" if (base + mi) % 2 else "Vertex"    # a traversal never depends on the truth value of a vertex
        th._falsy_uni = (base + mi) % 4 in (1, 2)      # a traversal never depends on the truth value of the universe either
        for members in (None, list(inner)):
            hidden = (inner[1],) if members is not None and len(inner) > 1 and (base + mi) % 3 == 2 else ()
            member = (lambda v: True) if members is None else (lambda v, m=set(members) - set(hidden): v in m)
            for ti, tname in enumerate(TRAVS):
                base_listing = None
                groups[tname] = groups.get(tname, base) + 1
                gc = groups[tname]
                for fi, ffr in enumerate(FF_RESULTS + ("none/other-form", "none/defaults")):
                    k += 1
                    # one settings triple per (map, universe, traversal) group, cycling through all 18 per traversal; the form is
                    # chosen by a hash so that it is independent of both the settings and ff_result
                    settings = SETTINGS[gc % len(SETTINGS)]
                    form = "gen" if ((gc * 2654435761 + fi * 40503) >> 13) & 1 else "list"
                    if ffr == "none/other-form":
                        ffr, form, settings = "none", ("list" if base_form == "gen" else "gen"), base_settings     # generator and list forms on the same input
                    elif ffr == "none/defaults":
                        ffr, settings = "none", "defaults"
                    elif ffr == "none":
                        base_form, base_settings = form, settings
                    n += 1
                    rec = dict(map={v: list(l) for v, l in nbmap.items()}, universe=members, trav=tname, form=form, settings=settings, ff_result=ffr, hidden=list(hidden), falsy_uni=bool(th._falsy_uni and members is not None and not hidden))
                    try:
                        try:
                            r = eval_traversal(th, tname, form, nbmap, members, settings, ffr, vcls=vcls, hidden=hidden)
                        except Unknown as u0:
                            if "set-order" not in str(u0) and "set-pop" not in str(u0):
                                raise
                            # the code iterates a set: decided by comparing two iteration orders (a difference is a witness that
                            # the listing is not a function of the graph's link order alone)
                            outs = []
                            for order in ("insertion", "reversed"):
                                th.h.w.set_order = order
                                try:
                                    outs.append(eval_traversal(th, tname, form, nbmap, members, settings, ffr, vcls=vcls, hidden=hidden))
                                finally:
                                    th.h.w.set_order = "fork"
                            r = outs[0]
                            if outs[0]["listing"] != outs[1]["listing"]:
                                rec.update(kind="setorder", got=outs[0]["listing"], want=outs[1]["listing"])
                                recs.append(dict(rec))
                    except Unknown as u:
                        if "budget" in str(u):
                            rec.update(kind="nonterm", got=str(u))
                        else:
                            rec.update(kind="undecided", got=str(u))
                        recs.append(rec)
                        continue
                    want_all = REF[tname](nbmap, "a", member)
                    want = [v for v in want_all if r["keep"](v)]
                    rs = reach(nbmap, "a", member)
                    got = r["listing"]
                    rec.update(got=got if got is not None else repr(r["out"]), want=want, reach=sorted(rs))
                    if got is None:
                        rec.update(kind="noreturn")
                        recs.append(rec)
                        continue
                    if r["bad_calls"]:
                        c = r["bad_calls"][0]
                        rec.update(kind="forward", got=f"neighbors({c[0]!r}, {c[1]!r}, {c[2]!r}, {c[3]!r})")
                        recs.append(dict(rec))
                    if len(set(got)) != len(got):
                        rec.update(kind="repeat")
                        recs.append(dict(rec))
                    elif set(got) != {v for v in rs if r["keep"](v)}:
                        rec.update(kind="set")
                        recs.append(dict(rec))
                    elif got != want:
                        rec.update(kind="order")
                        recs.append(dict(rec))
                    if ffr == "none":
                        if base_listing is not None and got != base_listing:
                            rec.update(kind="forms", want=base_listing)     # generator / list form, or default / explicit call, disagree
                            recs.append(dict(rec))
                        base_listing = got
                    elif base_listing is not None and got != [v for v in base_listing if r["keep"](v)]:
                        rec.update(kind="ff_result", want=[v for v in base_listing if r["keep"](v)])
                        recs.append(dict(rec))
    return n, recs


def run_sweep(ctx):
    sc = scope(ctx.thorough)
    allmaps = [(sc["inner"], m) for m in maps(sc["inner"], sc["outside"], sc["maxlen"])] + sampled_maps(sc["sampled"])
    root, overlay = str(ctx.src.root), dict(ctx.src.overlay)
    import multiprocessing as mp
    if (ctx.thorough or len(allmaps) > 200) and not mp.current_process().daemon and (os.cpu_count() or 1) > 1:
        nproc = min(16, os.cpu_count() or 1)
        size = max(1, len(allmaps) // (nproc * 4))
        jobs = [(root, overlay, allmaps[i:i + size], sc, i * 7) for i in range(0, len(allmaps), size)]
        with mp.get_context("fork").Pool(nproc) as pool:
            parts = pool.map(sweep_job, jobs)
    else:
        parts = [sweep_job((root, overlay, allmaps, sc, 0))]
    n = sum(p[0] for p in parts)
    recs = [r for p in parts for r in p[1]]
    return n, recs, len(allmaps), sc


def replay_map(rec):
    m = rec["map"]
    L = ["from edgegraph.structure import Vertex, Universe", "from edgegraph.builder import explicit", "from edgegraph.traversal import breadthfirst, depthfirst, helpers",
         f"names = {sorted(m)}", "V = {n: Vertex(attributes={'name': n}) for n in names}"]
    for v, l in m.items():
        for w in l:
            L.append(f"explicit.link_directed(V[{v!r}], V[{w!r}])")
    if rec.get("falsy_uni"):
        L.append("class FalsyUni(Universe):\n    def __len__(self): return 0      # truth value False although it has members")
    L.append(f"uni = {'None' if rec['universe'] is None else ('FalsyUni' if rec.get('falsy_uni') else 'Universe') + '(vertices=[V[n] for n in ' + repr(rec['universe']) + '])'}")
    mod, lst, gen, srch = TRAVS[rec["trav"]]
    fr = {"none": "None", "accept": "lambda v: True", "reject": "lambda v: False"}.get(rec.get("ff_result"), "lambda v: v.name != 'b'")
    L.append(f"print([v.name for v in {mod.split('.')[-1]}.{lst}(uni, V['a'], ff_result={fr})])   # expected {rec.get('want')}")
    return "\n".join(L)
