"""C05 - neighbour caching is transparent.

1. query side: neighbors() with caching on (cold, then warm) equals caching off on every table row; a warm memo never answers
   a query made under different settings (semantic KEY rule); no other memoisation exists (MEMO rule).
2. invalidation: ghost memo entries on every C01/C03 obligation - wherever the neighbour-relevant state of a vertex changed, the
   stale entry is gone, with the flag on or off at the time of the mutation, on normal and exceptional exits.
3. process boundary: objects whose class-level registries are empty (as after un-pickling in a fresh interpreter) answer queries
   and accept mutations with caching on (REGISTRY)."""
from __future__ import annotations
import ast
import itertools

from sa.harness import H, show, names
from sa.ae import Seq, DictV, Unknown, Callback, Obj
from rules import common, struct, c04

LEVEL = "proof"
NB = c04.FN


def same_list(a, b):
    if a.kind != b.kind:
        return False
    if a.kind == "raise":
        return a.excname == b.excname
    return isinstance(a.value, Seq) and isinstance(b.value, Seq) and len(a.value.items) == len(b.value.items) and all(x is y for x, y in zip(a.value.items, b.value.items))


def set_flag(h, on):
    h.fn(struct.FLAG).dict["NEIGHBOR_CACHING"] = bool(on)


def query_side(ctx, h, res):
    fn = h.fn(NB)
    C = c04.consts(h)
    n = 0
    for cls, pos, d, uh, filt in itertools.product(c04.KINDS, c04.POS, c04.DIRS[:3], c04.UHS, c04.FILTERS[:3] + ("accept-unhashable",)):
        outs = []
        try:
            for caching in (False, True):
                h.reset()
                a, links, others = c04.build(h, [(cls, pos)])
                set_flag(h, caching)
                cb = c04.cbval(c04.mkfilter(filt, h=h))
                o1 = h.call(fn, a, C[d], C[uh], cb)
                o2 = h.call(fn, a, C[d], C[uh], cb)
                outs.append((o1, o2, others[0]))
        except Unknown as u:
            res.ob(False)
            res.undecide(f"query side {cls},{pos},{d},{uh},{filt}: {u}")
            continue
        n += 1
        off, on = outs
        g = lambda o, other: c04.classify(o, other, None)
        ok = g(off[0], off[2]) == g(on[0], on[2]) == g(on[1], on[2]) if off[0].kind == "return" else (g(on[0], on[2]) == g(off[0], off[2]))
        res.ob(ok, sig=("q", cls, pos, d, uh, filt), sample={"link": cls, "vert_is": pos, "direction": d, "unknown": uh, "filter": filt,
                                                              "caching_off": g(off[0], off[2]), "cold": g(on[0], on[2]), "warm": g(on[1], on[2])})
        if not ok:
            raises = on[0].kind == "raise" and off[0].kind == "return"
            res.violation("CACHED-EQ", NB, (f"caching-raises-{on[0].excname},filter={filt}" if raises else f"kind={c04.KINDS[cls]},dir={d},unknown={uh},filter={filt}"),
                          f"caching on gives cold={g(on[0], on[2])!r} warm={g(on[1], on[2])!r}, caching off gives {g(off[0], off[2])!r}")
    res.rule("CACHED-EQ", n)
    # semantic KEY: a warm entry is only ever used for the same settings
    settings = list(itertools.product(("FORWARD", "BACKWARD", "ANY"), c04.UHS[:2], ("none", "accept", "rejD"))) + [("ANY", "NEIGHBOR", "closure-1"), ("ANY", "NEIGHBOR", "closure-2"), ("FORWARD", "NEIGHBOR", "closure-1")]
    rows = [("DirectedEdge", "v1"), ("DirectedEdge", "v2"), ("SymTwo", "v1"), ("UnDirectedEdge", "v2")]
    m = 0
    pairs = [(s1, s2) for s1, s2 in itertools.product(settings, settings) if s1 != s2]
    for d_, f_ in itertools.product(("FORWARD", "BACKWARD", "ANY"), ("none", "accept", "rejD")):
        for u_ in c04.UHS[:2]:     # ERROR differs from the other modes only in unknown_handling: a key that conflates them serves a list where an exception is due
            pairs += [((d_, u_, f_), (d_, "ERROR", f_)), ((d_, "ERROR", f_), (d_, u_, f_))]
    # a direction given as a plain bool is equal, as a dictionary key, to the constant with the same numeric value: whatever such a
    # call means, its cached answer must be its uncached answer
    C = dict(C)
    C["bool-True"], C["bool-False"] = True, False
    for d_ in ("FORWARD", "ANY", "BACKWARD"):
        for b_ in ("bool-True", "bool-False"):
            pairs += [((d_, "NEIGHBOR", "none"), (b_, "NEIGHBOR", "none")), ((b_, "NEIGHBOR", "none"), (d_, "NEIGHBOR", "none"))]
    for s1, s2 in pairs:
        try:
            res2 = []
            for caching in (False, True):
                h.reset()
                a, links, others = c04.build(h, rows)
                set_flag(h, caching)
                mk = h.sym["make_reject"]
                cbs = {"none": None, "accept": c04.mkfilter("accept"), "rejD": c04.mkfilter("selective", (links[0], links[1])),
                       "closure-1": h.I.call(mk, [others[0]], {}), "closure-2": h.I.call(mk, [others[3]], {})}
                h.call(fn, a, C[s1[0]], C[s1[1]], cbs[s1[2]])
                o = h.call(fn, a, C[s2[0]], C[s2[1]], cbs[s2[2]])
                res2.append(names(o.value) if o.kind == "return" else o.excname)
        except Unknown as u:
            res.ob(False)
            res.undecide(f"KEY pair {s1}->{s2}: {u}")
            continue
        m += 1
        ok = res2[0] == res2[1]
        res.ob(ok, sig=("key", s1, s2))
        if not ok:
            diff = [n for n, (x, y) in zip(("direction_sensitive", "unknown_handling", "filterfunc"), zip(s1, s2)) if x != y]
            res.violation("KEY", NB, "differs-in=" + "+".join(diff),
                          f"after a query with settings {s1}, the query with settings {s2} returns {res2[1]} with caching on but {res2[0]} with caching off (memo key ignores {diff})")
    res.rule("KEY", m)
    # object lifetime: a filter callable that was dropped after its query may hand its address (id) on to the next one
    k = 0
    for d_, u_, mk_ in itertools.product(("FORWARD", "ANY"), c04.UHS[:2], ("make_reject", "RejectUnhashable")):
        try:
            outs = [lifetime_scenario(h, caching, d_, u_, mk_) for caching in (False, True)]
        except Unknown as u:
            res.ob(False)
            res.undecide(f"KEY-LIFETIME {d_},{u_},{mk_}: {u}")
            continue
        k += 1
        ok = outs[0][0] == outs[1][0]
        res.ob(ok, sig=("key-lifetime", d_, u_, mk_))
        if not ok:
            res.violation("KEY-LIFETIME", NB, "second-filter-allocated-where-the-first-one-lived" + (",filters-are-unhashable-objects" if mk_ != "make_reject" else ""),
                          f"caching on: neighbors(a, {d_}, {u_}, f1) with a throw-away filter f1" + (" (a callable object of a class defining __eq__ without __hash__)" if mk_ != "make_reject" else "") + f"; f1 is dropped (nothing references it any more) and a new filter f2 is allocated at its address (id(f2) == the old "
                          f"id(f1)); neighbors(a, {d_}, {u_}, f2) then answers {outs[1][0]} where the uncached answer is {outs[0][0]}",
                          replay="from edgegraph.structure import *\nfrom edgegraph.traversal import helpers\nVertex.NEIGHBOR_CACHING = True\na, b, c = Vertex(), Vertex(), Vertex(); DirectedEdge(a, b); DirectedEdge(a, c)\n"
                                 "print(helpers.neighbors(a, filterfunc=lambda e, v: v is b), helpers.neighbors(a, filterfunc=lambda e, v: v is c))   # CPython allocates the second lambda where the first one was")
    res.rule("KEY-LIFETIME", k)


def lifetime_scenario(h, caching, d_="ANY", u_="NEIGHBOR", maker="make_reject"):
    """-> (names of neighbors(a, f2), a, others, links): f1 rejects others[0], is used once and dropped; f2 rejects others[3]."""
    fn = h.fn(NB)
    C = c04.consts(h)
    rows = [("DirectedEdge", "v1"), ("DirectedEdge", "v2"), ("SymTwo", "v1"), ("UnDirectedEdge", "v2")]
    h.reset()
    a, links, others = c04.build(h, rows)
    set_flag(h, caching)
    mk = h.sym[maker]
    f1 = h.I.call(mk, [others[0]], {})
    h.call(fn, a, C[d_], C[u_], f1)
    f2 = h.I.call(mk, [others[3]], {})
    h.reuse_id(f2, f1, [a] + links + others)
    o = h.call(fn, a, C[d_], C[u_], f2)
    return (names(o.value) if o.kind == "return" else o.excname), a, others, links, f2


def memo_rule(ctx, res):
    prog = common.program(ctx)
    n = 0
    for f in prog.all_functions():
        n += 1
        for d in f.node.decorator_list:
            s = ast.unparse(d)
            if any(k in s for k in ("lru_cache", "functools.cache", "cached_property")) or s in ("cache",):
                res.note(f"MEMO pointer: {f.loc()} {f.qual} carries the memoising decorator {s}; whether its answers survive graph mutations is decided by the cached/uncached comparisons")
    res.rule("MEMO", n)


def invalidation(ctx, h, res):
    maxlen = 3
    total = 0
    for flag in (True, False):
        if ctx.thorough:
            core = [struct.core_runs(h, maxlen, memo="warm", flag=flag, res=res, classes=struct.LCLASSES)]
        else:
            core = [struct.core_runs(h, 3 if flag else 2, memo="warm", flag=flag, res=res, classes=("DirectedEdge",)),
                    struct.core_runs(h, 2, memo="warm", flag=flag, res=res, classes=("UnDirectedEdge", "SymTwo"))]
        gens = core + [
                struct.core_runs(h, 2, memo="warm", flag=flag, res=res, classes=("DirectedEdge",), vcls="SymFalsyVert"),
                struct.ctor_runs(h, res=res, memo="warm", flag=flag),
                struct.explicit_runs(h, res=res, memo="warm", flag=flag, thorough=ctx.thorough)]
        for rec in itertools.chain(*gens):
            total += 1
            lclass = dict(rec.model.lclass)
            for n, l in rec.links.items():
                lclass[n] = l.cls.name
            stale = []
            for r, v in rec.p.V.items():
                if r not in rec.p.ghost:
                    continue
                if r not in rec.pre["vlinks"]:
                    continue
                before = struct.nbsig(rec.pre, lclass, r)
                after = struct.nbsig(rec.post, lclass, r)
                if before == after:
                    continue
                memo = v.fields.get(struct.MEMO)
                if isinstance(memo, DictV) and any(val is rec.p.ghost[r] for _, val in memo.pairs):
                    # the entry physically survives: is it still *served*?  (a lazily validated / version-stamped memo may keep it)
                    if served_stale(h, v, memo, rec.p.ghost[r]):
                        stale.append(r)
            ok = not stale
            res.ob(ok, sig=("inv", flag, rec.family, rec.lcls, rec.ends, rec.op, rec.arg, getattr(rec, "choices", ())),
                   sample={"flag_on": flag, "link_class": rec.lcls, "ends": list(rec.ends), "call": rec.op, "arg": str(rec.arg), "stale": stale})
            if not ok:
                argroles = rec.arg if isinstance(rec.arg, tuple) else (rec.arg,)
                where = "callee/argument-vertex" if any(s in argroles for s in stale) and rec.op in ("add_to_link", "remove_from_link") else "other-vertex"
                res.violation("INVALIDATE", rec.qual, f"flag={'on' if flag else 'off'},stale-at={where}",
                              f"{rec.op}({rec.arg}) on a {rec.lcls} with ends {list(rec.ends)} changes what neighbors() of {stale} must answer, but their memo entries survive "
                              f"(flag {'on' if flag else 'off'} during the mutation)",
                              detail=f"pre {rec.pre}\npost {rec.post}", replay=replay_inv(rec, flag, stale))
    res.rule("INVALIDATE", total)


def served_stale(h, v, memo, ghost):
    key = next(k for k, val in memo.pairs if val is ghost)
    get = v.cls.lookup("_qa_neighbors_get")[0]
    if get is None:
        return True
    saved = h.fn(struct.FLAG).dict.get("NEIGHBOR_CACHING")
    h.fn(struct.FLAG).dict["NEIGHBOR_CACHING"] = True
    try:
        out = h.call(get, v, *key.items)
    except Unknown:
        return True
    finally:
        h.fn(struct.FLAG).dict["NEIGHBOR_CACHING"] = saved
    if out.kind != "return":
        return False
    val = out.value
    return val is ghost or (isinstance(val, Seq) and any(x is ghost.items[0] for x in val.items))


def replay_inv(rec, flag, stale):
    if rec.family != "S" or rec.op not in ("add_vertex", "unlink_from", "set_v1", "set_v2", "add_to_link", "remove_from_link"):
        return ""
    base = struct.replay_core(rec.lcls, rec.ends, rec.op, rec.arg).split("\n")
    i = next(k for k, l in enumerate(base) if l.startswith("try:"))
    pre = base[:i]
    call = base[i:i + 3]
    v = stale[0]
    return "\n".join(["from edgegraph.traversal import helpers", *pre,
                      "Vertex.NEIGHBOR_CACHING = True", f"helpers.neighbors({v}, helpers.DIR_SENS_ANY)   # warm the memo",
                      f"Vertex.NEIGHBOR_CACHING = {flag}", *call, "Vertex.NEIGHBOR_CACHING = True",
                      f"cached = helpers.neighbors({v}, helpers.DIR_SENS_ANY)", "Vertex.NEIGHBOR_CACHING = False",
                      f"fresh = helpers.neighbors({v}, helpers.DIR_SENS_ANY)", "print('cached', cached, 'recomputed', fresh, 'EQUAL' if cached == fresh else 'STALE')"])


def registry(ctx, h, res):
    """Objects survive the loss of all class-level state (fresh interpreter after un-pickling)."""
    fn = h.fn(NB)
    C = c04.consts(h)
    bft = h.fn("edgegraph.traversal.breadthfirst.bft")
    n = 0
    scripts = ["neighbors", "neighbors-twice", "bft", "add_to_link", "remove_from_link", "set_v2", "add_vertex", "unlink_from"]
    for script in scripts:
        try:
            outs = []
            for caching in (False, True):
                h.reset()
                a, b, c = h.vertex("a"), h.vertex("b"), h.vertex("c")
                e = h.new("DirectedEdge", "e", a, b)
                f = h.new("DirectedEdge", "f")
                h.w.restore()           # class-level registries as in a fresh interpreter; instances keep their state
                h.settle()
                set_flag(h, caching)
                I = h.I
                if script == "neighbors":
                    o = h.call(fn, a)
                elif script == "neighbors-twice":
                    h.call(fn, a)
                    o = h.call(fn, a)
                elif script == "bft":
                    o = h.call(bft, None, a)
                elif script == "add_to_link":
                    o = h.call(I.getattr(c, "add_to_link"), f)
                elif script == "remove_from_link":
                    o = h.call(I.getattr(a, "remove_from_link"), e)
                elif script == "set_v2":
                    o = h.setattr(e, "v2", c)
                elif script == "add_vertex":
                    o = h.call(I.getattr(f, "add_vertex"), c)
                else:
                    o = h.call(I.getattr(e, "unlink_from"), b)
                after = h.call(fn, a)
                outs.append((o, after))
        except Unknown as u:
            res.ob(False)
            res.undecide(f"REGISTRY script {script}: {u}")
            continue
        n += 1
        (o0, a0), (o1, a1) = outs
        ok = o0.kind == o1.kind and a0.kind == a1.kind and (a0.kind != "return" or names(a0.value) == names(a1.value)) and (o0.kind != "raise" or o0.excname == o1.excname)
        res.ob(ok, sig=("registry", script))
        if not ok:
            res.violation("REGISTRY", "edgegraph.structure.vertex.Vertex", f"script={script}",
                          f"on objects whose class-level registries are empty (as after un-pickling in a fresh interpreter) '{script}' gives {o1!r} / {a1!r} with caching on "
                          f"but {o0!r} / {a0!r} with caching off",
                          replay=("import pickle, subprocess, sys\nfrom edgegraph.structure import *\nfrom edgegraph.output import nrpickler\na, b = Vertex(), Vertex(); e = DirectedEdge(a, b)\n"
                                  "data = nrpickler.dumps(a)\ncode = 'import pickle,sys; from edgegraph.structure import Vertex; from edgegraph.traversal import helpers; "
                                  "Vertex.NEIGHBOR_CACHING=True; a=pickle.loads(sys.stdin.buffer.read()); print(helpers.neighbors(a))'\n"
                                  "print(subprocess.run([sys.executable, '-c', code], input=data, capture_output=True))"))
    res.rule("REGISTRY", n)


def interleave(ctx, h, res):
    """query - mutate - query histories through the public entry points (neighbors, the three traversals, the three searches) with
    caching on, with or without switching the flag off around the mutation, compared with the same history with caching off."""
    C = c04.consts(h)
    f = h.fn
    nb = f(NB)
    queries = {"neighbors": lambda G: h.call(nb, G["a"]), "neighbors(c)": lambda G: h.call(nb, G["c"], C["ANY"]),
               "neighbors(b, BACKWARD)": lambda G: h.call(nb, G["b"], C["BACKWARD"])}
    for mod, names_ in (("edgegraph.traversal.breadthfirst", ("bft", "bfs")), ("edgegraph.traversal.depthfirst", ("dft_recursive", "dft_iterative", "dfs_recursive", "dfs_iterative"))):
        for n_ in names_:
            fn = f(f"{mod}.{n_}")
            if n_.startswith(("bfs", "dfs")):
                queries[n_] = lambda G, _fn=fn: h.call(_fn, None, G["a"], "name", "d")
            else:
                queries[n_] = lambda G, _fn=fn: h.call(_fn, None, G["a"])
    ex = "edgegraph.builder.explicit."
    muts = {
        "e_ab.v2 = d": lambda G: h.setattr(G["e_ab"], "v2", G["d"]),
        "e_ab.v1 = c": lambda G: h.setattr(G["e_ab"], "v1", G["c"]),
        "unlink(a, b)": lambda G: h.call(f(ex + "unlink"), G["a"], G["b"]),
        "link_directed(c, d)": lambda G: h.call(f(ex + "link_directed"), G["c"], G["d"]),
        "b.remove_from_link(e_bc)": lambda G: h.call(h.I.getattr(G["b"], "remove_from_link"), G["e_bc"]),
        "e_bc.unlink_from(c); e_bc.add_vertex(d)": lambda G: (h.call(h.I.getattr(G["e_bc"], "unlink_from"), G["c"]), h.call(h.I.getattr(G["e_bc"], "add_vertex"), G["d"]))[1],
    }

    def build():
        h.reset()
        G = {n_: h.new("Vertex", n_, attributes=DictV([["name", n_]])) for n_ in "abcd"}
        G["e_ab"] = h.new("DirectedEdge", "e_ab", G["a"], G["b"])
        G["e_bc"] = h.new("DirectedEdge", "e_bc", G["b"], G["c"])
        G["e_ac"] = h.new("UnDirectedEdge", "e_ac", G["a"], G["c"])
        h.settle()
        return G

    def sig(o):
        if o.kind == "raise":
            return "raise " + o.excname
        v = o.value
        return [x.name if isinstance(x, Obj) else x for x in v.items] if isinstance(v, Seq) else (v.name if isinstance(v, Obj) else v)

    n = 0
    for qn, q in queries.items():
        for mn, m in muts.items():
            for toggle in (False, True):
                try:
                    outs = []
                    for caching in (False, True):
                        G = build()
                        set_flag(h, caching)
                        for v_ in "abcd":       # warm every memo under the settings the queries use
                            q(G) if v_ == "a" else None
                        for qq in queries.values():
                            qq(G)
                        if toggle:
                            set_flag(h, False)
                        m(G)
                        if toggle:
                            set_flag(h, caching)
                        outs.append([sig(qq(G)) for qq in (q,)])
                except Unknown as u:
                    res.ob(False)
                    res.undecide(f"interleaving {qn} / {mn}: {u}")
                    continue
                n += 1
                ok = outs[0] == outs[1]
                res.ob(ok, sig=("interleave", qn, mn, toggle))
                if not ok:
                    res.violation("INTERLEAVE", NB if qn.startswith("neighbors") else qn, f"mutation={mn.split('(')[0].split(' ')[0]},flag-toggled-around-mutation={toggle}",
                                  f"history [every query once; {'flag off; ' if toggle else ''}{mn}; {'flag on; ' if toggle else ''}{qn}] answers {outs[1][0]} with caching on but {outs[0][0]} with caching off")
    res.rule("INTERLEAVE", n)


def only_neighbors(ctx, res):
    """Traversals and searches move through the graph only via helpers.neighbors."""
    prog = common.program(ctx)
    banned = {"links", "_links", "v1", "v2", "other", "_vertices"}
    try:
        from sa.harness import H
        act = H(ctx.src).actual
        banned |= {act["links"], act["ends"]}
    except Exception:  # noqa: BLE001 - the canonical names still apply
        pass
    n = 0
    for mod in ("edgegraph.traversal.breadthfirst", "edgegraph.traversal.depthfirst"):
        if mod not in prog.modules:
            from sa.src import SourceError
            raise SourceError(f"anchor module {mod} vanished")
        for f in prog.all_functions():
            if f.module.name != mod:
                continue
            n += 1
            for node in ast.walk(f.node):
                if isinstance(node, ast.Attribute) and node.attr in banned:
                    res.note(f"ONLY-NEIGHBORS pointer: {f.rel}:{node.lineno} {f.qual} reads .{node.attr} directly instead of going through helpers.neighbors (uncached, hence transparent; C06/C07 decide whether the listing is still right)")
    res.rule("ONLY-NEIGHBORS", n)


def run(ctx):
    res = ctx.res
    res.rule_text = ("(1) every neighbors() table row evaluated with caching off / cold / warm; ordered pairs of different settings on one graph (semantic KEY); "
                     "(2) ghost memo entry on every vertex of every C01/C03 obligation with the flag on and off during the mutation: whenever the neighbour signature "
                     "of a vertex changes its stale entry must be gone; (3) scripts on objects with empty class-level registries. distinct = distinct obligations")
    res.trusted_base = common.TRUSTED_AE + ["neighbour signature (rules/struct.nbsig): order of v.links, and per named link its class kind, position of v and opposite end - the read set of neighbors()/other()"]
    res.assumptions = ["filter callbacks are pure and compared by identity in memo keys", "dill restores instance dictionaries faithfully (third-party behaviour, not decided)"]
    common.identity_model(ctx)
    h = H(ctx.src, ["edgegraph.traversal.helpers", "edgegraph.builder.explicit", "edgegraph.traversal.breadthfirst", "edgegraph.traversal.depthfirst"])
    common.aux_state(h, res)
    query_side(ctx, h, res)
    memo_rule(ctx, res)
    invalidation(ctx, h, res)
    registry(ctx, h, res)
    interleave(ctx, h, res)
    only_neighbors(ctx, res)
    from rules import hist
    hist.run(ctx, res, 'C05')       # composition: histories through the public API against the reference model (rules/hist.py)
    from rules import scale
    scale.run(ctx, res, 'C05')      # the same on graphs whose collections have the sizes the tree names (rules/scale.py)
    hist.run_sequences(ctx, res, "C05", "links", 4 if ctx.thorough else 3)      # incl. switching the flag and reading between the calls
    common.vacuity(res, "SEQUENCE", 20000)
    common.vacuity(res, "HISTORY", 14000)
    common.vacuity(res, "CACHED-EQ", 540)
    key_args_rule(ctx, res)
    common.vacuity(res, "KEY", 300)
    common.vacuity(res, "INVALIDATE", 3000)
    common.vacuity(res, "REGISTRY", 8)
    res.analysed = common.analysed(ctx, [NB, "edgegraph.structure.vertex.Vertex._qa_neighbors_get", "edgegraph.structure.vertex.Vertex._qa_neighbors_invalidate",
                                         "edgegraph.structure.vertex.Vertex._qa_neighbors_insert"] + [q for q in struct.QUAL.values() if "[" not in q])
    res.explanation = ("Cached answers equal recomputed ones because (i) a cold or warm query returns the table row, (ii) an entry is only reused under identical settings, "
                       "(iii) every mutator removes the entries of every vertex whose neighbour signature it changes, whatever the flag, and (iv) nothing depends on class-level "
                       "state that un-pickling does not restore.")


SURROGATES = ("id", "hash", "repr", "str", "type", "len", "bool")
SURROGATE_ATTRS = ("__code__", "__name__", "__qualname__", "__class__", "__doc__", "__module__", "__hash__")


def key_args_rule(ctx, res):
    """KEY-ARGS: the memo key passed to the vertex's get/insert helpers is built from neighbors()' own parameters, not from a
    surrogate that distinct arguments can share (id() of a short-lived callable is re-used after collection; closures share
    __code__; hash/repr/str/type collide).  A surrogate is the recipe for a witness: query with one argument, let it die / build a
    second one sharing the surrogate, query again with caching on."""
    prog = common.program(ctx)
    f = prog.func(NB)
    params = set(f.params())
    n = 0
    for node in ast.walk(f.node):
        if isinstance(node, ast.Call) and isinstance(node.func, ast.Attribute) and node.func.attr in ("_qa_neighbors_get", "_qa_neighbors_insert"):
            allargs = list(node.args) + [k.value for k in node.keywords]
            plain = {x.id for x in allargs if isinstance(x, ast.Name)} | {e.id for x in allargs if isinstance(x, (ast.Tuple, ast.List)) for e in x.elts if isinstance(e, ast.Name)}
            for a in allargs:
                n += 1
                for sub in ast.walk(a):
                    bad = None
                    if isinstance(sub, ast.Call) and isinstance(sub.func, ast.Name) and sub.func.id in SURROGATES and any(isinstance(x, ast.Name) and x.id in params for x in ast.walk(sub)):
                        bad = f"{sub.func.id}(...)"
                    elif isinstance(sub, ast.Attribute) and sub.attr in SURROGATE_ATTRS and any(isinstance(x, ast.Name) and x.id in params for x in ast.walk(sub)):
                        bad = f".{sub.attr}"
                    elif isinstance(sub, ast.Call) and isinstance(sub.func, ast.Name) and sub.func.id == "getattr" and len(sub.args) >= 2 and isinstance(sub.args[1], ast.Constant) and sub.args[1].value in SURROGATE_ATTRS:
                        bad = f"getattr(..., {sub.args[1].value!r})"
                    if bad and any(isinstance(x, ast.Name) and x.id in params and x.id in plain for x in ast.walk(sub)):
                        bad = None      # the parameter itself is part of the key as well: the surrogate only adds to it
                    if bad:
                        res.violation("KEY-ARGS", NB, f"surrogate={bad}", f"{f.rel}:{node.lineno}: the memo key passed to {node.func.attr}() contains `{ast.unparse(a)}`: {bad} of an argument is shared by "
                                      "distinct arguments (re-used ids of collected callables, closures of one lambda, colliding hashes), so a cached answer computed for one is served for another",
                                      replay="from edgegraph.structure import *\nfrom edgegraph.traversal import helpers\nVertex.NEIGHBOR_CACHING = True\na, b, c = Vertex(), Vertex(), Vertex(); DirectedEdge(a, b); DirectedEdge(a, c)\n"
                                             "def only(t): return lambda e, v: v is t\nprint(helpers.neighbors(a, filterfunc=only(b)), helpers.neighbors(a, filterfunc=only(c)))")
    res.rule("KEY-ARGS", n)
    if n == 0:
        res.note("KEY-ARGS: no call of the vertex memo helpers found in neighbors(); memoisation is organised differently (the evaluation decides)")
