"""Step-transformer equivalence of the traversals against the search schemas of DESIGN.md A.4 (the unbounded argument behind
C06/C07): the prologue and ONE iteration of the main loop (for the recursive DFS: one activation, with the recursive call
replaced by a ghost event) are evaluated abstractly from an arbitrary worklist state - worklist `[u, <omega>]`, marked containers
`named seen vertices + opaque rest`, universe `[<sigma>, members...]`, `helpers.neighbors` stubbed to a named list - and compared
with one step of the text-book algorithm.  Roles of the local variables are inferred from use, not from names.

Equality with the schema step is *sufficient* for the property (loop-invariant argument of A.4), not necessary: a mismatch or an
undecidable step is a note, and the verdict then rests on the small-scope sweep."""
from __future__ import annotations
import ast
import itertools

from sa.ae import Seq, Seg, SetV, DictV, Obj, Callback, Builtin, Unknown, Raised, Frame, Tok, IterV, GenV, _Continue, _Break, _Return
from sa.harness import names
from rules import trav


class StepResult:
    def __init__(self):
        self.n = 0
        self.mismatches = []
        self.undecided = []

    @property
    def proved(self):
        return self.n > 0 and not self.mismatches and not self.undecided


def _main_loop(fnode):
    for i, st in enumerate(fnode.body):
        if isinstance(st, ast.While):
            return i, st
    return None, None


def _frame(th, func, uni, start, settings, ffr):
    I = th.h.I
    d, uh, via = settings
    loc = I.bind_args(func, [uni, start], {"direction_sensitive": th.C[d], "unknown_handling": th.C[uh], "ff_via": via, "ff_result": ffr})
    fr = Frame(func.module, loc, cls=None, self_obj=uni, func=func, env=func.env)
    fr.yields = []
    return fr


def _roles(fr, loop, params):
    test_names = {n.id for n in ast.walk(loop.test) if isinstance(n, ast.Name)}
    wl = [n for n in test_names if isinstance(fr.locals.get(n), Seq) and fr.locals[n].kind in ("list", "deque")]
    if len(wl) != 1:
        raise Unknown(f"cannot identify the worklist from the loop test (candidates {sorted(wl)})")
    marked = [n for n, v in fr.locals.items() if n not in params and n != wl[0] and isinstance(v, (SetV, DictV)) or (n not in params and n != wl[0] and isinstance(v, Seq) and v.kind == "list")]
    tested = {c.comparators[0].id for c in ast.walk(loop) if isinstance(c, ast.Compare) and isinstance(c.ops[0], (ast.In, ast.NotIn)) and isinstance(c.comparators[0], ast.Name)}
    marked = [m for m in marked if m in tested]
    if not marked:
        raise Unknown("no marked-vertex container found (a local container created before the loop and membership-tested inside it)")
    return wl[0], marked


def _set_marked(c, seen, tag):
    if isinstance(c, SetV):
        c.items[:] = list(seen)
        c.opaque = True
    elif isinstance(c, DictV):
        c.pairs[:] = [[x, None] for x in seen]
        c.opaque = True
    else:
        c.items[:] = [Seg(tag)] + list(seen)


def _marked_names(c):
    if isinstance(c, SetV):
        return sorted(x.name for x in c.items)
    if isinstance(c, DictV):
        return sorted(k.name for k, _ in c.pairs)
    return sorted(x.name for x in c.items if isinstance(x, Obj))


def _mk_ffr(mode):
    if mode == "none":
        return None, (lambda n: True)
    if mode == "accept":
        return Callback("ff_result", lambda I, n, a, k: True), (lambda n: True)
    if mode == "reject-all":
        return Callback("ff_result", lambda I, n, a, k: False), (lambda n: False)
    return Callback("ff_result", lambda I, n, a, k: a[0].name != "a"), (lambda n: n != "a")


def _world(th, nb_of, statuses, with_uni, extra=()):
    """vertices u, a, b (+extra); universe [<sigma>, members] or None; NB map for the stub."""
    h = th.h
    h.reset()
    th.V = V = {n: h.vertex(n, "SymFalsyVert") for n in ("u", "a", "b", "s") + tuple(extra)}   # falsy-valued vertices: truthiness must never matter
    th.NB = {k: list(v) for k, v in nb_of.items()}
    th.calls = []
    uni = None
    if with_uni:
        members = [V[n] for n in V if statuses.get(n, "in") != "outside"]
        uni = h.universe("U", [])
        uni.fields["_vertices"] = Seq([Seg("sigma")] + members, "list")
    h.settle()
    return V, uni


SETTINGS3 = [("DIR_SENS_FORWARD", "LNK_UNKNOWN_NONNEIGHBOR"), ("DIR_SENS_ANY", "LNK_UNKNOWN_ERROR"), ("DIR_SENS_BACKWARD", "LNK_UNKNOWN_NEIGHBOR")]
LISTS2 = [()] + [t for k in (1, 2) for t in itertools.product(("u", "a", "b"), repeat=k)]
LISTS3 = LISTS2 + [("a", "b", "a"), ("a", "a", "b"), ("b", "u", "a"), ("a", "b", "u")]
STATUS = ("new", "seen", "outside")


def prologue_check(th, tname, sr: StepResult):
    """start in the universe (or no universe): afterwards the state is the schema's initial state."""
    mod, lst, gen, _ = trav.TRAVS[tname]
    func = th.fn[gen]
    I = th.h.I
    idx, loop = _main_loop(func.node)
    for with_uni, ffm in itertools.product((False, True), ("none", "accept", "selective")):
        sr.n += 1
        try:
            V, uni = _world(th, {"s": []}, {}, with_uni)
            ffr, keep = _mk_ffr(ffm)
            if ffm == "selective":
                ffr = Callback("ff_result", lambda I_, n, a, k: False)
                keep = lambda n: False
            via = Callback("ff_via")
            fr = _frame(th, func, uni, V["s"], ("DIR_SENS_ANY", "LNK_UNKNOWN_NEIGHBOR", via), ffr)
            if loop is None:
                raise Unknown("no top-level while loop")
            I.exec_block(func.node.body[:idx], fr)
            wl, marked = _roles(fr, loop, set(func.node.args.args and [a.arg for a in func.node.args.args + func.node.args.kwonlyargs]))
            q = names(fr.locals[wl])
            ok = q == ["s"]
            if tname == "bft":
                ok = ok and all(_marked_names(fr.locals[m]) == ["s"] for m in marked) and names(Seq(fr.yields)) == (["s"] if keep("s") else [])
            else:
                ok = ok and all(_marked_names(fr.locals[m]) == [] for m in marked) and fr.yields == []
            if not ok:
                sr.mismatches.append(f"{gen} prologue (universe {'given' if with_uni else 'None'}, ff_result {ffm}): worklist {q}, marked {[_marked_names(fr.locals[m]) for m in marked]}, yields {names(Seq(fr.yields))}")
        except (Unknown, Raised, _Return) as u:
            sr.undecided.append(f"{gen} prologue: {type(u).__name__} {u}")


def step_queue(th, sr: StepResult, thorough=False):
    """schema A-queue (ibft) and schema B (idft_iterative)."""
    I = th.h.I
    for tname in ("bft", "dft_iterative"):
        mod, lst, gen, _ = trav.TRAVS[tname]
        func = th.fn[gen]
        idx, loop = _main_loop(func.node)
        if loop is None:
            sr.undecided.append(f"{gen}: no top-level while loop; step not located")
            continue
        params = {a.arg for a in func.node.args.args + func.node.args.kwonlyargs}
        prologue_check(th, tname, sr)
        lists = LISTS3 if thorough else LISTS2
        for nb, sa, sb, su, with_uni, ffm in itertools.product(lists, STATUS, STATUS, (("seen",) if tname == "bft" else STATUS), (False, True), ("none", "selective", "reject-all")):
            if not with_uni and "outside" in (sa, sb, su):
                continue
            if "a" not in nb and sa != "new" or "b" not in nb and sb != "new":
                continue
            sr.n += 1
            case = f"{gen} N(u)={list(nb)} a:{sa} b:{sb} u:{su} universe={'given' if with_uni else 'None'} ff_result={ffm}"
            try:
                st = {"a": sa, "b": sb, "u": su}
                V, uni = _world(th, {"u": nb}, st, with_uni)
                ffr, keep = _mk_ffr(ffm)
                via = Callback("ff_via")
                settings = SETTINGS3[sr.n % 3] + (via,)
                fr = _frame(th, func, uni, V["s"], settings, ffr)
                I.exec_block(func.node.body[:idx], fr)
                wl, marked = _roles(fr, loop, params)
                seen = [V[n] for n in ("a", "b", "u") if st[n] == "seen"]
                fr.locals[wl].items[:] = [V["u"], Seg("omega")] if tname == "bft" else [Seg("omega"), V["u"]]
                for m in marked:
                    _set_marked(fr.locals[m], seen, "delta")
                fr.yields = []
                th.calls = []
                if ffr is not None:
                    ffr.calls = []
                try:
                    I.exec_block(loop.body, fr)
                except _Continue:
                    pass
                got_q = names(fr.locals[wl])
                got_m = [_marked_names(fr.locals[m]) for m in marked]
                got_y = [y.name for y in fr.yields]
                calls = list(th.calls)
                # ---- schema step
                inU = lambda n: (not with_uni) or st[n] != "outside"
                M = {n for n in st if st[n] == "seen"}
                if tname == "bft":
                    q, em = ["omega"], []
                    for w in nb:
                        if inU(w) and w not in M:
                            M.add(w)
                            q.append(w)
                            em.append(w)
                    want_calls = 1
                else:
                    q, em = ["omega"], []
                    if "u" in M or not inU("u"):
                        want_calls = 0
                    else:
                        M.add("u")
                        em.append("u")
                        q += list(nb)
                        want_calls = 1
                want_y = [n for n in em if keep(n)]
                ok = got_q == q and all(g == sorted(M) for g in got_m) and got_y == want_y and len(calls) == want_calls
                if ok and calls:
                    c = calls[0]
                    ok = c[0] is V["u"] and c[1] == th.C[settings[0]] and c[2] == th.C[settings[1]] and c[3] is via
                if ok and ffr is not None:
                    ok = [a[0].name for a, k in ffr.calls] == em   # consulted exactly for the newly listed vertices, in order
                if not ok:
                    sr.mismatches.append(f"{case}: derived worklist {got_q} marked {got_m} yields {got_y} neighbors-calls {[(c[0].name, c[1], c[2]) for c in calls]}; "
                                         f"schema step gives worklist {q} marked {sorted(M)} yields {want_y}")
            except (Unknown, Raised) as u:
                sr.undecided.append(f"{case}: {type(u).__name__}: {u}")
            except (_Break, _Return) as u:
                sr.mismatches.append(f"{case}: the iteration leaves the loop ({type(u).__name__})")


def step_recursive(th, sr: StepResult, thorough=False):
    """schema A-rec: one activation of _dft_recur with the recursive call as a ghost event; idft_recursive's prologue."""
    h = th.h
    I = h.I
    dfm = h.w.mods[trav.DF].globals
    real = dfm.get("_dft_recur")
    if real is None or not hasattr(real, "node"):
        sr.undecided.append("depthfirst._dft_recur vanished: the recursive DFS step cannot be located")
        return
    lists = LISTS3 if thorough else LISTS2
    k = 0
    for nb, sa, sb, with_uni, ffm in itertools.product(lists, STATUS, STATUS, (False, True), ("none", "selective", "reject-all")):
        if not with_uni and "outside" in (sa, sb):
            continue
        if "a" not in nb and sa != "new" or "b" not in nb and sb != "new":
            continue
        k += 1
        dset, uset = SETTINGS3[k % 3]
        case = f"_dft_recur N(u)={list(nb)} a:{sa} b:{sb} universe={'given' if with_uni else 'None'} ff_result={ffm} settings=({dset},{uset})"

        def thunk():
            st = {"a": sa, "b": sb, "u": "new"}
            V, uni = _world(th, {"u": nb}, st, with_uni)
            ffr, keep = _mk_ffr(ffm)
            via = Callback("ff_via")
            visited = DictV([[V[n], None] for n in ("a", "b") if st[n] == "seen"])
            visited.opaque = True
            rec = []

            def stub(I_, *a, **k):
                loc = I_.bind_args(real, list(a), k)
                w = loc["v"]
                rec.append((w, loc))
                vis = loc["visited"]
                # effect of the whole sub-traversal: marks w and possibly other named, not yet marked, in-universe vertices
                I_.setitem(vis, w, None)
                for other in ("a", "b"):
                    o = V[other]
                    inU = (not with_uni) or st[other] != "outside"
                    if o is not w and inU and not I_.contains(vis, o):
                        if I_.w.choose(2, "subtree-marks-" + other) == 1:
                            I_.setitem(vis, o, None)
                return IterV([Tok(0, "Sub(" + w.name + ")")])

            dfm["_dft_recur"] = Builtin("_dft_recur<ghost>", stub)
            try:
                out = h.call(real, uni, V["u"], visited=visited, direction_sensitive=th.C[dset], unknown_handling=th.C[uset], ff_via=via, ff_result=ffr)
            finally:
                dfm["_dft_recur"] = real
            return V, uni, st, out, rec, visited, via, ffr, keep

        try:
            for choices, log, (V, uni, st, out, rec, visited, via, ffr, keep) in h.w.explore(thunk):
                sr.n += 1
                if out.kind != "return":
                    sr.mismatches.append(f"{case}: activation raises {out.excname}")
                    continue
                trace = [x.name for x in out.value.items]
                # schema: M += u; emit(u); for w in N(u): if U(w) and w not in M: R(w)   (M as updated by the ghost sub-traversals)
                inU = lambda n: (not with_uni) or st[n] != "outside"
                M = {n for n in ("a", "b") if st[n] == "seen"} | {"u"}
                want = ["u"] if keep("u") else []
                ci = 0
                marks = [c for t, n_, c in log]
                want_rec = []
                # replay the fork decisions in order: each Rec consumes one decision per candidate it asked about
                di = 0
                for w in nb:
                    if inU(w) and w not in M:
                        want_rec.append(w)
                        want.append(f"Sub({w})")
                        M.add(w)
                        for other in ("a", "b"):
                            if other != w and inU(other) and other not in M:
                                if di < len(marks) and marks[di] == 1:
                                    M.add(other)
                                di += 1
                got_rec = [w.name for w, loc in rec]
                ok = trace == want and got_rec == want_rec and sorted(k.name for k, _ in visited.pairs) == sorted(M)
                for w, loc in rec:
                    ok = ok and loc["visited"] is visited and loc["uni"] is uni and loc["direction_sensitive"] == th.C[dset] and loc["unknown_handling"] == th.C[uset] \
                        and loc["ff_via"] is via and loc["ff_result"] is ffr
                if ok:
                    c = th.calls
                    ok = len(c) == 1 and c[0][0] is V["u"] and c[0][1] == th.C[dset] and c[0][2] == th.C[uset] and c[0][3] is via
                if not ok:
                    sr.mismatches.append(f"{case} (sub-traversal marks {marks}): derived trace {trace} recursive calls {got_rec} marked {sorted(k.name for k, _ in visited.pairs)}; schema gives trace {want} calls {want_rec} marked {sorted(M)}")
        except (Unknown, Raised) as u:
            sr.undecided.append(f"{case}: {type(u).__name__}: {u}")
    # prologue of idft_recursive: one call R(start) on an empty marked set, settings forwarded, its output passed through
    func = th.fn["idft_recursive"]
    for with_uni in (False, True):
        sr.n += 1
        try:
            V, uni = _world(th, {"s": []}, {}, with_uni)
            via, ffr = Callback("ff_via"), Callback("ff_result", lambda I_, n, a, k: True)
            rec = []

            def stub2(I_, *a, **k):
                loc = I_.bind_args(real, list(a), k)
                rec.append(loc)
                return IterV([Tok(0, "Sub(s)")])
            dfm["_dft_recur"] = Builtin("_dft_recur<ghost>", stub2)
            try:
                out = h.call(func, uni, V["s"], direction_sensitive=th.C["DIR_SENS_BACKWARD"], unknown_handling=th.C["LNK_UNKNOWN_NEIGHBOR"], ff_via=via, ff_result=ffr)
            finally:
                dfm["_dft_recur"] = real
            ok = out.kind == "return" and [x.name for x in out.value.items] == ["Sub(s)"] and len(rec) == 1
            if ok:
                loc = rec[0]
                vis = loc["visited"]
                empty = isinstance(vis, (DictV, SetV)) and not (vis.pairs if isinstance(vis, DictV) else vis.items)
                ok = loc["v"] is V["s"] and loc["uni"] is uni and empty and loc["direction_sensitive"] == th.C["DIR_SENS_BACKWARD"] and loc["unknown_handling"] == th.C["LNK_UNKNOWN_NEIGHBOR"] \
                    and loc["ff_via"] is via and loc["ff_result"] is ffr
            if not ok:
                sr.mismatches.append(f"idft_recursive prologue (universe {'given' if with_uni else 'None'}): {out!r}, recursive calls {len(rec)}")
        except (Unknown, Raised) as u:
            sr.undecided.append(f"idft_recursive prologue: {type(u).__name__}: {u}")


def run_steps(ctx):
    th = trav.TH(ctx.src)
    sr = StepResult()
    step_queue(th, sr, ctx.thorough)
    step_recursive(th, sr, ctx.thorough)
    return sr


# ----------------------------------------------------------------------------- searches (C08)
ATTR = "tag"
MATCH = ("match", "nomatch", "lacks")
SOUGHT_NONE = [False]   # when set, the sought value is None and a matching vertex stores None


def _sought():
    return None if SOUGHT_NONE[0] else Tok(1, "sought")



def _sworld(th, nb_of, st, attr, with_uni, vcls="SymFalsyVert"):
    h = th.h
    h.reset()
    th.V = V = {n: h.vertex(n, vcls) for n in ("u", "a", "b", "s")}
    for n, m in attr.items():
        if m == "match":
            V[n].fields[ATTR] = None if SOUGHT_NONE[0] else Tok(1, "stored-equal")
        elif m == "nomatch":
            V[n].fields[ATTR] = Tok(2, "stored-other")
    th.NB = {k: list(v) for k, v in nb_of.items()}
    th.calls = []
    uni = None
    if with_uni:
        uni = h.universe("U", [])
        uni.fields["_vertices"] = Seq([Seg("sigma")] + [V[n] for n in V if st.get(n, "in") != "outside"], "list")
    h.settle()
    return V, uni


def _sframe(th, func, uni, start):
    I = th.h.I
    loc = I.bind_args(func, [uni, start, ATTR, _sought()], {})
    fr = Frame(func.module, loc, cls=None, self_obj=uni, func=func, env=func.env)
    return fr


def search_steps(th, sr: StepResult, thorough=False):
    I = th.h.I
    dflt = th.defaults
    for tname in ("bft", "dft_iterative"):
        mod, lst, gen, srch = trav.TRAVS[tname]
        func = th.fn[srch]
        idx, loop = _main_loop(func.node)
        if loop is None:
            sr.undecided.append(f"{srch}: no top-level while loop; step not located")
            continue
        params = {a.arg for a in func.node.args.args + func.node.args.kwonlyargs}
        # prologue: the start vertex is tested first
        for with_uni, ms in itertools.product((False, True), MATCH):
            sr.n += 1
            try:
                V, uni = _sworld(th, {"s": []}, {}, {"s": ms}, with_uni)
                fr = _sframe(th, func, uni, V["s"])
                try:
                    I.exec_block(func.node.body[:idx], fr)
                    ret = "<falls into the loop>"
                except _Return as r:
                    ret = r.v
                if ms == "match" and tname == "bft":
                    ok = ret is V["s"]      # schema A tests on discovery: the start vertex before the loop
                elif ms == "match":
                    ok = ret is V["s"] or ret == "<falls into the loop>"   # schema B tests on pop; testing the start up front is equivalent
                else:
                    ok = ret == "<falls into the loop>"
                    if ok:
                        wl, marked = _roles(fr, loop, params)
                        ok = names(fr.locals[wl]) == ["s"] and all(_marked_names(fr.locals[m]) == (["s"] if tname == "bft" else []) for m in marked)
                if not ok:
                    sr.mismatches.append(f"{srch} prologue start:{ms} universe={'given' if with_uni else 'None'}: {ret!r}")
            except (Unknown, Raised) as u:
                sr.undecided.append(f"{srch} prologue: {type(u).__name__}: {u}")
        lists = LISTS3 if thorough else LISTS2
        for nb, sa, sb, su, ma, mb, mu, with_uni in itertools.product(lists, STATUS, STATUS, (("seen",) if tname == "bft" else STATUS), MATCH, MATCH, (("nomatch",) if tname == "bft" else MATCH), (False, True)):
            if not with_uni and "outside" in (sa, sb, su):
                continue
            if "a" not in nb and (sa != "new" or ma != "nomatch") or "b" not in nb and (sb != "new" or mb != "nomatch"):
                continue
            st = {"a": sa, "b": sb, "u": su}
            mt = {"a": ma, "b": mb, "u": mu}
            if any(st[n] == "seen" and mt[n] == "match" for n in st):
                continue   # invariant of the schema: a marked vertex was tested when it was marked and did not match
            sr.n += 1
            case = f"{srch} N(u)={list(nb)} status {st} attribute {mt} universe={'given' if with_uni else 'None'}"
            try:
                V, uni = _sworld(th, {"u": nb}, st, mt, with_uni)
                fr = _sframe(th, func, uni, V["s"])
                I.exec_block(func.node.body[:idx], fr)
                wl, marked = _roles(fr, loop, params)
                seen = [V[n] for n in ("a", "b", "u") if st[n] == "seen"]
                fr.locals[wl].items[:] = [V["u"], Seg("omega")] if tname == "bft" else [Seg("omega"), V["u"]]
                for m in marked:
                    _set_marked(fr.locals[m], seen, "delta")
                th.calls = []
                ret = "<continues>"
                try:
                    I.exec_block(loop.body, fr)
                except _Continue:
                    pass
                except _Return as r:
                    ret = r.v
                inU = lambda n: (not with_uni) or st[n] != "outside"
                M = {n for n in st if st[n] == "seen"}
                want_ret, q = "<continues>", ["omega"]
                if tname == "bft":
                    for w in nb:
                        if not inU(w):
                            continue
                        if mt[w] == "match":
                            want_ret = w
                            break
                        if w not in M:
                            M.add(w)
                            q.append(w)
                    ncalls = 1
                else:
                    ncalls = 0
                    if inU("u") and "u" not in M:
                        if mt["u"] == "match":
                            want_ret = "u"
                        else:
                            M.add("u")
                            q += list(nb)
                            ncalls = 1
                got_ret = ret.name if isinstance(ret, Obj) else ret
                ok = got_ret == want_ret
                if ok and want_ret == "<continues>":
                    ok = names(fr.locals[wl]) == q and all(_marked_names(fr.locals[m]) == sorted(M) for m in marked) and len(th.calls) == ncalls
                if ok and th.calls:
                    c = th.calls[0]
                    ok = c[0] is V["u"] and c[1] == dflt[0] and c[2] == dflt[1] and c[3] is None
                if not ok:
                    sr.mismatches.append(f"{case}: derived {'returns ' + str(got_ret) if got_ret != '<continues>' else 'continues with worklist ' + str(names(fr.locals[wl])) + ' marked ' + str([_marked_names(fr.locals[m]) for m in marked])}; "
                                         f"schema: {'returns ' + want_ret if want_ret != '<continues>' else 'continues with worklist ' + str(q) + ' marked ' + str(sorted(M))}")
            except (Unknown, Raised) as u:
                sr.undecided.append(f"{case}: {type(u).__name__}: {u}")
            except _Break:
                sr.mismatches.append(f"{case}: the iteration leaves the loop")
            except _Return as r:
                sr.mismatches.append(f"{case}: the prologue already returns {r.v!r} for a start vertex that does not match")
        # after the loop: None
        sr.n += 1
        tail = func.node.body[idx + 1:]
        if not (len(tail) == 1 and isinstance(tail[0], ast.Return) and (tail[0].value is None or isinstance(tail[0].value, ast.Constant) and tail[0].value.value is None)) and tail:
            sr.mismatches.append(f"{srch}: statements after the main loop are not `return None`")
    # ---- recursive search: one activation with the recursive call as a ghost event
    h = th.h
    dfm = h.w.mods[trav.DF].globals
    real = dfm.get("_dfs_recur")
    if real is None or not hasattr(real, "node"):
        sr.undecided.append("depthfirst._dfs_recur vanished: the recursive search step cannot be located")
        return
    lists = LISTS3 if thorough else LISTS2
    for nb, sa, sb, ma, mb, with_uni in itertools.product(lists, STATUS, STATUS, MATCH, MATCH, (False, True)):
        if not with_uni and "outside" in (sa, sb):
            continue
        if "a" not in nb and (sa != "new" or ma != "nomatch") or "b" not in nb and (sb != "new" or mb != "nomatch"):
            continue
        st = {"a": sa, "b": sb, "u": "new"}
        mt = {"a": ma, "b": mb, "u": "nomatch"}
        if any(st[n] == "seen" and mt[n] == "match" for n in st):
            continue
        case = f"_dfs_recur N(u)={list(nb)} status {st} attribute {mt} universe={'given' if with_uni else 'None'}"

        def thunk():
            V, uni = _sworld(th, {"u": nb}, st, mt, with_uni)
            visited = DictV([[V[n], None] for n in ("a", "b") if st[n] == "seen"])
            visited.opaque = True
            ghost = h.vertex("found-below", "SymFalsyVert")
            rec = []

            def stub(I_, *a, **k):
                loc = I_.bind_args(real, list(a), k)
                w = loc["v"]
                rec.append((w, loc))
                I_.setitem(loc["visited"], w, None)
                for other in ("a", "b"):
                    o = V[other]
                    inU_ = (not with_uni) or st[other] != "outside"
                    if o is not w and inU_ and mt[other] != "match" and not I_.contains(loc["visited"], o):
                        if I_.w.choose(2, "subtree-marks-" + other) == 1:
                            I_.setitem(loc["visited"], o, None)
                return ghost if I_.w.choose(2, "subtree-finds") == 1 else None

            dfm["_dfs_recur"] = Builtin("_dfs_recur<ghost>", stub)
            try:
                out = h.call(real, uni, V["u"], visited, ATTR, _sought())
            finally:
                dfm["_dfs_recur"] = real
            return V, uni, out, rec, visited, ghost

        try:
            for choices, log, (V, uni, out, rec, visited, ghost) in h.w.explore(thunk):
                sr.n += 1
                if out.kind != "return":
                    sr.mismatches.append(f"{case}: activation raises {out.excname}")
                    continue
                inU = lambda n: (not with_uni) or st[n] != "outside"
                M = {n for n in ("a", "b") if st[n] == "seen"} | {"u"}
                decisions = [c for t, n_, c in log]
                di = 0
                want, want_rec = None, []
                for w in nb:
                    if inU(w) and w not in M:
                        if mt[w] == "match":
                            want = w
                            break
                        want_rec.append(w)
                        M.add(w)
                        for other in ("a", "b"):
                            if other != w and inU(other) and mt[other] != "match" and other not in M:
                                if di < len(decisions) and decisions[di] == 1:
                                    M.add(other)
                                di += 1
                        found = di < len(decisions) and decisions[di] == 1
                        di += 1
                        if found:
                            want = "found-below"
                            break
                got = out.value.name if isinstance(out.value, Obj) else out.value
                ok = got == want and [w.name for w, loc in rec] == want_rec
                for w, loc in rec:
                    ok = ok and loc["visited"] is visited and loc["uni"] is uni and loc["attrib"] == ATTR
                if ok and th.calls:
                    c = th.calls[0]
                    ok = len(th.calls) == 1 and c[0] is V["u"] and c[1] == th.defaults[0] and c[2] == th.defaults[1] and c[3] is None
                if not ok:
                    sr.mismatches.append(f"{case} (ghost decisions {decisions}): derived returns {got}, recursive calls {[w.name for w, l in rec]}; schema returns {want}, calls {want_rec}")
        except (Unknown, Raised) as u:
            sr.undecided.append(f"{case}: {type(u).__name__}: {u}")
    # prologue of dfs_recursive
    func = th.fn["dfs_recursive"]
    for with_uni, ms in itertools.product((False, True), MATCH):
        sr.n += 1
        try:
            V, uni = _sworld(th, {"s": []}, {}, {"s": ms}, with_uni)
            rec = []
            ghost = h.vertex("found-below", "SymFalsyVert")

            def stub2(I_, *a, **k):
                loc = I_.bind_args(real, list(a), k)
                rec.append(loc)
                return ghost
            dfm["_dfs_recur"] = Builtin("_dfs_recur<ghost>", stub2)
            try:
                out = h.call(func, uni, V["s"], ATTR, _sought())
            finally:
                dfm["_dfs_recur"] = real
            if ms == "match":
                ok = out.kind == "return" and out.value is V["s"] and not rec
            else:
                ok = out.kind == "return" and out.value is ghost and len(rec) == 1 and rec[0]["v"] is V["s"] and rec[0]["uni"] is uni and \
                    isinstance(rec[0]["visited"], (DictV, SetV)) and not (rec[0]["visited"].pairs if isinstance(rec[0]["visited"], DictV) else rec[0]["visited"].items)
            if not ok:
                sr.mismatches.append(f"dfs_recursive prologue start:{ms} universe={'given' if with_uni else 'None'}: {out!r}, recursive calls {len(rec)}")
        except (Unknown, Raised) as u:
            sr.undecided.append(f"dfs_recursive prologue: {type(u).__name__}: {u}")


def run_search_steps(ctx):
    th = trav.TH(ctx.src)
    sr = StepResult()
    for none_mode in (False, True):
        SOUGHT_NONE[0] = none_mode
        try:
            search_steps(th, sr, ctx.thorough)
        finally:
            SOUGHT_NONE[0] = False
    return sr
