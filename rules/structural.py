"""Structural CFG rules.  They locate the statement or path behind a semantic finding (file:line, rule, path); the verdict of
each property comes from the abstract evaluation, so a rule firing here is reported as a *pointer* (note), never on its own as a
violation - a path reported here may be infeasible, and a correct variant may have a different shape."""
from __future__ import annotations
import ast

from sa.cfg import CFG, path_str
from rules import common

PURE_CALLS = {"len", "enumerate", "range", "isinstance", "issubclass", "type", "str", "repr", "int", "zip", "all", "any", "list", "tuple", "sum", "min", "max", "sorted", "set", "dict",
              "ValueError", "TypeError", "NotImplementedError", "KeyError", "IndexError", "hasattr", "getattr", "bool", "float", "id", "hex", "reversed", "iter", "next", "abs"}


def _cfg(ctx, dotted):
    f = common.program(ctx).func(dotted)
    return f, CFG(f.node)


def _calls(a, name):
    return [n for n in ast.walk(a) if isinstance(n, ast.Call) and (isinstance(n.func, ast.Name) and n.func.id == name or isinstance(n.func, ast.Attribute) and n.func.attr == name)] if a is not None else []


def filter_mpt(ctx, dotted, filt="filterfunc"):
    """Inside the per-link loop every path to a statement that adds to the returned collection takes a branch asserting
    `filterfunc is None` or passes a call of filterfunc whose truth is tested."""
    res = ctx.res
    f, g = _cfg(ctx, dotted)
    if filt not in f.params():
        res.note(f"FILTER-MPT: {f.loc()} {dotted} has no parameter `{filt}` any more - rule not applicable")
        return
    returned = {n.value.id for n in ast.walk(f.node) if isinstance(n, ast.Return) and isinstance(n.value, ast.Name)}
    adds = []
    for n in g.nodes:
        if n.kind in ("stmt",) and n.ast is not None:
            for c in ast.walk(n.ast):
                if isinstance(c, ast.Call) and isinstance(c.func, ast.Attribute) and c.func.attr in ("append", "add", "extend", "insert", "update") and isinstance(c.func.value, ast.Name) and c.func.value.id in returned:
                    adds.append(n)
            if isinstance(n.ast, ast.AugAssign) and isinstance(n.ast.target, ast.Name) and n.ast.target.id in returned:
                adds.append(n)
    heads = [n for n in g.nodes if n.kind == "for-head"]

    def guard_edge(nu, label, nv):
        if nu.kind != "test":
            return False
        s = ast.unparse(nu.ast).replace(" ", "")
        if s in (f"{filt}isNone",) and label == "T":
            return True
        if s in (f"{filt}isnotNone",) and label == "F":
            return True
        if _calls(nu.ast, filt) and label == "T":
            return True
        return False

    n_inst = 0
    for a in adds:
        n_inst += 1
        starts = [h.id for h in heads if h.loop_depth < a.loop_depth] or [g.entry.id]
        path = g.reach_avoiding(starts, lambda n, _a=a: n is _a, blocked_edge=guard_edge)
        if path:
            res.note(f"FILTER-MPT pointer: {f.rel}:{a.lineno} {dotted}: `{ast.unparse(a.ast)[:60]}` is reachable without consulting `{filt}` along {path_str(path)[-160:]}")
    res.rule("FILTER-MPT", n_inst)
    if not adds:
        res.note(f"FILTER-MPT: no add-to-result site recognised in {dotted} (result built differently); the table decides")


def temp_rule(ctx, dotted):
    """TEMP: an attribute stored on a non-fresh object inside a read-only function is deleted on every path to every exit."""
    res = ctx.res
    f, g = _cfg(ctx, dotted)
    fresh = set()
    for n in ast.walk(f.node):
        if isinstance(n, ast.Assign) and isinstance(n.value, ast.Call):
            for t in n.targets:
                if isinstance(t, ast.Name):
                    fresh.add(t.id)
    k = 0
    for n in g.nodes:
        if n.kind != "stmt" or not isinstance(n.ast, (ast.Assign, ast.AugAssign, ast.AnnAssign)):
            continue
        tgts = n.ast.targets if isinstance(n.ast, ast.Assign) else [n.ast.target]
        for t in tgts:
            if isinstance(t, ast.Attribute) and isinstance(t.value, ast.Name) and t.value.id not in fresh and t.value.id != "self":
                k += 1
                attr = t.attr

                def deletes(m, _a=attr):
                    if m.ast is None:
                        return False
                    for c in ast.walk(m.ast):
                        if isinstance(c, ast.Delete) and any(isinstance(x, ast.Attribute) and x.attr == _a for x in c.targets):
                            return True
                        if isinstance(c, ast.Call) and isinstance(c.func, ast.Name) and c.func.id == "delattr":
                            return True
                    return False

                path = g.reach_avoiding([n.id], lambda m: m.kind in ("exit", "exc-exit"), blocked_node=deletes)
                if path:
                    kind = "exceptional" if path[-1].kind == "exc-exit" else "normal"
                    res.note(f"TEMP pointer: {f.rel}:{n.lineno} {dotted}: `.{attr}` stored on `{t.value.id}` reaches the {kind} exit without being deleted along {path_str(path)[-160:]}")
    res.rule("TEMP", max(k, 1))


def validate_first(ctx, dotted, rule="VALIDATE-FIRST"):
    """Every `raise` is reached only through statements without effects (no path entry -> effect -> raise)."""
    res = ctx.res
    f, g = _cfg(ctx, dotted)
    raises = [n for n in g.nodes if n.kind == "raise"]

    def effect(n):
        if n.ast is None or n.kind in ("test", "raise", "for-iter"):
            return False
        for c in ast.walk(n.ast):
            if isinstance(c, ast.Call):
                name = c.func.id if isinstance(c.func, ast.Name) else (c.func.attr if isinstance(c.func, ast.Attribute) else "?")
                if name not in PURE_CALLS:
                    return True
            if isinstance(c, (ast.Assign, ast.AugAssign)) and any(isinstance(t, (ast.Attribute, ast.Subscript)) for t in (c.targets if isinstance(c, ast.Assign) else [c.target])):
                return True
        return False

    effects = [n for n in g.nodes if effect(n)]
    k = 0
    for r in raises:
        k += 1
        for e in effects:
            p1 = g.reach_avoiding([g.entry.id], lambda n, _e=e: n is _e)
            p2 = g.reach_avoiding([e.id], lambda n, _r=r: n is _r) if p1 else None
            if p1 and p2:
                res.note(f"{rule} pointer: {f.rel}:{r.lineno} {dotted}: the raise is reachable after the effectful statement at line {e.lineno} (`{ast.unparse(e.ast)[:50]}`)")
                break
    res.rule(rule, max(k, 1))


def memo_on_success(ctx, dotted="edgegraph.traversal.helpers.neighbors", insert="_qa_neighbors_insert"):
    res = ctx.res
    f, g = _cfg(ctx, dotted)
    k = 0
    for n in g.nodes:
        if n.ast is not None and n.kind == "stmt" and _calls(n.ast, insert):
            k += 1
            if n.loop_depth > 0 or n.in_handler or n.in_finally:
                where = "inside a loop" if n.loop_depth else ("in an exception handler" if n.in_handler else "in a finally block")
                res.note(f"MEMO-ON-SUCCESS pointer: {f.rel}:{n.lineno} {dotted}: the memo is filled {where}; an aborted query could leave a partial entry (the fault sweep decides)")
    res.rule("MEMO-ON-SUCCESS", max(k, 1))


def is_on_values(ctx, rels):
    """IS-ON-VALUE (pointer): `is` / `is not` where an operand is a number or string literal, or a name bound from enumerate() / range() /
    len() / an index or arithmetic expression in the same function.  Identity of equal ints beyond the small-int cache and of equal
    strings that are not the same constant is an accident of the interpreter; the evaluator leaves such a comparison UNDECIDED (ints)
    or decides it for caller-owned strings (UserStr), so this rule only points at the line."""
    res = ctx.res
    n = 0
    for rel in rels:
        try:
            tree = ctx.src.tree(rel)
        except Exception:  # noqa: BLE001
            continue
        for fn in [x for x in ast.walk(tree) if isinstance(x, (ast.FunctionDef, ast.AsyncFunctionDef))]:
            numeric = set()
            for st in ast.walk(fn):
                if isinstance(st, ast.For) and isinstance(st.iter, ast.Call) and getattr(st.iter.func, "id", None) in ("enumerate", "range"):
                    tg = st.target
                    if isinstance(tg, ast.Name):
                        numeric.add(tg.id)
                    elif isinstance(tg, ast.Tuple) and tg.elts and isinstance(tg.elts[0], ast.Name) and st.iter.func.id == "enumerate":
                        numeric.add(tg.elts[0].id)
                if isinstance(st, ast.Assign) and len(st.targets) == 1 and isinstance(st.targets[0], ast.Name):
                    v = st.value
                    if isinstance(v, ast.BinOp) or (isinstance(v, ast.Call) and (getattr(v.func, "id", None) in ("len", "int") or getattr(v.func, "attr", None) in ("index", "get", "count"))):
                        numeric.add(st.targets[0].id)
            for c in ast.walk(fn):
                if isinstance(c, ast.Compare) and any(isinstance(o, (ast.Is, ast.IsNot)) for o in c.ops):
                    n += 1
                    sides = [c.left] + list(c.comparators)
                    lits = [s_ for s_ in sides if isinstance(s_, ast.Constant) and isinstance(s_.value, (int, float, str, bytes)) and not isinstance(s_.value, bool)]
                    names = [s_ for s_ in sides if isinstance(s_, ast.Name) and s_.id in numeric]
                    if lits or len(names) >= 1 and all(isinstance(s_, ast.Name) and s_.id in numeric for s_ in sides):
                        res.note(f"IS-ON-VALUE pointer: {rel}:{c.lineno} in {fn.name}: `{ast.unparse(c)}` compares numbers / strings by identity (equal values are the same object only by accident of the interpreter)")
    res.rule("IS-ON-VALUE", n)
