"""C01 - vertex-link association symmetric and duplicate-free: inductive step for invariant I1."""
from __future__ import annotations

from sa.harness import H
from rules import common, struct

LEVEL = "proof"


def check(res, rec):
    bad = struct.i1_violations(rec.post)
    ok = not bad
    res.ob(ok, sig=(rec.family, rec.lcls, rec.ends, rec.op, rec.arg, getattr(rec, "choices", ())),
           sample={"link_class": rec.lcls, "ends": list(rec.ends), "call": rec.op, "arg": str(rec.arg), "outcome": struct.outcome_name(rec.out), "post": rec.post})
    if not ok:
        res.violation("I1-STEP", rec.qual, rec.icls,
                      f"after {rec.op}({rec.arg}) on a {rec.lcls} with ends {list(rec.ends)} ({struct.outcome_name(rec.out)}): " + "; ".join(bad[:3]),
                      detail=f"pre {rec.pre}\npost {rec.post}", replay=rec.replay)


def run_optimized(ctx):
    """the core and constructor obligations with the interpreter in -O mode (validation written as assert statements does nothing there)"""
    res = ctx.res
    h = H(ctx.src, ["edgegraph.builder.explicit", "edgegraph.traversal.helpers"])
    n = 0
    import itertools
    for rec in itertools.chain(struct.core_runs(h, 3, res=res), struct.ctor_runs(h, res=res), struct.explicit_runs(h, res=res, thorough=False)):
        check(res, rec)
        n += 1
    res.rule("python-O", n)


def run_warnings_as_errors(ctx):
    """I1 after every mutator call that a warning-turned-error ends half-way (the statement: also after a call that raised)"""
    res = ctx.res
    h = H(ctx.src, ["edgegraph.builder.explicit", "edgegraph.traversal.helpers"])
    n = 0
    import itertools
    for rec in itertools.chain(struct.core_runs(h, 3, res=res), struct.ctor_runs(h, res=res), struct.explicit_runs(h, res=res, thorough=False)):
        if common.warned(rec.out):
            check(res, rec)
            n += 1
    res.rule("I1-STEP/warnings-as-errors", n)


def run(ctx):
    res = ctx.res
    res.rule_text = ("inductive step for I1 (l in v.links <=> v in l.vertices, no duplicate in v.links): every abstract pre-state satisfying I1 "
                     "(link class x end list of length 0..N over {a,b,c,None}; every vertex's other links are opaque segments) x every association "
                     "entry point x every argument role; I1 re-checked on normal and exceptional exits. distinct = distinct (state, call) pairs")
    res.trusted_base = common.TRUSTED_AE + ["frame: opaque segments were never inspected (an inspection ends as UNDECIDED)", "OWN: only the owner methods write _links/_vertices (checked)"]
    res.assumptions = ["user subclasses do not override the mutators", "arguments are Vertex/Link objects or None"]
    common.identity_model(ctx)
    common.own_rule(ctx, ["Vertex._links", "Link._vertices"])
    h = H(ctx.src, ["edgegraph.builder.explicit", "edgegraph.traversal.helpers"])
    common.aux_state(h, res)
    maxlen = 4 if ctx.thorough else 3
    n = 0
    for rec in struct.core_runs(h, maxlen, res=res):
        check(res, rec)
        n += 1
    for rec in struct.core_runs(h, 2, res=res, classes=("DirectedEdge",), vcls="SymFalsyVert"):
        check(res, rec)
        n += 1
    res.rule("I1-STEP/core", n)
    m = 0
    for rec in struct.ctor_runs(h, res=res):
        check(res, rec)
        m += 1
    res.rule("I1-STEP/constructors", m)
    k = 0
    for rec in struct.explicit_runs(h, res=res, thorough=ctx.thorough):
        check(res, rec)
        k += 1
    res.rule("I1-STEP/explicit", k)
    # two links constructed from one and the same vertices= list object, then a vertex joins one of them
    from sa.ae import Seq as _Seq, Unknown as _Unknown
    for call in ("add_vertex", "add_to_link", "unlink_from"):
        try:
            h.reset()
            V = {r: h.vertex(r) for r in "abc"}
            src = _Seq([V["a"], V["b"]], "list")
            l1, l2 = h.new("SymLink", "H1", vertices=src), h.new("SymLink", "H2", vertices=src)
            h.settle()
            if call == "add_vertex":
                out = h.call(h.I.getattr(l1, "add_vertex"), V["c"])
            elif call == "add_to_link":
                out = h.call(h.I.getattr(V["c"], "add_to_link"), l1)
            else:
                out = h.call(h.I.getattr(l1, "unlink_from"), V["a"])
            st = {"vlinks": {r: [x.name for x in h.getattr(v, "links").value.items] for r, v in V.items()},
                  "lverts": {l.name: [x.name for x in h.getattr(l, "vertices").value.items] for l in (l1, l2)}}
            bad = struct.i1_violations(st)
        except _Unknown as u:
            res.ob(False)
            res.undecide(f"two links from one vertices= list, {call}: {u}")
            continue
        res.ob(not bad, sig=("shared-vertices-argument", call))
        if bad:
            res.violation("I1-STEP", "edgegraph.structure.link.Link.__init__", "one-list-object-passed-to-two-constructors",
                          f"src = [a, b]; H1 = Link(vertices=src); H2 = Link(vertices=src); then {call} on H1 with {'c' if call != 'unlink_from' else 'a'}: {'; '.join(bad[:3])}",
                          replay="from edgegraph.structure import *\na, b, c = Vertex(), Vertex(), Vertex()\nsrc = [a, b]\nh1, h2 = Link(vertices=src), Link(vertices=src)\nh1.add_vertex(c)\nprint(c in h2.vertices, h2 in c.links)")
    from rules import hist
    hist.run(ctx, res, 'C01')       # composition: histories through the public API against the reference model (rules/hist.py)
    from rules import scale
    scale.run(ctx, res, 'C01')      # the same on graphs whose collections have the sizes the tree names (rules/scale.py)
    hist.run_sequences(ctx, res, "C01", "links", 4 if ctx.thorough else 3)      # every sequence of that many operations on one link; I1 also after calls that raised
    common.vacuity(res, "SEQUENCE", 3000)
    common.vacuity(res, "HISTORY", 600)
    common.vacuity(res, "I1-STEP/core", 5000)
    common.vacuity(res, "I1-STEP/explicit", 300)
    res.analysed = common.analysed(ctx, [q for q in struct.QUAL.values() if "[" not in q])
    res.explanation = ("Induction over histories: every public mutator of the association preserves I1 from every I1 pre-state of the family, on "
                       "normal and exceptional exits; the families are closed under the operations up to the stated end-list length, the rest of the heap "
                       "is opaque and provably untouched.")
