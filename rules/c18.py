"""C18 - true singletons: at most one live instance per class between clears.

Inductive step over the class->instance table: every table state over four singleton classes (incl. a subclass of a
singleton class and a class whose instances are falsy) is reached through the public API, then every operation
(construction of each class with arbitrary arguments, targeted clear of each class, global clear) is evaluated abstractly and
compared with the table model of DESIGN.md A.5; the post-state is observed by constructing every class again."""
from __future__ import annotations
import itertools

from sa.harness import H
from sa.ae import Seq, DictV, Obj, Unknown, Tok, ClassV
from rules import common

LEVEL = "proof"
MOD = "edgegraph.structure.singleton"
SRC = '''
from edgegraph.structure.singleton import TrueSingleton, clear_true_singleton
LOG = []
class A(metaclass=TrueSingleton):
    def __init__(self, *args, **kwargs):
        LOG.append(("A", self, args, kwargs))
class B(A):
    def __init__(self, *args, **kwargs):
        LOG.append(("B", self, args, kwargs))
class C(metaclass=TrueSingleton):
    def __init__(self, *args, **kwargs):
        LOG.append(("C", self, args, kwargs))
class F(metaclass=TrueSingleton):
    """instances are falsy"""
    def __init__(self, *args, **kwargs):
        LOG.append(("F", self, args, kwargs))
    def __len__(self):
        return 0
class V(metaclass=TrueSingleton):
    """construction can fail: __init__ validates its argument"""
    def __init__(self, *args, **kwargs):
        if not args:
            raise ValueError("V needs a positional argument")
        LOG.append(("V", self, args, kwargs))
COUNT = []
class N(metaclass=TrueSingleton):
    """its __init__ keeps no reference to the instance anywhere (callers may drop it)"""
    def __init__(self, *args, **kwargs):
        COUNT.append(args)
class Rz(metaclass=TrueSingleton):
    """its __init__ starts from a clean slate: it clears every singleton (a callback into the library during construction)"""
    def __init__(self, *args, **kwargs):
        clear_true_singleton()
        LOG.append(("Rz", self, args, kwargs))
def _twin(tag):
    def __init__(self, *args, **kwargs):
        LOG.append((tag, self, args, kwargs))
    # two distinct classes with one name, module and qualified name (what a class factory, or a re-executed class statement, produces)
    return TrueSingleton("Service", (), {"__init__": __init__, "__module__": __name__})
S1 = _twin("S1")
S2 = _twin("S2")
'''
CLASSES = ("A", "B", "C", "F", "S1", "S2", "V")


def run(ctx):
    res = ctx.res
    res.rule_text = ("every subset of {A, B(A), C, F(falsy instances), S1, S2 (two distinct classes sharing name, module and qualified name)} holding a live instance (reached by constructing) x every operation (construct each class with positional+keyword "
                     "arguments, clear each class present or absent, global clear; thorough: two operations) -> returned identity, class of the result, __init__ log and the table observed by "
                     "re-constructing every class, compared with the class->instance table model")
    res.trusted_base = common.TRUSTED_AE + ["metaclass __call__ / super(Meta, cls).__call__ semantics of AE (validated by the harness classes themselves)"]
    res.assumptions = ["no re-entrant construction from __init__", "single thread"]
    common.own_rule(ctx, ["TrueSingleton.__singleton_instances"])
    h = H(ctx.src, [MOD])
    n = 0
    subsets = list(itertools.chain.from_iterable(itertools.combinations(CLASSES, k) for k in range(len(CLASSES) + 1)))
    if not ctx.thorough:
        subsets = [s_ for s_ in subsets if len(s_) <= 2 or len(s_) == len(CLASSES)] + [("A", "B", "C"), ("A", "B", "F", "S1")]
    work = []
    for live in subsets:
        ops = [("new", c, v) for c in CLASSES for v in (0, 1)] + [("clear", c, None) for c in CLASSES] + [("clear-all", None, None)]
        seqs = [(o,) for o in ops]
        if ctx.thorough:
            seqs += list(itertools.product(ops, repeat=2))
        else:
            ca = ("clear-all", None, None)
            seqs += [(ca, ca), (("clear", "C", None), ca), (ca, ("clear", "A", None)), (("new", "V", 1), ("new", "V", 0)), (("new", "V", 1), ("clear", "V", None)), (("new", "V", 1), ca)]
        work += [(live, seq) for seq in seqs]
    import multiprocessing as mp
    import os
    if ctx.thorough and not mp.current_process().daemon and (os.cpu_count() or 1) > 1:
        nproc = min(16, os.cpu_count() or 1)
        root, overlay = str(ctx.src.root), dict(ctx.src.overlay)
        chunks = [(root, overlay, work[i::nproc * 4]) for i in range(nproc * 4)]
        with mp.get_context("fork").Pool(nproc) as pool:
            outcomes = [o for part in pool.map(_eval_chunk, chunks) for o in part]
    else:
        outcomes = _eval_chunk((None, None, work), h)
    for live, seq, why, sample, und in outcomes:
        if True:
            if und is not None:
                res.ob(False)
                res.undecide(f"live={live} ops={seq}: {und}")
                continue
            n += 1
            res.ob(why is None, sig=(live, seq), sample=sample)
            if why:
                op = seq[-1] if len(seq) == 1 else seq[0]
                qual = MOD + (".TrueSingleton.__call__" if seq[0][0] == "new" else ".clear_true_singleton")
                t0 = seq[0][1]
                tcls = "falsy-instance-class" if t0 == "F" else ("same-name-twin" if t0 in ("S1", "S2") else ("subclass" if t0 == "B" else ("parent-of-live-subclass" if t0 == "A" and "B" in live else "plain")))
                cls = f"op={seq[0][0]},target-live={t0 in live if t0 else 'n/a'},target={tcls},others-live={len([c for c in live if c != t0]) > 0}"
                res.violation("TABLE-STEP", qual, cls, f"live instances {list(live)}, operations {seq}: {why}", replay=replay(live, seq))
    for name, fn_ in (("instance-dropped-by-the-caller", unreferenced), ("constructor-clears-all-singletons", reentrant_clear), ("same-name-class-created-after-the-first-construction", late_twin)):
        try:
            why = fn_(h)
        except Unknown as u:
            res.ob(False)
            res.undecide(f"{name}: {u}")
            continue
        n += 1
        res.ob(why is None, sig=(name,))
        if why:
            res.violation("TABLE-STEP", MOD + ".TrueSingleton.__call__", name, why)
    res.rule("TABLE-STEP", n)
    common.vacuity(res, "TABLE-STEP", 800)
    res.analysed = common.analysed(ctx, [MOD + ".clear_true_singleton", MOD + ".TrueSingleton.__call__"])
    res.explanation = "Every operation maps every reachable table state to the model's table state; induction gives the statement for all interleavings."


def _eval_chunk(job, h=None):
    root, overlay, items = job
    if h is None:
        from sa.src import Source
        h = H(Source(root, overlay), [MOD])
    out = []
    for live, seq in items:
        try:
            why, sample = evaluate(h, live, seq)
            out.append((live, seq, why, sample, None))
        except Unknown as u:
            out.append((live, seq, None, None, str(u)))
    return out


def _load(h):
    h.reset()
    m = h.w.load_text("verif_c18", SRC)
    h.w.mods.pop("verif_c18", None)
    h.settle()
    h.gc_reset()
    return m.globals


def late_twin(h):
    """a class factory makes a class, the class is constructed, the factory makes another class (same name, module, qualified name) - also a
    subclass named like its base - and the first class is constructed again: no clear happened, so it is the same object"""
    g = _load(h)
    log = g["LOG"]
    twin = g["_twin"]
    K1 = h.call(twin, "K1").value
    o1 = h.call(K1, 1)
    if o1.kind != "return" or not isinstance(o1.value, Obj):
        return f"K1(1) gives {o1!r}"
    K2 = h.call(twin, "K2").value          # created *after* K1 has its instance
    before = len(log.items)
    o1b = h.call(K1, 2)
    if o1b.kind != "return" or o1b.value is not o1.value or len(log.items) != before:
        return (f"a class factory makes class K1, K1(1) is constructed, the factory makes a second class of the same name, then K1(2) gives {o1b!r}"
                f"{' and runs __init__ again' if len(log.items) != before else ''}: no clear happened in between, all constructions of K1 are one object")
    o2 = h.call(K2, 1)
    if o2.kind != "return" or o2.value is o1.value or not isinstance(o2.value, Obj) or o2.value.cls is not K2:
        return f"the second class of that name has its own instance, but K2(1) gives {o2!r}"
    K3 = h.I.call(g["TrueSingleton"], ["Service", Seq([K1], "tuple"), DictV([["__module__", K1.dict.get("__module__")]])], {})      # a subclass named like its base
    if isinstance(K3, ClassV):
        K3.dict["__qualname__"] = K1.dict.get("__qualname__", "Service")
    o1c = h.call(K1, 3)
    if o1c.kind != "return" or o1c.value is not o1.value:
        return f"after a subclass named like its base class K1 was created, K1(3) gives {o1c!r} instead of K1's live instance"
    return None


def unreferenced(h):
    """the caller does not keep what the constructor returned: the period still has one instance and one __init__ run"""
    g = _load(h)
    roots = [g]           # the harness module's globals (classes, COUNT); the returned instances are deliberately not roots
    h.gc_step(roots)
    for i in range(3):
        o = h.call(g["N"], Tok(300 + i, f"arg{i}"))
        if o.kind != "return":
            return f"N(arg{i}) raises {o.excname}"
        del o
        h.gc_step(roots)
    k = len(g["COUNT"].items)
    if k != 1:
        return (f"N(arg0); N(arg1); N(arg2) without keeping the result, no clear in between: __init__ ran {k} times (with {[str(x.items[0]) for x in g['COUNT'].items]}); "
                "all constructions between two clears are one object and __init__ runs once with the first call's arguments")
    return None


def reentrant_clear(h):
    g = _load(h)
    log = g["LOG"]
    a1 = h.call(g["A"], 1)
    r1 = h.call(g["Rz"], 1)
    if a1.kind != "return" or r1.kind != "return":
        return f"A(1) / Rz(1) give {a1!r} / {r1!r}"
    n0 = len(log.items)
    r2 = h.call(g["Rz"], 2)
    if r2.kind != "return" or r2.value is not r1.value or len(log.items) != n0:
        return (f"Rz's __init__ clears all singletons; after Rz(1) a second Rz(2) gives {r2!r} ({'ran __init__ again' if len(log.items) != n0 else 'another object'}): the period that began with "
                "the clear inside the first construction has one instance")
    a2 = h.call(g["A"], 2)
    if a2.kind != "return" or a2.value is a1.value:
        return f"A was cleared by Rz's constructor, yet A(2) gives {a2!r} (the instance from before the clear)"
    a3 = h.call(g["A"], 3)
    if a3.kind != "return" or a3.value is not a2.value:
        return f"A(3) after A(2) gives {a3!r}, not the live instance"
    return None


def evaluate(h, live, seq):
    h.reset()
    m = h.w.load_text("verif_c18", SRC)
    h.w.mods.pop("verif_c18", None)
    g = m.globals
    h.settle()
    h.gc_reset()
    I = h.I
    log = g["LOG"]
    table = {}
    clear = g["clear_true_singleton"]

    def construct(c, variant, gc=False):
        args = [Tok(100 + variant, f"arg{variant}")] if variant != 1 else []       # "whatever arguments are passed": with and without
        kw = {"k": Tok(200 + variant, f"kw{variant}")} if variant != 9 else {}
        before = len(log.items)
        out = h.call(g[c], *args, **kw)
        new = log.items[before:]
        if gc:
            h.gc_step(list(table.values()))      # objects dropped by this call are collected; later allocations may live where they lived
        return out, new, args, kw

    # reach the pre-state through the public API
    for c in live:
        out, new, args, kw = construct(c, 7)
        if out.kind != "return" or not isinstance(out.value, Obj):
            return f"setting up: {c}() gives {out!r}", None
        table[c] = out.value
    h.gc_step(list(table.values()))       # the heap as it is before the operations under test
    sample = {"live": list(live), "ops": [list(map(str, o)) for o in seq]}
    for op, c, variant in seq:
        if op == "new":
            out, new, args, kw = construct(c, variant, gc=True)
            if c == "V" and variant == 1 and c not in table:
                # a first construction that fails (its __init__ rejects the arguments): the error reaches the caller, nothing is registered
                if out.kind != "raise" or out.excname != "ValueError":
                    return f"V() without its argument gives {out!r}; its __init__ raises ValueError", sample
                continue
            if out.kind != "return":
                return f"{c}(...) raises {out.excname}", sample
            v = out.value
            if c in table:
                if v is not table[c]:
                    return f"{c}(...) returned {v!r}, not the live instance of {c}", sample
                if new:
                    return f"{c}(...) ran __init__ again although an instance is live", sample
            else:
                if not isinstance(v, Obj) or any(v is t for t in table.values()):
                    return f"{c}(...) with no live instance returned {v!r} (another class's instance or not an object)", sample
                if len(new) != 1:
                    return f"{c}(...) with no live instance ran __init__ {len(new)} times", sample
                rec = new[0].items
                if not (rec[0] == c and rec[1] is v and len(rec[2].items) == len(args) and all(x is y for x, y in zip(rec[2].items, args)) and [p[1] for p in rec[3].pairs] == list(kw.values())):
                    return f"{c}(...) constructed with other arguments than the call's: {new[0]!r}", sample
                table[c] = v
            if not (isinstance(v, Obj) and v.cls is g[c]):
                return f"{c}(...) returned an instance of {v.cls.name if isinstance(v, Obj) else type(v).__name__}", sample
        elif op == "clear":
            out = h.call(clear, g[c])
            h.gc_step(list(table.values()))
            if out.kind != "return":
                return f"clear_true_singleton({c}) raises {out.excname}" + ("" if c in table else " although clearing a class without instance must be harmless"), sample
            table.pop(c, None)
        else:
            out = h.call(clear)
            h.gc_step(list(table.values()))
            if out.kind != "return":
                return f"clear_true_singleton() raises {out.excname}", sample
            table.clear()
    # observe the table: every class constructed once more
    for c in CLASSES:
        out, new, args, kw = construct(c, 9)
        if out.kind != "return":
            return f"afterwards {c}() raises {out.excname}", sample
        if c in table:
            if out.value is not table[c] or new:
                return f"afterwards {c}() does not return its live instance (it was {'re-created' if new else 'replaced'})", sample
        else:
            if not new or any(out.value is t for t in table.values()):
                return f"afterwards {c}() should construct afresh but returned {out.value!r} without running __init__", sample
            table[c] = out.value
    return None, sample


def replay(live, seq):
    L = ["from edgegraph.structure.singleton import TrueSingleton, clear_true_singleton", "calls = []",
         "class A(metaclass=TrueSingleton):\n    def __init__(self, *a, **k): calls.append(('A', a, k))",
         "class B(A):\n    def __init__(self, *a, **k): calls.append(('B', a, k))",
         "class C(metaclass=TrueSingleton):\n    def __init__(self, *a, **k): calls.append(('C', a, k))",
         "class F(metaclass=TrueSingleton):\n    def __init__(self, *a, **k): calls.append(('F', a, k))\n    def __len__(self): return 0",
         "class V(metaclass=TrueSingleton):\n    def __init__(self, *a, **k):\n        if not a: raise ValueError('V needs an argument')\n        calls.append(('V', a, k))",
         "def _twin(tag):\n    def __init__(self, *a, **k): calls.append((tag, a, k))\n    return TrueSingleton('Service', (), {'__init__': __init__})", "S1 = _twin('S1'); S2 = _twin('S2')"]
    for c in live:
        L.append(f"i{c} = {c}('setup')")
    for op, c, v in seq:
        if op == "new" and v == 1:
            L.append(f"try:\n    r = {c}(k='kw1'); print(r, calls)\nexcept Exception as e: print('raised', type(e).__name__)")
            continue
        L.append({"new": f"r = {c}('arg{v}', k='kw{v}'); print(r, calls)", "clear": f"clear_true_singleton({c})", "clear-all": "clear_true_singleton()"}[op])
    L.append("print([(c.__name__, c('again')) for c in (A, B, C, F, S1, S2, V)], calls)")
    return "\n".join(L)
