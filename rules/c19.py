"""C19 - a universe and its laws always point at each other: inductive step for I19 against the
partial-bijection model; rule attributes read back and are read-only."""
from __future__ import annotations
import itertools

from sa.harness import H
from sa.ae import Seq, DictV, ProxyV, Tok, Obj, Unknown, ClassV, Raised
from sa.src import SourceError
from rules import common

LEVEL = "proof"
UNI = "edgegraph.structure.universe.Universe"
LAWS = "edgegraph.structure.universe.UniverseLaws"
US = ("u1", "u2")
LS = ("L1", "L2", "L3")


def bindings():
    """Every I19-consistent partial injection universes -> law sets."""
    for b1, b2 in itertools.product((None,) + LS, repeat=2):
        if b1 is not None and b1 == b2:
            continue
        yield {"u1": b1, "u2": b2}


class Pre:
    def __init__(self, h, bind, nested=False):
        self.h = h
        h.reset()
        lawcls = h.fn(LAWS)
        O = {}
        for u in US:
            O[u] = h.new("Universe", u)
        for l in LS:
            O[l] = h.new(lawcls, l)
        for o in O.values():
            for f in ("_laws",) if o.name in US else ("_applies_to",):
                if f not in o.fields:
                    raise SourceError(f"anchor field {o.cls.name}.{f} is not established by the constructor")
        if nested:
            h.call(h.I.getattr(O["u1"], "add_vertex"), O["u2"])      # u2 is a member vertex of u1 (universes of universes)
        for u in US:
            O[u].fields["_laws"] = O[bind[u]] if bind[u] else None
        for l in LS:
            owner = [u for u in US if bind[u] == l]
            O[l].fields["_applies_to"] = O[owner[0]] if owner else None
        self.O = O
        h.settle()
        self.pre = self.project()

    def project(self, extra=None):
        objs = dict(self.O)
        if extra:
            objs.update(extra)
        st = {"laws": {}, "applies_to": {}}
        for n, o in objs.items():
            if "_laws" in o.fields:
                v = o.fields["_laws"]
                st["laws"][n] = v.name if isinstance(v, Obj) else v
            if "_applies_to" in o.fields:
                v = o.fields["_applies_to"]
                st["applies_to"][n] = v.name if isinstance(v, Obj) else v
        return st


def i19(st):
    bad = []
    for u, l in st["laws"].items():
        if l is not None and st["applies_to"].get(l, "?") != u:
            bad.append(f"{u}.laws is {l} but {l}.applies_to is {st['applies_to'].get(l)}")
    for l, u in st["applies_to"].items():
        if u is not None and st["laws"].get(u, "?") != l:
            bad.append(f"{l}.applies_to is {u} but {u}.laws is {st['laws'].get(u)}")
    return bad


def m_bind(st, u, l):
    """u.laws = l  /  l.applies_to = u  (either may be None: detach the other)."""
    if u is not None and l is not None and st["laws"][u] == l:
        return
    if u is not None:
        old = st["laws"][u]
        if old is not None:
            st["applies_to"][old] = None
        st["laws"][u] = None
    if l is not None:
        prev = st["applies_to"][l]
        if prev is not None:
            st["laws"][prev] = None
        st["applies_to"][l] = None
    if u is not None and l is not None:
        st["laws"][u] = l
        st["applies_to"][l] = u


def run_warnings_as_errors(ctx):
    """an assignment that a warning-turned-error ends must leave the binding a partial bijection (I19)"""
    run(ctx, warn=True)


def run(ctx, warn=False):
    res = ctx.res
    res.rule_text = ("inductive step for I19 (u.laws is L <=> L.applies_to is u): every consistent binding of 2 universes x 3 law sets x every assignment from either side "
                     "(to each object or None) and universe construction with/without laws; outcome must return normally and equal the partial-bijection model")
    res.trusted_base = common.TRUSTED_AE
    res.assumptions = ["UniverseLaws(applies_to=u) with a non-default applies_to is not part of the statement's histories (noted, not harnessed)"]
    if not warn:
        common.own_rule(ctx, ["Universe._laws", "UniverseLaws._applies_to"])
    h = H(ctx.src)
    I = h.I
    n = 0
    for bind in bindings():
        ops = [("u.laws=", u, l) for u in US for l in LS + (None,)] + [("L.applies_to=", l, u) for l in LS for u in US + (None,)]
        # the same assignments written in key style (BaseObject supports obj["name"] = value as attribute access by key)
        ops += [("u['laws']=", u, l) for u in US for l in ("L1", "L3", None)] + [("L['applies_to']=", l, u) for l in ("L1", "L3") for u in US + (None,)]
        ops += [("Universe()", None, None)] + [("Universe(laws=)", None, l) for l in LS]
        ops = [o_ + (False,) for o_ in ops] + [o_ + (True,) for o_ in ops if o_[0] in ("u.laws=", "L.applies_to=")]
        for op, x, y, nested in ops:
            p = Pre(h, bind, nested)
            model = {k: dict(v) for k, v in p.pre.items()}
            extra = None
            try:
                if op == "u.laws=":
                    out = h.setattr(p.O[x], "laws", p.O[y] if y else None)
                    m_bind(model, x, y) if y else m_detach_u(model, x)
                elif op == "L.applies_to=":
                    out = h.setattr(p.O[x], "applies_to", p.O[y] if y else None)
                    m_bind(model, y, x) if y else m_detach_l(model, x)
                elif op == "u['laws']=":
                    out = setitem(h, p.O[x], "laws", p.O[y] if y else None)
                    m_bind(model, x, y) if y else m_detach_u(model, x)
                elif op == "L['applies_to']=":
                    out = setitem(h, p.O[x], "applies_to", p.O[y] if y else None)
                    m_bind(model, y, x) if y else m_detach_l(model, x)
                elif op == "Universe()":
                    out = h.call(h.cls("Universe"))
                else:
                    out = h.call(h.cls("Universe"), laws=p.O[y])
            except Unknown as u:
                res.ob(False)
                res.undecide(f"{op} {x} {y} on binding {bind}: {u}")
                continue
            if warn and not common.warned(out):
                continue
            n += 1
            why = None
            if warn:
                post = p.project()
                bad = i19(post)
                why = ("I19 broken: " + "; ".join(bad[:3])) if bad else None
            elif out.kind == "raise":
                why = f"raised {out.excname}: every such assignment must succeed"
                post = p.project()
            else:
                if op.startswith("Universe("):
                    nu = out.value
                    if not isinstance(nu, Obj):
                        why = f"constructor returned {out!r}"
                        post = p.project()
                    else:
                        nu.name = "n"
                        extra = {"n": nu}
                        nl = nu.fields.get("_laws")
                        if op == "Universe()":
                            # a universe built without laws either has none or owns a fresh law set that points back at it
                            if isinstance(nl, Obj):
                                nl.name = "Ln"
                                extra["Ln"] = nl
                                model["laws"]["n"] = "Ln"
                                model["applies_to"]["Ln"] = "n"
                            else:
                                model["laws"]["n"] = None
                        else:
                            model["laws"]["n"] = None
                            m_bind(model, "n", y)
                        post = p.project(extra)
                else:
                    post = p.project()
                if why is None:
                    bad = i19(post)
                    if bad:
                        why = "I19 broken: " + "; ".join(bad[:3])
                    elif post != model:
                        why = "differs from the model: " + "; ".join(f"{k}.{n}: {post[k].get(n)} vs {model[k].get(n)}" for k in post for n in set(post[k]) | set(model[k]) if post[k].get(n) != model[k].get(n))
            cur_u = bind.get(x) if op == "u.laws=" else None
            keystyle = "[" in op
            if keystyle and not warn:
                # through the accessors as well: a key-style store must not leave a shadow entry that hides the property
                for u_ in US:
                    g_ = h.getattr(p.O[u_], "laws")
                    want_ = model["laws"][u_]
                    if why is None and not (g_.kind == "return" and ((g_.value is None and want_ is None) or (isinstance(g_.value, Obj) and g_.value.name == want_))):
                        why = f"afterwards {u_}.laws reads {g_!r}, the model has {want_}"
                op = {"u['laws']=": "u.laws=", "L['applies_to']=": "L.applies_to="}[op]
            elif keystyle:
                op = {"u['laws']=": "u.laws=", "L['applies_to']=": "L.applies_to="}[op]
            cls = classify(op, x, y, bind) + (",key-style-assignment" if keystyle else "") + (",universe-holds-a-universe-as-vertex" if nested else "")
            res.ob(why is None, sig=(tuple(sorted(bind.items())), op, x, y, nested), sample={"binding": bind, "call": op, "target": x, "value": y, "outcome": repr(out), "post": post})
            if why:
                res.violation("I19-STEP", {"u.laws=": UNI + ".laws[set]", "L.applies_to=": LAWS + ".applies_to[set]"}.get(op, UNI + ".__init__"), cls,
                              f"{op} target={x} value={y} on binding {bind}: {why}", detail=f"pre {p.pre}\npost {post}\nmodel {model}", replay=replay(bind, op, x, y))
    res.rule("I19-STEP" + ("/warnings-as-errors" if warn else ""), n)
    if warn:
        return
    refusal(ctx, h, res)
    # ---- copy.deepcopy of a universe (object protocol, a class's own __deepcopy__ honoured): the copy and its law set point at each
    # other, the originals still do, and a later assignment on the copy leaves the originals alone
    from rules import c10 as _c10
    for later in (None, "copy.laws = L2", "copy.laws = None"):
        try:
            h.reset()
            u0 = h.new("Universe", "u0")
            l0 = u0.fields.get(h.actual.get("laws", "_laws")) if hasattr(h, "actual") else u0.fields.get("_laws")
            if not isinstance(l0, Obj):
                l0 = h.new(h.fn(LAWS), "L0")
                if h.setattr(u0, "laws", l0).kind != "return":
                    raise Unknown("u0.laws = L0 raises")
            l0.name = "L0"
            l2 = h.new(h.fn(LAWS), "L2")
            h.settle()
            (u1,) = _c10.copy_by_object_protocol(h, [u0], deepcopy_hooks=True)
            u1.name = "u1"
            if later == "copy.laws = L2":
                r = h.setattr(u1, "laws", l2)
            elif later == "copy.laws = None":
                r = h.setattr(u1, "laws", None)
            else:
                r = None
            if r is not None and r.kind != "return":
                raise Unknown(f"{later} raises {r.excname}")
            bad = []
            objs = {"u0": u0, "u1": u1}
            for nm, u_ in objs.items():
                lw = h.getattr(u_, "laws")
                if lw.kind != "return":
                    bad.append(f"{nm}.laws raises {lw.excname}")
                    continue
                if isinstance(lw.value, Obj):
                    back = h.getattr(lw.value, "applies_to")
                    if not (back.kind == "return" and back.value is u_):
                        bad.append(f"{nm}.laws is {lw.value.name} but {lw.value.name}.applies_to is {getattr(back.value, 'name', back.value) if back.kind == 'return' else back!r}")
            back0 = h.getattr(l0, "applies_to")
            if not (back0.kind == "return" and back0.value is u0) or h.getattr(u0, "laws").value is not l0:
                bad.append(f"the original binding u0 <-> L0 is disturbed: u0.laws is {getattr(h.getattr(u0, 'laws').value, 'name', None)}, L0.applies_to is {getattr(back0.value, 'name', back0.value) if back0.kind == 'return' else back0!r}")
        except Unknown as u:
            res.ob(False)
            res.undecide(f"deepcopy of a universe ({later}): {u}")
            continue
        res.ob(not bad, sig=("deepcopy", later))
        if bad:
            res.violation("I19-STEP", UNI + ".laws[set]" if later else LAWS, "copy.deepcopy-of-a-universe" + (",then-assignment-on-the-copy" if later else ""),
                          f"u1 = copy.deepcopy(u0) where u0.laws is L0{'; ' + later.replace('copy', 'u1') if later else ''}: " + "; ".join(bad[:3]),
                          replay="import copy\nfrom edgegraph.structure import *\nu0 = Universe(); L0 = u0.laws\nu1 = copy.deepcopy(u0)\nprint(u1.laws is not L0, u1.laws.applies_to is u1, L0.applies_to is u0)\nu1.laws = UniverseLaws()\nprint(u0.laws is L0, L0.applies_to is u0)")
    res.rule("I19-DEEPCOPY", 3)
    readonly(ctx, h, res)
    common.vacuity(res, "I19-STEP", 150)
    res.analysed = common.analysed(ctx, [UNI + ".__init__", LAWS + ".__init__"])
    res.explanation = "Both setters and the constructor keep the binding a partial bijection from every consistent pre-state, so it holds after every sequence of assignments."


REFUSAL_SRC = '''
from edgegraph.structure.universe import Universe, UniverseLaws
class PickyUniverse(Universe):
    """a user universe class that refuses any change of its law set while `locked` is set"""
    locked = False
    @property
    def laws(self):
        return Universe.laws.fget(self)
    @laws.setter
    def laws(self, new):
        if self.locked:
            raise RuntimeError("locked")
        Universe.laws.fset(self, new)
class PickyLaws(UniverseLaws):
    """a user law-set class that refuses to be moved while `locked` is set"""
    locked = False
    @property
    def applies_to(self):
        return UniverseLaws.applies_to.fget(self)
    @applies_to.setter
    def applies_to(self, new):
        if self.locked:
            raise RuntimeError("locked")
        UniverseLaws.applies_to.fset(self, new)
'''


def refusal(ctx, h, res):
    """Objects of user subclasses whose own setter refuses (raises) while locked: an assignment that ends in that refusal is still one
    assignment of the sequence - afterwards `u.laws is L` holds exactly when `L.applies_to is u`, for every pair."""
    import itertools
    n = 0
    pre_bindings = [(), (("u1", "L1"),), (("p", "L1"),), (("u1", "L1"), ("p", "L2")), (("u1", "PL"),), (("p", "PL"),), (("u1", "PL"), ("p", "L1"))]
    ops = [("laws", t, v) for t in ("u1", "p") for v in ("L1", "L2", "PL", None)] + [("applies_to", t, v) for t in ("L1", "L2", "PL") for v in ("u1", "p", None)]
    for bind, (attr, target, value), locks in itertools.product(pre_bindings, ops, (("p",), ("PL",), ("p", "PL"))):
        try:
            h.reset()
            m = h.w.load_text("verif_c19_refusal", REFUSAL_SRC)
            h.w.mods.pop("verif_c19_refusal", None)
            g = m.globals
            O = {"u1": h.I.call(g["Universe"], [], {}), "p": h.I.call(g["PickyUniverse"], [], {}), "L1": h.I.call(g["UniverseLaws"], [], {}), "L2": h.I.call(g["UniverseLaws"], [], {}),
                 "PL": h.I.call(g["PickyLaws"], [], {})}
            for k_, o_ in O.items():
                o_.name = k_
            h.settle()
            # a universe may come with default laws of its own: detach them so that the pre-state is exactly `bind`
            for un in ("u1", "p"):
                if h.setattr(O[un], "laws", None).kind != "return":
                    raise Unknown("detaching the default laws raises")
            for un, ln in bind:
                if h.setattr(O[un], "laws", O[ln]).kind != "return":
                    raise Unknown(f"setting up {un}.laws = {ln} raises")
            for ln in locks:
                h.setattr(O[ln], "locked", True)
            out = h.setattr(O[target], attr, O[value] if value else None)
            bad = []
            for un, ln in itertools.product(("u1", "p"), ("L1", "L2", "PL")):
                lw, at = h.getattr(O[un], "laws"), h.getattr(O[ln], "applies_to")
                if lw.kind != "return" or at.kind != "return":
                    bad.append(f"reading {un}.laws / {ln}.applies_to raises")
                    continue
                if (lw.value is O[ln]) != (at.value is O[un]):
                    bad.append(f"{un}.laws is {getattr(lw.value, 'name', lw.value)} but {ln}.applies_to is {getattr(at.value, 'name', at.value)}")
        except Unknown as u:
            res.ob(False)
            res.undecide(f"I19-REFUSAL {bind} {target}.{attr} = {value} locked {locks}: {u}")
            continue
        n += 1
        res.ob(not bad, sig=("refusal", bind, attr, target, value, locks))
        if bad:
            res.violation("I19-STEP", (UNI + ".laws[set]") if attr == "laws" else (LAWS + ".applies_to[set]"), f"user-subclass-refuses,assignment-{'raises' if out.kind == 'raise' else 'returns'},locked={'+'.join(locks)}",
                          f"p is a Universe subclass and PL a UniverseLaws subclass whose own setters raise while locked; binding {dict(bind)}, locked {list(locks)}; {target}.{attr} = {value} "
                          f"{'raises ' + out.excname if out.kind == 'raise' else 'returns'}; afterwards " + "; ".join(bad[:3]),
                          replay="from edgegraph.structure.universe import Universe, UniverseLaws\n" + REFUSAL_SRC.split("UniverseLaws\n", 1)[1])
    res.rule("I19-REFUSAL", n)


def setitem(h, o, key, v):
    from sa.harness import Outcome
    try:
        h.I.setitem(o, key, v)
        return Outcome("return", None)
    except Raised as r:
        return Outcome("raise", exc=r.exc)


def m_detach_u(st, u):
    old = st["laws"][u]
    if old is not None:
        st["applies_to"][old] = None
    st["laws"][u] = None


def m_detach_l(st, l):
    prev = st["applies_to"][l]
    if prev is not None:
        st["laws"][prev] = None
    st["applies_to"][l] = None


def classify(op, x, y, bind):
    if op == "u.laws=":
        cur = bind[x]
        tgt = "None" if y is None else ("same" if y == cur else ("in-use-elsewhere" if y in bind.values() else "free"))
        return f"universe-has-laws={cur is not None},new={tgt}"
    if op == "L.applies_to=":
        owner = next((u for u in US if bind[u] == x), None)
        tgt = "None" if y is None else ("same" if y == owner else ("universe-with-laws" if bind[y] else "universe-without-laws"))
        return f"laws-bound={owner is not None},new={tgt}"
    if op == "Universe(laws=)":
        return f"laws-in-use={y in bind.values()}"
    return "default"


def replay(bind, op, x, y):
    L = ["from edgegraph.structure.universe import Universe, UniverseLaws", "L1, L2, L3 = UniverseLaws(), UniverseLaws(), UniverseLaws()"]
    for u in US:
        L.append(f"{u} = Universe(laws={bind[u]})" if bind[u] else f"{u} = Universe(); {u}.laws = None")
    L.append({"u.laws=": f"{x}.laws = {y}   # or {x}['laws'] = {y}", "L.applies_to=": f"{x}.applies_to = {y}   # or {x}['applies_to'] = {y}", "Universe()": "n = Universe()", "Universe(laws=)": f"n = Universe(laws={y})"}[op])
    L.append("for u in (u1, u2): print(u.laws, u.laws and u.laws.applies_to is u)")
    L.append("for l in (L1, L2, L3): print(l.applies_to, l.applies_to and l.applies_to.laws is l)")
    return "\n".join(L)


ATTRS = ("edge_whitelist", "mixed_links", "cycles", "multipath", "multiverse")


def readonly(ctx, h, res):
    lawcls = h.fn(LAWS)
    n = 0
    h.reset()
    toks = {a: Tok(10 + i, f"given_{a}") for i, a in enumerate(ATTRS) if a != "edge_whitelist"}
    K1, K2, K3 = h.cls("Vertex"), h.cls("DirectedEdge"), h.cls("UnDirectedEdge")
    inner = DictV([[K1, K2]])
    wl = DictV([[K1, inner], [K2, DictV([[K1, K3]])]])
    try:
        out = h.call(lawcls, edge_whitelist=wl, **toks)
    except Unknown as u:
        res.undecide(f"UniverseLaws constructor: {u}")
        return
    if out.kind != "return":
        res.violation("READONLY", LAWS + ".__init__", "construct", f"UniverseLaws(...) with a well-formed whitelist gives {out!r}")
        return
    L = out.value
    for a in ATTRS:
        n += 1
        try:
            g = h.getattr(L, a)
        except Unknown as u:
            res.ob(False)
            res.undecide(f"reading UniverseLaws.{a}: {u}")
            continue
        if a == "edge_whitelist":
            ok = g.kind == "return" and whitelist_equal(g.value, wl)
        else:
            ok = g.kind == "return" and g.value is toks[a]
        res.ob(ok, sig=("readback", a))
        if not ok:
            res.violation("READONLY", LAWS + "." + a, "read-back", f"UniverseLaws.{a} reads back {g!r}, not what was passed at construction")
        s = h.setattr(L, a, Tok(99, "other"))
        try:
            h.I.delattr(L, a)
            dl = "return"
        except Raised as r_:
            dl = "raise " + r_.exc.cls.name
        g2 = h.getattr(L, a)
        changed = not (g2.kind == "return" and (whitelist_equal(g2.value, wl) if a == "edge_whitelist" else g2.value is toks[a]))
        ok2 = not changed      # "cannot be changed afterwards": whether the attempt raises or is ignored is not specified
        res.ob(ok2, sig=("readonly", a))
        if not ok2:
            res.violation("READONLY", LAWS + "." + a, "assign", f"after assigning (-> {s!r}) and deleting (-> {dl}) UniverseLaws.{a} the attribute reads {g2!r}: rule attributes cannot be changed after construction")
    # positional construction in the documented parameter order (edge_whitelist, mixed_links, cycles, multipath, multiverse)
    try:
        ptoks = [Tok(30 + i, f"positional_{a}") for i, a in enumerate(ATTRS[1:])]
        op_ = h.call(lawcls, None, *ptoks)
        if op_.kind == "return":
            for a, t_ in zip(ATTRS[1:], ptoks):
                g_ = h.getattr(op_.value, a)
                n += 1
                okp = g_.kind == "return" and g_.value is t_
                res.ob(okp, sig=("positional", a))
                if not okp:
                    res.violation("READONLY", LAWS + "." + a, "positional-construction", f"UniverseLaws(None, mixed_links, cycles, multipath, multiverse) given positionally: {a} reads back {g_!r}, not the value passed in that position")
        else:
            res.violation("READONLY", LAWS + ".__init__", "positional-construction", f"UniverseLaws with five positional arguments gives {op_!r}")
    except Unknown as u:
        res.undecide(f"UniverseLaws positional construction: {u}")
    # an empty whitelist reads back empty whatever the caller later does with the dictionary it passed
    for label, arg in (("empty", DictV()), ("empty-inner", DictV([[K1, DictV()]]))):
        try:
            o2 = h.call(lawcls, edge_whitelist=arg)
            if o2.kind == "return":
                target = arg if label == "empty" else arg.pairs[0][1]
                h.I.setitem(target, K2, DictV([[K1, K3]]) if label == "empty" else K3)
                g3 = h.getattr(o2.value, "edge_whitelist")
                n += 1
                size = None
                if g3.kind == "return":
                    d_ = g3.value.d if isinstance(g3.value, ProxyV) else g3.value
                    d_ = d_.d if isinstance(d_, ProxyV) else d_
                    if label == "empty":
                        size = len(d_.pairs) if isinstance(d_, DictV) else None
                    else:
                        inner_ = d_.pairs[0][1] if isinstance(d_, DictV) and d_.pairs else None
                        inner_ = inner_.d if isinstance(inner_, ProxyV) else inner_
                        size = len(inner_.pairs) if isinstance(inner_, DictV) else None
                ok = size == 0
                res.ob(ok, sig=("readback-after-caller-mutation", label))
                if not ok:
                    res.violation("READONLY", LAWS + ".edge_whitelist", f"caller-mutates-{label}-whitelist-afterwards",
                                  f"UniverseLaws(edge_whitelist=w) with an {label.replace('-', ' ')} dictionary w; after the caller adds an entry to w, edge_whitelist reads {g3!r}: the rule attributes read back exactly what was passed at construction and cannot be changed afterwards")
        except Unknown as u:
            res.undecide(f"UniverseLaws(edge_whitelist={label}): {u}")
    # default construction reads back the documented defaults (None whitelist)
    out = h.call(lawcls)
    if out.kind == "return":
        g = h.getattr(out.value, "edge_whitelist")
        ok = g.kind == "return" and g.value is None
        res.ob(ok, sig=("readback", "default-whitelist"))
        if not ok:
            res.violation("READONLY", LAWS + ".edge_whitelist", "default", f"default edge_whitelist reads back {g!r}, expected None")
    res.rule("READONLY", n)


def whitelist_equal(v, wl):
    def pairs(x):
        if isinstance(x, ProxyV):
            x = x.d
            if isinstance(x, ProxyV):
                x = x.d
        return x.pairs if isinstance(x, DictV) else None
    a, b = pairs(v), pairs(wl)
    if a is None or b is None or len(a) != len(b):
        return False
    for (k1, v1), (k2, v2) in zip(a, b):
        if k1 is not k2:
            return False
        p1, p2 = pairs(v1), pairs(v2)
        if p1 is None or p2 is None or len(p1) != len(p2) or any(x[0] is not y[0] or x[1] is not y[1] for x, y in zip(p1, p2)):
            return False
    return True
