"""C17 - semi-singletons: per class, instances correspond one-to-one to argument keys.

Inductive step over the per-class key->instance maps: pre-states reached through the public API (which classes hold a mapping
for key k1 / k2), then every operation (class call with each argument form, add_mapping, drop, check, get_all, clear, for each
class) is evaluated abstractly and compared with the model of DESIGN.md A.5; afterwards every (class, key) is observed.
hash() is abstracted to CPython's value model on ints/strings/tuples: hash(-1) == hash(-2), otherwise injective."""
from __future__ import annotations
import itertools

from sa.harness import H
from sa.ae import Seq, DictV, Obj, Unknown, Tok, GenV, IterV
from rules import common

LEVEL = "proof"
MOD = "edgegraph.structure.singleton"
SRC = '''
from edgegraph.structure.singleton import (semi_singleton_metaclass, add_mapping, drop_semi_singleton_mapping,
    check_semi_singleton_entry_exists, get_all_semi_singleton_instances, clear_semi_singleton)
LOG = []
def parity(args, kwargs):
    """a deliberately non-injective custom key function: the parity of the first positional argument"""
    return args[0] % 2 if args else "none"
def first(args, kwargs):
    """an injective custom key function on the argument forms used here"""
    return ("k", args, tuple(sorted(kwargs.items())))
def nonekey(args, kwargs):
    """an injective custom key function whose key for a call without arguments is None (a legal, hashable key)"""
    return None if not args and not kwargs else ("k", args, tuple(sorted(kwargs.items())))
M1 = semi_singleton_metaclass(@HF@)
M2 = semi_singleton_metaclass(@HF@)
class A(metaclass=M1):
    def __init__(self, *args, **kwargs):
        LOG.append(("A", self, args, kwargs))
class B(A):
    def __init__(self, *args, **kwargs):
        LOG.append(("B", self, args, kwargs))
class C(metaclass=M1):
    def __init__(self, *args, **kwargs):
        LOG.append(("C", self, args, kwargs))
class D(metaclass=M2):
    def __init__(self, *args, **kwargs):
        LOG.append(("D", self, args, kwargs))
class E(metaclass=M2):
    """instances are falsy (an empty container)"""
    def __init__(self, *args, **kwargs):
        LOG.append(("E", self, args, kwargs))
    def __len__(self):
        return 0
class R(metaclass=M2):
    """re-entrant: constructing R(n) constructs R(n - 1) from inside __init__"""
    def __init__(self, n):
        LOG.append(("R", self, (n,), {}))
        self.inner = R(n - 1) if n > 0 else None
ATTEMPTS = []
class G(metaclass=M1):
    """construction can fail: __init__ rejects a negative first argument"""
    def __init__(self, *args, **kwargs):
        ATTEMPTS.append(args)
        if args and args[0] < 0:
            raise ValueError("negative")
        LOG.append(("G", self, args, kwargs))
def make_twin(tag):
    """a class factory: its products are distinct classes with one name, module and qualified name"""
    class Twin(metaclass=M1):
        def __init__(self, *args, **kwargs):
            LOG.append((tag, self, args, kwargs))
    return Twin
T1 = make_twin("T1")
T2 = make_twin("T2")
'''
CLASSES = ("A", "B", "C", "D", "E")
# argument forms: name -> (args, kwargs as ordered list of pairs)
FORMS = {
    "one": ((1,), []), "two": ((2,), []), "three": ((3,), []), "minus1": ((-1,), []), "minus2": ((-2,), []),
    "kw-xy": ((1,), [("x", 1), ("y", 2)]), "kw-yx": ((1,), [("y", 2), ("x", 1)]), "kw-other": ((1,), [("x", 1), ("y", 3)]), "none": ((), []),
    # positional arguments that look like the default key of the call (1, x=1, y=2): a different call, hence a different key
    "mimic-kw-xy": (((1,), '{"x": 1, "y": 2}'), []),
    # a keyword whose value is itself a dictionary: equal dictionaries are one argument value, whatever order their entries were inserted in
    "kw-dict-pq": ((1,), [("opt", (("p", 1), ("q", 2)))]), "kw-dict-qp": ((1,), [("opt", (("q", 2), ("p", 1)))]), "kw-dict-other": ((1,), [("opt", (("p", 1), ("q", 3)))]),
}


def key_of(hf, form):
    args, kw = FORMS[form]
    if hf == "parity":
        return ("parity", args[0] % 2 if args else "none")
    return (args, tuple(sorted((k, tuple(sorted(v)) if isinstance(v, tuple) else v) for k, v in kw)))


def run(ctx):
    res = ctx.res
    res.rule_text = ("hash function in {default, injective custom, non-injective custom} x pre-state (which of the classes A, B(A), C (same metaclass object), D (own metaclass) hold a mapping "
                     "for key `one`, and A also for `two`) x operation (class call with 9 argument forms incl. -1/-2, keyword permutations; add_mapping; drop; check; get_all; clear) per class; "
                     "afterwards every (class, form) observed with check_semi_singleton_entry_exists and a final construction; compared with the per-class key->instance model")
    res.trusted_base = common.TRUSTED_AE + ["value model of hash(): small ints hash to themselves except hash(-1) == hash(-2); distinct strings/tuples of distinct hashes differ (collisions other than -1/-2 are not constructible by the harness)",
                                            "json.dumps(kwargs, sort_keys=True) is a canonical form of the keyword mapping"]
    res.assumptions = ["arguments are hashable / JSON-serialisable as the default key function requires", "re-entrant construction is covered for one class whose __init__ constructs another key of its own class"]
    h = H(ctx.src, [MOD])
    n = 0
    for hf in ("None", "first", "parity", "nonekey"):
        prestates = [p for p in itertools.product((False, True), repeat=5)]
        if not ctx.thorough:
            keep = [(0, 0, 0, 0, 0), (1, 0, 0, 0, 0), (0, 1, 0, 0, 0), (1, 1, 0, 0, 0), (0, 0, 1, 0, 0), (1, 0, 1, 0, 1), (0, 0, 0, 1, 0), (0, 0, 0, 0, 1), (0, 0, 0, 1, 1), (1, 1, 1, 1, 1)]
            if hf != "None":
                keep = keep[:1] + keep[3:4] + keep[7:8] + keep[-1:]
            prestates = [tuple(bool(x) for x in k) for k in keep]
        for pre in prestates:
            live = [c for c, on in zip(CLASSES, pre) if on]
            extra_two = pre[0]  # A also holds `two`
            ops = []
            for c in CLASSES:
                forms = [f_ for f_ in FORMS if not (f_.startswith("mimic") and hf == "parity") and not (f_.startswith("kw-dict") and hf != "None")] if c in ("A", "B") or ctx.thorough else ["one", "two", "minus2"]
                ops += [("call", c, f) for f in forms]
                ops += [("check", c, "one"), ("check", c, "three"), ("get_all", c, None), ("clear", c, None), ("drop", c, "one"), ("add", c, "three")]
            for op in ops:
                try:
                    why = evaluate(h, hf, live, extra_two, op)
                except Unknown as u:
                    res.ob(False)
                    res.undecide(f"hashfunc={hf} live={live} op={op}: {u}")
                    continue
                n += 1
                res.ob(why is None, sig=(hf, pre, op), sample={"hashfunc": hf, "live_for_key_one": live, "op": list(map(str, op))})
                if why:
                    opn, c, f = op
                    qual = MOD + {"call": ".semi_singleton_metaclass.<locals>._SemiSingleton.__call__", "check": ".check_semi_singleton_entry_exists", "get_all": ".get_all_semi_singleton_instances",
                                  "clear": ".clear_semi_singleton", "drop": ".drop_semi_singleton_mapping", "add": ".add_mapping"}[opn]
                    others = [x for x in live if x != c]
                    cls = f"hashfunc={hf},op={opn},target={'falsy-instance-class' if c == 'E' else 'plain'},form={'hash-colliding' if f in ('minus1', 'minus2') else ('keyword' if f and f.startswith('kw') else 'plain')},other-classes-live={bool(others)}"
                    res.violation("MAP-STEP", qual, cls, f"hash function {hf}, live mappings for key `one`: {live}{' (A also `two`)' if extra_two else ''}, operation {op}: {why}", replay=replay(hf, live, extra_two, op))
    # ---- re-entrant construction: __init__ of R(n) constructs R(n - 1) while R(n) is not yet stored
    for hf in ("None", "first"):
        for prior in ((), ("clear",), ("live-2",)):
            try:
                why = reentrant(h, hf, prior)
            except Unknown as u:
                res.ob(False)
                res.undecide(f"re-entrant construction hashfunc={hf} prior={prior}: {u}")
                continue
            n += 1
            res.ob(why is None, sig=("reentrant", hf, prior))
            if why:
                res.violation("MAP-STEP", MOD + ".semi_singleton_metaclass.<locals>._SemiSingleton.__call__", f"hashfunc={hf},op=call,re-entrant-constructor,prior={'+'.join(prior) or 'none'}",
                              f"class R whose __init__(n) constructs R(n - 1), hash function {hf}, prior {prior}: {why}",
                              replay="from edgegraph.structure.singleton import *\nM = semi_singleton_metaclass()\nclass R(metaclass=M):\n    def __init__(self, n):\n        self.inner = R(n - 1) if n > 0 else None\n"
                                     "r = R(1)\nprint(R(1) is r, R(0) is r.inner, check_semi_singleton_entry_exists(R, 1) is r, len(list(get_all_semi_singleton_instances(R))))")
    # ---- two distinct classes that share name, module and qualified name (products of a class factory)
    for hf in ("None", "first"):
        for script in ("construct", "check", "clear-other", "drop-other", "add-other"):
            try:
                why = twins(h, hf, script)
            except Unknown as u:
                res.ob(False)
                res.undecide(f"same-name classes hashfunc={hf} script={script}: {u}")
                continue
            n += 1
            res.ob(why is None, sig=("twins", hf, script))
            if why:
                res.violation("MAP-STEP", MOD + ".semi_singleton_metaclass.<locals>._SemiSingleton.__call__", f"hashfunc={hf},same-name-classes,script={script}",
                              f"two classes produced by one class factory (same name, module and qualified name, same metaclass), hash function {hf}: {why}",
                              replay="from edgegraph.structure.singleton import *\nM = semi_singleton_metaclass()\ndef make():\n    class Twin(metaclass=M):\n        def __init__(self, x): self.x = x\n    return Twin\n"
                                     "T1, T2 = make(), make()\na = T1(1)\nb = T2(1)\nprint(type(a) is T1, type(b) is T2, a is not b, check_semi_singleton_entry_exists(T2, 1) is b)")
    # ---- many classes: one class's live mapping survives any number of other semi-singleton classes being used in between (sizes: the
    # ones the tree names - e.g. the capacity of a memo in front of the per-class maps - and a default one)
    for hf in ("None",):
        for size in common.scale_sizes(ctx, res):
            if size > 300:
                continue
            try:
                why = many_classes(h, hf, size)
            except Unknown as u:
                res.ob(False)
                res.undecide(f"many classes hashfunc={hf} size={size}: {u}")
                continue
            n += 1
            res.ob(why is None, sig=("many-classes", hf, size))
            if why:
                res.violation("MAP-STEP", MOD + ".semi_singleton_metaclass.<locals>._SemiSingleton.__call__", f"hashfunc={hf},many-classes,after-clear-and-reconstruct",
                              f"C(1); clear_semi_singleton(C); C(1) again; then {size} other semi-singleton classes (products of one class factory) are constructed once each: {why}",
                              replay="from edgegraph.structure.singleton import *\nM = semi_singleton_metaclass()\ndef make():\n    class K(metaclass=M):\n        def __init__(self, x): self.x = x\n    return K\n"
                                     f"C = make(); C(1); clear_semi_singleton(C); i2 = C(1)\nfor K in [make() for _ in range({size})]: K(1)\nprint(C(1) is i2, check_semi_singleton_entry_exists(C, 1) is i2)")
    # ---- a constructor that raises: nothing is mapped, the next attempt runs __init__ again
    for hf in ("None", "first"):
        try:
            why = failing_ctor(h, hf)
        except Unknown as u:
            res.ob(False)
            res.undecide(f"failing constructor hashfunc={hf}: {u}")
            continue
        n += 1
        res.ob(why is None, sig=("failing-ctor", hf))
        if why:
            res.violation("MAP-STEP", MOD + ".semi_singleton_metaclass.<locals>._SemiSingleton.__call__", f"hashfunc={hf},op=call,constructor-raises",
                          f"class G whose __init__ raises ValueError for a negative argument, hash function {hf}: {why}",
                          replay="from edgegraph.structure.singleton import *\nM = semi_singleton_metaclass()\nclass G(metaclass=M):\n    def __init__(self, x):\n        if x < 0: raise ValueError\n        self.x = x\n"
                                 "for _ in range(2):\n    try: G(-1)\n    except ValueError: print('raised')\nprint(check_semi_singleton_entry_exists(G, -1), list(get_all_semi_singleton_instances(G)))")
    # ---- a class whose mappings were cleared gets one back through add_mapping: it is that class's mapping and nobody else's
    for hf in ("None", "first"):
        try:
            why = cleared_then_added(h, hf)
        except Unknown as u:
            res.ob(False)
            res.undecide(f"clear then add_mapping hashfunc={hf}: {u}")
            continue
        n += 1
        res.ob(why is None, sig=("cleared-then-added", hf))
        if why:
            res.violation("MAP-STEP", MOD + ".add_mapping", f"hashfunc={hf},op=add,after-clear-of-the-same-class",
                          f"o = A(1); clear_semi_singleton(A); add_mapping(o, 1), hash function {hf}: {why}",
                          replay="from edgegraph.structure.singleton import *\nM = semi_singleton_metaclass()\nclass A(metaclass=M):\n    def __init__(self, *a): print('init A', a)\nclass C(metaclass=M):\n    def __init__(self, *a): print('init C', a)\n"
                                 "o = A(1)\nclear_semi_singleton(A)\nadd_mapping(o, 1)\nprint(A(1) is o, check_semi_singleton_entry_exists(C, 1), list(get_all_semi_singleton_instances(C)))")
    # ---- an instance constructed while its class is still being created (a base class registering a first instance of every
    # subclass from __init_subclass__): it is the live instance for its key from then on
    for hf in ("None", "first"):
        try:
            why = boot_instance(h, hf)
        except Unknown as u:
            res.ob(False)
            res.undecide(f"instance constructed from __init_subclass__ hashfunc={hf}: {u}")
            continue
        n += 1
        res.ob(why is None, sig=("init-subclass", hf))
        if why:
            res.violation("MAP-STEP", MOD + ".semi_singleton_metaclass.<locals>._SemiSingleton.__call__", f"hashfunc={hf},op=call,instance-constructed-during-class-creation",
                          f"base class whose __init_subclass__ constructs cls('boot') for every new subclass, hash function {hf}: {why}",
                          replay="from edgegraph.structure.singleton import *\nM = semi_singleton_metaclass()\nclass Base(metaclass=M):\n    boots = []\n    def __init_subclass__(cls):\n        Base.boots.append(cls('boot'))\n"
                                 "    def __init__(self, tag):\n        print('init', type(self).__name__, tag)\nclass Sub(Base): pass\nprint(Sub('boot') is Base.boots[0], check_semi_singleton_entry_exists(Sub, 'boot'), list(get_all_semi_singleton_instances(Sub)))")
    res.rule("MAP-STEP", n)
    common.vacuity(res, "MAP-STEP", 1000)
    res.analysed = common.analysed(ctx, [MOD + "." + f for f in ("semi_singleton_metaclass", "add_mapping", "drop_semi_singleton_mapping", "check_semi_singleton_entry_exists", "get_all_semi_singleton_instances", "clear_semi_singleton")])
    res.explanation = "Each operation maps every reachable state of the per-class key->instance maps to the model's state and returns what the model returns; induction covers every history."


BOOT_SRC = '''
from edgegraph.structure.singleton import (semi_singleton_metaclass, add_mapping, drop_semi_singleton_mapping,
                                           check_semi_singleton_entry_exists, get_all_semi_singleton_instances, clear_semi_singleton)
def first(args, kwargs):
    return ("k", args, tuple(sorted(kwargs.items())))
M = semi_singleton_metaclass(@HF@)
BOOTS = []
INITS = []
class Base(metaclass=M):
    def __init_subclass__(cls):
        BOOTS.append(cls("boot"))
    def __init__(self, tag):
        INITS.append((type(self).__name__, tag))
class Sub(Base):
    pass
class Sub2(Base):
    pass
'''


def boot_instance(h, hf):
    h.reset()
    m = h.w.load_text("verif_c17_boot", BOOT_SRC.replace("@HF@", hf))
    h.w.mods.pop("verif_c17_boot", None)
    g = m.globals
    h.settle()
    boots, inits = g["BOOTS"].items, g["INITS"].items
    if len(boots) != 2 or len(inits) != 2:
        return f"defining Sub and Sub2 constructed {len(boots)} instance(s) with {len(inits)} __init__ run(s); one each is expected"
    for i, cn in enumerate(("Sub", "Sub2")):
        c = h.call(g["check_semi_singleton_entry_exists"], g[cn], "boot")
        if c.kind != "return" or not (c.value is True or c.value is boots[i]):
            return f"check({cn}, 'boot') reports {c!r} although {cn}('boot') was constructed while the class was being created and is alive"
        o = h.call(g[cn], "boot")
        if o.kind != "return" or o.value is not boots[i]:
            return f"{cn}('boot') gives {o!r} instead of the live instance constructed for that key during class creation"
        if len(g["INITS"].items) != 2:
            return f"{cn}('boot') ran __init__ again for a live key"
        ga = h.call(g["get_all_semi_singleton_instances"], g[cn])
        items = list(ga.value.items) if ga.kind == "return" and isinstance(ga.value, Seq) else None
        if items is None or len(items) != 1 or items[0] is not boots[i]:
            return f"get_all({cn}) lists {ga!r}; exactly the one live instance is expected"
    return None


def cleared_then_added(h, hf):
    h.reset()
    m = h.w.load_text("verif_c17", SRC.replace("@HF@", hf))
    h.w.mods.pop("verif_c17", None)
    g = m.globals
    h.settle()
    log = g["LOG"]
    check, get_all = g["check_semi_singleton_entry_exists"], g["get_all_semi_singleton_instances"]
    o = h.call(g["A"], 1)
    if o.kind != "return" or not isinstance(o.value, Obj):
        return f"A(1) gives {o!r}"
    oa = o.value
    for step, r in (("clear_semi_singleton(A)", h.call(g["clear_semi_singleton"], g["A"])), ("add_mapping(o, 1)", h.call(g["add_mapping"], oa, 1))):
        if r.kind != "return":
            return f"{step} raises {r.excname}"
    inits = len(log.items)
    for c in ("B", "C", "D"):
        r = h.call(check, g[c], 1)
        if r.kind != "return" or not (r.value is None or r.value is False):
            return f"afterwards check({c}, 1) reports {r!r}: the mapping was added for class A only"
        ga = h.call(get_all, g[c])
        items = list(ga.value.items) if ga.kind == "return" and isinstance(ga.value, Seq) else None
        if items is None or items:
            return f"afterwards get_all({c}) lists {ga!r}: the mapping was added for class A only"
    r = h.call(check, g["A"], 1)
    if r.kind != "return" or not (r.value is True or r.value is oa):
        return f"afterwards check(A, 1) reports {r!r}: the mapping that add_mapping made is alive"
    r = h.call(g["A"], 1)
    if r.kind != "return" or r.value is not oa:
        return f"afterwards A(1) gives {r!r} instead of the instance mapped to that key"
    if len(log.items) != inits:
        return "afterwards A(1) ran __init__ again for a live key"
    return None


def failing_ctor(h, hf):
    h.reset()
    m = h.w.load_text("verif_c17", SRC.replace("@HF@", hf))
    h.w.mods.pop("verif_c17", None)
    g = m.globals
    h.settle()
    G, attempts = g["G"], g["ATTEMPTS"]
    check, get_all = g["check_semi_singleton_entry_exists"], g["get_all_semi_singleton_instances"]
    for round_ in (1, 2):
        o = h.call(G, -5)
        if o.kind != "raise" or o.excname != "ValueError":
            return f"attempt {round_}: G(-5) gives {o!r}; its __init__ raises ValueError"
        if len(attempts.items) != round_:
            return f"attempt {round_}: __init__ ran {len(attempts.items)} time(s) in total - a construction that failed must not be remembered"
        c = h.call(check, G, -5)
        if c.kind != "return" or (c.value is not None and c.value is not False):
            return f"after the failed G(-5), check(G, -5) reports {c!r}: no instance was constructed for that key"
        ga = h.call(get_all, G)
        items = ga.value.items if ga.kind == "return" and hasattr(ga.value, "items") else None
        if items is None or len(items) != 0:
            return f"after the failed G(-5), get_all(G) reports {ga!r}"
    o1 = h.call(G, 1)
    o2 = h.call(G, 1)
    if o1.kind != "return" or o2.kind != "return" or o1.value is not o2.value or len(attempts.items) != 3:
        return f"afterwards G(1) twice gives {o1!r}, {o2!r} with {len(attempts.items) - 2} __init__ run(s)"
    return None


def many_classes(h, hf, size):
    h.reset()
    m = h.w.load_text("verif_c17", SRC.replace("@HF@", hf))
    h.w.mods.pop("verif_c17", None)
    g = m.globals
    h.settle()
    h.w.step_budget = max(h.w.step_budget, 400000 + 6000 * size)
    log = g["LOG"]
    check, get_all, make = g["check_semi_singleton_entry_exists"], g["get_all_semi_singleton_instances"], g["make_twin"]
    C = h.call(make, "C").value
    o1 = h.call(C, 1)
    h.call(g["clear_semi_singleton"], C)
    o2 = h.call(C, 1)
    if o1.kind != "return" or o2.kind != "return" or o2.value is o1.value:
        return None         # the clear / re-construct step itself is decided by the MAP-STEP rows
    i2 = o2.value
    for j in range(size):
        h.w.steps = 0
        K = h.call(make, f"K{j}").value
        o = h.call(K, 1)
        if o.kind != "return" or not isinstance(o.value, Obj) or o.value.cls is not K:
            return f"the {j + 1}-th other class: K(1) gives {o!r}"
    before = len(log.items)
    h.w.steps = 0
    c = h.call(check, C, 1)
    if c.kind != "return" or c.value is not i2:
        return f"check_semi_singleton_entry_exists(C, 1) reports {c!r}, the live mapping is the instance made after the clear"
    o3 = h.call(C, 1)
    if o3.kind != "return" or o3.value is not i2:
        return f"C(1) returns {o3!r} instead of the live instance of that key"
    if len(log.items) != before:
        return f"C(1) ran __init__ again ({len(log.items) - before} time(s)) although its key is live"
    ga = h.call(get_all, C)
    items = h.I.iterate(ga.value) if ga.kind == "return" else None
    if items is None or len(items) != 1 or items[0] is not i2:
        return f"get_all_semi_singleton_instances(C) reports {ga!r}, the live mappings are exactly [the instance made after the clear]"
    return None


def twins(h, hf, script):
    h.reset()
    m = h.w.load_text("verif_c17", SRC.replace("@HF@", hf))
    h.w.mods.pop("verif_c17", None)
    g = m.globals
    h.settle()
    log = g["LOG"]
    T1, T2 = g["T1"], g["T2"]
    check, get_all = g["check_semi_singleton_entry_exists"], g["get_all_semi_singleton_instances"]
    o1 = h.call(T1, 1)
    if o1.kind != "return" or not isinstance(o1.value, Obj) or o1.value.cls is not T1:
        return f"T1(1) gives {o1!r}"
    t1 = o1.value
    if script == "check":
        c = h.call(check, T2, 1)
        if c.kind != "return" or (c.value is not None and c.value is not False):
            return f"after T1(1) only, check(T2, 1) reports {c!r}: operations on one class must not change what another class reports"
    if script == "clear-other":
        h.call(g["clear_semi_singleton"], T2)
    if script == "drop-other":
        h.call(g["drop_semi_singleton_mapping"], T2, 1)      # dropping an absent mapping: whatever it does, T1 keeps its own
    if script == "add-other":
        before = len(log.items)
        o = h.call(T2, 2)
        if o.kind != "return":
            return f"T2(2) raises {o.excname}"
        a = h.call(g["add_mapping"], o.value, 1)
        if a.kind != "return":
            return f"add_mapping(T2(2), 1) raises {a.excname} although T2 has no mapping for that key"
        c = h.call(check, T1, 1)
        if c.kind != "return" or c.value is not t1:
            return f"after add_mapping on T2, check(T1, 1) reports {c!r} instead of T1's own instance"
        return None
    c = h.call(check, T1, 1)
    if c.kind != "return" or c.value is not t1:
        return f"after {script} on the other class, check(T1, 1) reports {c!r} instead of T1's instance"
    before = len(log.items)
    o2 = h.call(T2, 1)
    if o2.kind != "return":
        return f"T2(1) raises {o2.excname}"
    if o2.value is t1 or not isinstance(o2.value, Obj) or o2.value.cls is not T2:
        return f"T2(1) returns {o2.value!r} (an instance of {o2.value.cls.name if isinstance(o2.value, Obj) else '?'} created for the other class): the object returned must be an instance of the class that was called"
    if len(log.items) != before + 1:
        return f"T2(1) ran __init__ {len(log.items) - before} time(s); T2 had no mapping for that key"
    ga = h.call(get_all, T1)
    items = ga.value.items if ga.kind == "return" and hasattr(ga.value, "items") else None
    if items is None or len(items) != 1 or items[0] is not t1:
        return f"get_all(T1) reports {ga!r}; its only live instance is T1(1)"
    return None


def reentrant(h, hf, prior):
    h.reset()
    m = h.w.load_text("verif_c17", SRC.replace("@HF@", hf))
    h.w.mods.pop("verif_c17", None)
    g = m.globals
    h.settle()
    log = g["LOG"]
    if "live-2" in prior:
        o = h.call(g["R"], 0)
        if o.kind != "return":
            return f"R(0) raises {o.excname}"
    if "clear" in prior:
        h.call(g["R"], 0)
        h.call(g["clear_semi_singleton"], g["R"])
    before = len(log.items)
    had0 = "live-2" in prior
    out = h.call(g["R"], 1)
    if out.kind != "return":
        return f"R(1) raises {out.excname}"
    r1 = out.value
    inits = [x.items[2].items[0] for x in log.items[before:]]
    if sorted(inits) != ([1] if had0 else [0, 1]):
        return f"__init__ ran for arguments {inits}, expected {[1] if had0 else [1, 0]}"
    r0 = r1.fields.get("inner")
    for arg, want in ((1, r1), (0, r0)):
        c = h.call(g["check_semi_singleton_entry_exists"], g["R"], arg)
        if c.kind != "return" or c.value is not want:
            return f"afterwards check(R, {arg}) reports {c!r}, not the instance constructed for that key"
        before = len(log.items)
        again = h.call(g["R"], arg)
        if again.kind != "return" or again.value is not want or len(log.items) != before:
            return f"afterwards R({arg}) returns {again!r} ({'re-ran __init__' if len(log.items) != before else 'another object'}) instead of the live instance"
    ga = h.call(g["get_all_semi_singleton_instances"], g["R"])
    items = ga.value.items if ga.kind == "return" and hasattr(ga.value, "items") else None
    if items is None or len(items) != 2 or not all(any(i is x for x in items) for i in (r0, r1)):
        return f"get_all(R) reports {ga!r}; live instances are R(1) and R(0)"
    return None


def evaluate(h, hf, live, extra_two, op):
    h.reset()
    m = h.w.load_text("verif_c17", SRC.replace("@HF@", hf))
    h.w.mods.pop("verif_c17", None)
    g = m.globals
    h.settle()
    log = g["LOG"]
    T = {c: {} for c in CLASSES}   # model: class -> {key: instance}

    def callargs(form):
        args, kw = FORMS[form]
        return [Seq(list(a_), "tuple") if isinstance(a_, tuple) else a_ for a_ in args], {k: (DictV([[a_, b_] for a_, b_ in v]) if isinstance(v, tuple) else v) for k, v in kw}

    def construct(c, form):
        args, kw = callargs(form)
        before = len(log.items)
        out = h.call(g[c], *args, **kw)
        return out, log.items[before:]

    def model_call(c, form, out, new, phase):
        k = key_of(hf, form)
        if out.kind != "return":
            return f"{phase}{c}({form}) raises {out.excname}"
        v = out.value
        if k in T[c]:
            if v is not T[c][k]:
                return f"{phase}{c}({form}) returned {v!r} instead of the instance mapped to that key ({T[c][k]!r})"
            if new:
                return f"{phase}{c}({form}) ran __init__ again for a live key"
        else:
            if not isinstance(v, Obj) or any(v is i for t in T.values() for i in t.values()):
                return f"{phase}{c}({form}) has no live mapping in class {c} but returned the existing object {v!r}"
            if len(new) != 1 or new[0].items[0] != c or new[0].items[1] is not v:
                return f"{phase}{c}({form}) with a new key ran __init__ {len(new)} time(s)"
            T[c][k] = v
        if not (isinstance(v, Obj) and v.cls is g[c]):
            return f"{phase}{c}({form}) returned an instance of {v.cls.name if isinstance(v, Obj) else v!r}, not of {c}"
        return None

    # pre-state through the public API
    for c in live:
        out, new = construct(c, "one")
        w = model_call(c, "one", out, new, "setting up: ")
        if w:
            return w
    if extra_two:
        out, new = construct("A", "two")
        w = model_call("A", "two", out, new, "setting up: ")
        if w:
            return w
    opn, c, form = op
    if opn == "call":
        out, new = construct(c, form)
        w = model_call(c, form, out, new, "")
        if w:
            return w
    elif opn == "check":
        args, kw = callargs(form)
        before = len(log.items)
        out = h.call(g["check_semi_singleton_entry_exists"], g[c], *args, **kw)
        k = key_of(hf, form)
        if out.kind != "return":
            return f"check({c}, {form}) raises {out.excname}"
        if len(log.items) != before:
            return f"check({c}, {form}) created an instance"
        want = T[c].get(k)
        if (want is None and out.value is not None and out.value is not False) or (want is not None and out.value is not want and out.value is not True):
            return f"check({c}, {form}) reports {out.value!r}; live mapping: {want!r}"
    elif opn == "get_all":
        before = len(log.items)
        out = h.call(g["get_all_semi_singleton_instances"], g[c])
        if out.kind != "return":
            return f"get_all({c}) raises {out.excname}"
        items = out.value.items if isinstance(out.value, Seq) else h.I.iterate(out.value)
        want = list(T[c].values())
        if len(items) != len(want) or any(not any(i is x for x in want) for i in items) or len(log.items) != before:
            return f"get_all({c}) reports {items!r}; live mappings of {c}: {want!r}"
    elif opn == "clear":
        out = h.call(g["clear_semi_singleton"], g[c])
        if out.kind != "return":
            return f"clear({c}) raises {out.excname}"
        T[c] = {}
    elif opn == "drop":
        args, kw = callargs(form)
        out = h.call(g["drop_semi_singleton_mapping"], g[c], *args, **kw)
        k = key_of(hf, form)
        if k in T[c]:
            if out.kind != "return":
                return f"drop({c}, {form}) raises {out.excname} for a live mapping"
            del T[c][k]
        # dropping an absent mapping: raising or not is not specified
    elif opn == "add":
        k1 = key_of(hf, "one")
        if k1 not in T[c]:
            return None  # nothing to add a mapping to
        obj = T[c][k1]
        args, kw = callargs(form)
        out = h.call(g["add_mapping"], obj, *args, **kw)
        if out.kind != "return":
            return f"add_mapping(instance of {c}, {form}) raises {out.excname}"
        T[c][key_of(hf, form)] = obj
    # observe: non-creating first, then constructions
    for c2 in CLASSES:
        for f2 in ("one", "two", "three", "minus1", "minus2", "none") + (("mimic-kw-xy", "kw-xy") if hf != "parity" else ()) + (("kw-dict-qp", "kw-dict-other") if hf == "None" else ()):
            args, kw = callargs(f2)
            before = len(log.items)
            out = h.call(g["check_semi_singleton_entry_exists"], g[c2], *args, **kw)
            want = T[c2].get(key_of(hf, f2))
            if out.kind != "return" or len(log.items) != before or (want is None and out.value is not None and out.value is not False) or (want is not None and out.value is not want and out.value is not True):
                return f"afterwards check({c2}, {f2}) reports {out!r}; the model's live mapping is {want!r}"
    for c2 in CLASSES:
        for f2 in ("one", "three", "none", "none") + (("kw-xy", "mimic-kw-xy") if hf != "parity" else ()) + (("kw-dict-qp", "kw-dict-pq") if hf == "None" else ()):
            out, new = construct(c2, f2)
            w = model_call(c2, f2, out, new, "afterwards ")
            if w:
                return w
    return None


def replay(hf, live, extra_two, op):
    L = ["from edgegraph.structure.singleton import *", "def parity(a, k): return a[0] % 2 if a else 'none'", "def first(a, k): return ('k', a, tuple(sorted(k.items())))",
         f"M1 = semi_singleton_metaclass({hf}); M2 = semi_singleton_metaclass({hf})",
         "class A(metaclass=M1):\n    def __init__(self, *a, **k): print('init A', a, k)", "class B(A):\n    def __init__(self, *a, **k): print('init B', a, k)",
         "class C(metaclass=M1):\n    def __init__(self, *a, **k): print('init C', a, k)", "class D(metaclass=M2):\n    def __init__(self, *a, **k): print('init D', a, k)", "class E(metaclass=M2):\n    def __init__(self, *a, **k): print('init E', a, k)\n    def __len__(self): return 0"]
    for c in live:
        L.append(f"i{c} = {c}(1)")
    if extra_two:
        L.append("iA2 = A(2)")
    opn, c, f = op
    if f:
        args, kw = FORMS[f]
        a = ", ".join([repr(x) for x in args] + [f"{k}={(dict(v) if isinstance(v, tuple) else v)!r}" for k, v in kw])
    if opn == "call":
        L.append(f"r = {c}({a}); print(type(r).__name__, r)")
    elif opn == "check":
        L.append(f"print(check_semi_singleton_entry_exists({c}, {a}))")
    elif opn == "get_all":
        L.append(f"print(list(get_all_semi_singleton_instances({c})))")
    elif opn == "clear":
        L.append(f"clear_semi_singleton({c})")
    elif opn == "drop":
        L.append(f"drop_semi_singleton_mapping({c}, {a})")
    else:
        L.append(f"add_mapping(i{c}, {a})")
    L.append("for K in (A, B, C, D, E): print(K.__name__, [check_semi_singleton_entry_exists(K, x) for x in (1, 2, 3, -1, -2)])")
    return "\n".join(L)
